#!/bin/sh
# setup_cmd: offline install of third-party monitor libraries beside the repo's interpreter.
set -e
cd "$(dirname "$0")"
if [ ! -d .deps/icontract ] || [ ! -d .deps/jsonschema ]; then
  rm -rf .deps
  PIP_NO_INDEX=1 /venv/bin/pip install -q --no-index --find-links /opt/veriftools/wheels \
      --target .deps icontract deal jsonschema atheris >/dev/null 2>&1 || \
  PIP_NO_INDEX=1 /venv/bin/pip install -q --no-index --find-links /opt/veriftools/wheels \
      --target .deps icontract jsonschema
fi
for t in gcc g++ clang valgrind nm; do command -v $t >/dev/null || { echo "missing tool $t"; exit 1; }; done
PYTHONPATH=.deps:/repo/compiler:/repo/lib/py /venv/bin/python - <<'PY'
import icontract, jsonschema, bitproto, bitprotolib
assert bitproto.__file__.startswith('/repo/'), bitproto.__file__
print("setup ok", bitproto.__file__)
PY
# anchor the reference semantics on README / language guide / upstream golden digests (informational: never fails the setup,
# a tree under test may be deliberately broken)
PYTHONPATH=.:.deps:/repo/compiler:/repo/lib/py /venv/bin/python tools/validate_ref.py 2>&1 | tail -3 || true
