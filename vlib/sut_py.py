"""Generated Python modules under observation: import, build objects the way a
user does (attribute assignment), read them back, encode/decode/json."""
from __future__ import annotations

import importlib
import sys
from typing import Any, Dict, List, Optional

from .model import Alias, Arr, Base, Enum, File, Message, Ref, file_of, qualified_path


def py_name(d: Any) -> str:
    """Documented Python name of a definition: enclosing names joined by '_'."""
    return "_".join(qualified_path(d))


class PyModules:
    def __init__(self, directory: str, root: File):
        self.dir = directory
        self.root = root
        self.mods: Dict[str, Any] = {}
        self.names: List[str] = []
        sys.path.insert(0, directory)
        importlib.invalidate_caches()
        try:
            for g in root.all_files():
                name = f"{g.basename}_bp"
                self.names.append(name)
                self.mods[g.basename] = importlib.import_module(name)
        except BaseException:
            self.close()
            raise

    def close(self) -> None:
        if self.dir in sys.path:
            sys.path.remove(self.dir)
        for g in self.root.all_files():
            for n in (f"{g.basename}_bp", f"{g.proto_name}_bp"):
                sys.modules.pop(n, None)
        for n in list(sys.modules):
            m = sys.modules[n]
            if getattr(m, "__file__", None) and str(m.__file__).startswith(self.dir):
                sys.modules.pop(n, None)

    def module_of(self, d: Any) -> Any:
        return self.mods[file_of(d).basename]

    def cls(self, d: Any) -> Any:
        return getattr(self.module_of(d), py_name(d))

    # -- build / read ------------------------------------------------------
    def new(self, m: Message) -> Any:
        return self.cls(m)()

    def build(self, m: Message, value: Dict[int, Any], enum_as_member: bool = True) -> Any:
        obj = self.new(m)
        self.fill(m, obj, value, enum_as_member)
        return obj

    def fill(self, m: Message, obj: Any, value: Dict[int, Any], enum_as_member: bool = True) -> None:
        for f in m.sorted_fields:
            self._assign(obj, f.name, True, f.type, value[f.number], enum_as_member)

    def _assign(self, container: Any, key: Any, is_attr: bool, t: Any, v: Any, eam: bool) -> None:
        def put(x):
            if is_attr:
                setattr(container, key, x)
            else:
                container[key] = x

        def get():
            return getattr(container, key) if is_attr else container[key]

        if isinstance(t, Ref):
            tt = t.target
            if isinstance(tt, Alias):
                return self._assign(container, key, is_attr, tt.type, v, eam)
            if isinstance(tt, Enum):
                if eam:
                    try:
                        return put(self.cls(tt)(v))
                    except ValueError:
                        return put(v)
                return put(v)
            if isinstance(tt, Message):
                return self.fill(tt, get(), v, eam)
            raise TypeError(tt)
        if isinstance(t, Base):
            return put(bool(v) if t.kind == "bool" else v)
        if isinstance(t, Arr):
            arr = get()
            for k in range(t.cap):
                self._assign(arr, k, False, t.elem, v[k], eam)
            return
        raise TypeError(t)

    def read(self, m: Message, obj: Any, raw_enum: bool = False) -> Dict[int, Any]:
        """raw_enum=True reads enum message fields through their integer proxy (never raises
        for non-members); used only to classify a failure, never to pass a case."""
        out = {}
        for f in m.sorted_fields:
            t = f.type
            if raw_enum and isinstance(t, Ref) and isinstance(t.target, Enum):
                # the integer proxy of an enum field: any instance attribute whose name ends with the field name (the prefix
                # is an implementation detail of the generator and may change)
                own = {x.name for x in m.fields}
                cands = [k for k, v in vars(obj).items() if k not in own and k.endswith("_" + f.name) and isinstance(v, int)]
                cands.sort(key=len)  # `..._gain` before `..._alt_gain` when both `gain` and `alt_gain` are enum fields
                out[f.number] = int(vars(obj)[cands[0]]) if cands else int(getattr(obj, f.name))
            else:
                out[f.number] = self._fetch(getattr(obj, f.name), t, raw_enum)
        return out

    def _fetch(self, x: Any, t: Any, raw_enum: bool = False) -> Any:
        if isinstance(t, Ref):
            tt = t.target
            if isinstance(tt, Alias):
                return self._fetch(x, tt.type, raw_enum)
            if isinstance(tt, Enum):
                return int(x)
            if isinstance(tt, Message):
                return self.read(tt, x, raw_enum)
            raise TypeError(tt)
        if isinstance(t, Base):
            return int(x)
        if isinstance(t, Arr):
            if len(x) != t.cap:
                raise ValueError(f"array length {len(x)} != capacity {t.cap}")
            return [self._fetch(x[k], t.elem, raw_enum) for k in range(t.cap)]
        raise TypeError(t)
