"""Reference semantics of the bitproto wire format, written from the property
statements and docs/, importing nothing from the repository.

Values: a message value is a dict {field number: value}; an array value is a
list; base/enum values are Python ints (bool: 0/1 or False/True).
Everything is naive on purpose (lists of bits, big ints).
"""
from __future__ import annotations

from typing import Any, Dict, Iterator, List, Optional, Tuple

from .model import Alias, Arr, Base, Enum, Field, Message, Ref, Type

PREFIX_BITS = 16


# ----------------------------------------------------------------------------
# sizes
# ----------------------------------------------------------------------------
def nbits(t: Any) -> int:
    if isinstance(t, Base):
        return t.width
    if isinstance(t, Ref):
        return nbits(t.target)
    if isinstance(t, Alias):
        return nbits(t.type)
    if isinstance(t, Enum):
        return t.width
    if isinstance(t, Arr):
        return t.cap * nbits(t.elem) + (PREFIX_BITS if t.ext else 0)
    if isinstance(t, Message):
        return sum(nbits(f.type) for f in t.fields) + (PREFIX_BITS if t.ext else 0)
    raise TypeError(t)


def nbytes(t: Any) -> int:
    return -(-nbits(t) // 8)


# ----------------------------------------------------------------------------
# leaves / layout
# ----------------------------------------------------------------------------
class Item:
    """One contiguous run of stream bits."""

    __slots__ = ("path", "kind", "width", "signed", "offset", "value", "etype")

    def __init__(self, path, kind, width, signed, offset, value=None, etype=None):
        self.path = path  # tuple of field numbers / indices; prefixes end with '#'
        self.kind = kind  # 'bool','byte','uint','int','enum','msgprefix','arrprefix'
        self.width = width
        self.signed = signed
        self.offset = offset
        self.value = value
        self.etype = etype

    def as_tuple(self):
        return (self.path, self.kind, self.width, self.signed, self.offset)

    def __repr__(self):
        return f"Item{self.as_tuple()}"


def flatten(t: Any, value: Any = None, path: Tuple = (), offset: int = 0, out: Optional[List[Item]] = None) -> List[Item]:
    """Ordered stream items of type t (with their values when `value` is given)."""
    if out is None:
        out = []
    pos = [offset]

    def emit(path, kind, width, signed, value, etype):
        out.append(Item(path, kind, width, signed, pos[0], value, etype))
        pos[0] += width

    def walk(t: Any, value: Any, path: Tuple) -> None:
        if isinstance(t, Ref):
            tt = t.target
            return walk(tt.type if isinstance(tt, Alias) else tt, value, path)
        if isinstance(t, Base):
            return emit(path, t.kind, t.width, t.signed, value, t)
        if isinstance(t, Enum):
            return emit(path, "enum", t.width, False, value, t)
        if isinstance(t, Arr):
            if t.ext:
                emit(path + ("#",), "arrprefix", PREFIX_BITS, False, t.cap, t)
            for k in range(t.cap):
                walk(t.elem, None if value is None else value[k], path + (k,))
            return
        if isinstance(t, Message):
            if t.ext:
                emit(path + ("#",), "msgprefix", PREFIX_BITS, False, nbits(t), t)
            for f in t.sorted_fields:
                walk(f.type, None if value is None else value[f.number], path + (f.number,))
            return
        raise TypeError(t)

    walk(t, value, path)
    return out


def leaves(t: Any, value: Any = None) -> List[Item]:
    """Stream items that carry user data (prefixes excluded)."""
    return [i for i in flatten(t, value) if i.kind not in ("msgprefix", "arrprefix")]


# ----------------------------------------------------------------------------
# encode / decode
# ----------------------------------------------------------------------------
def to_unsigned(v: Any, width: int) -> int:
    return int(v) & ((1 << width) - 1)


def to_signed(u: int, width: int) -> int:
    u &= (1 << width) - 1
    return u - (1 << width) if u >> (width - 1) else u


def encode_bits(t: Any, value: Any) -> List[int]:
    bits: List[int] = []
    for it in flatten(t, value):
        u = to_unsigned(it.value, it.width)
        bits.extend((u >> k) & 1 for k in range(it.width))
    return bits


def pack(bits: List[int]) -> bytes:
    out = bytearray(-(-len(bits) // 8))
    for k, b in enumerate(bits):
        if b:
            out[k // 8] |= 1 << (k % 8)
    return bytes(out)


def unpack(data: bytes) -> List[int]:
    return [(data[k // 8] >> (k % 8)) & 1 for k in range(len(data) * 8)]


def encode(t: Any, value: Any) -> bytes:
    return pack(encode_bits(t, value))


class DecodeShort(Exception):
    pass


def _take(bits: List[int], pos: int, n: int) -> int:
    if pos + n > len(bits):
        raise DecodeShort(f"need bits [{pos},{pos + n}) of {len(bits)}")
    v = 0
    for k in range(n):
        v |= bits[pos + k] << k
    return v


def decode_at(t: Any, bits: List[int], pos: int) -> Tuple[Any, int]:
    """Reference decoder with the documented forward-compatible skipping:
    an extensible message announces its own bit size (prefix included) and an
    extensible array its capacity; a receiver that knows fewer fields/elements
    skips the rest.  Returns (value, next position)."""
    if isinstance(t, Ref):
        tt = t.target
        return decode_at(tt.type if isinstance(tt, Alias) else tt, bits, pos)
    if isinstance(t, Base):
        u = _take(bits, pos, t.width)
        if t.kind == "int":
            return to_signed(u, t.width), pos + t.width
        return u, pos + t.width
    if isinstance(t, Enum):
        return _take(bits, pos, t.width), pos + t.width
    if isinstance(t, Arr):
        start = pos
        sender_cap = None
        if t.ext:
            sender_cap = _take(bits, pos, PREFIX_BITS)
            pos += PREFIX_BITS
        vals = []
        per_elem = None
        for k in range(t.cap):
            p0 = pos
            v, pos = decode_at(t.elem, bits, pos)
            per_elem = pos - p0 if per_elem is None else per_elem
            vals.append(v)
        if t.ext and sender_cap is not None and sender_cap > t.cap:
            # the elements are all of the sender's element size; when the element is
            # itself an extended extensible message its size is the measured one.
            esz = per_elem if per_elem is not None else nbits(t.elem)
            pos = start + PREFIX_BITS + sender_cap * esz
        return vals, pos
    if isinstance(t, Message):
        start = pos
        sender_bits = None
        if t.ext:
            sender_bits = _take(bits, pos, PREFIX_BITS)
            pos += PREFIX_BITS
        val: Dict[int, Any] = {}
        for f in t.sorted_fields:
            val[f.number], pos = decode_at(f.type, bits, pos)
        if t.ext and sender_bits is not None and start + sender_bits > pos:
            pos = start + sender_bits
        return val, pos
    raise TypeError(t)


def decode(t: Any, data: bytes) -> Any:
    v, _ = decode_at(t, unpack(data), 0)
    return v


def normalise(t: Any, value: Any) -> Any:
    """The value a correct decoder returns for `value` (ints reduced to range)."""
    if isinstance(t, Ref):
        tt = t.target
        return normalise(tt.type if isinstance(tt, Alias) else tt, value)
    if isinstance(t, Base):
        if t.kind == "bool":
            return int(bool(value))
        u = to_unsigned(value, t.width)
        return to_signed(u, t.width) if t.kind == "int" else u
    if isinstance(t, Enum):
        return to_unsigned(value, t.width)
    if isinstance(t, Arr):
        return [normalise(t.elem, v) for v in value]
    if isinstance(t, Message):
        return {f.number: normalise(f.type, value[f.number]) for f in t.sorted_fields}
    raise TypeError(t)


def project(t_old: Any, t_new: Any, value_new: Any) -> Any:
    """Restriction of a value of the newer type to what the older type knows."""
    def un(t):
        while isinstance(t, Ref):
            tt = t.target
            t = tt.type if isinstance(tt, Alias) else tt
        return t

    a, b = un(t_old), un(t_new)
    if isinstance(a, (Base, Enum)):
        return normalise(a, value_new)
    if isinstance(a, Arr):
        return [project(a.elem, b.elem, value_new[k]) for k in range(a.cap)]
    if isinstance(a, Message):
        bf = {f.number: f for f in b.fields}
        return {f.number: project(f.type, bf[f.number].type, value_new[f.number]) for f in a.sorted_fields}
    raise TypeError(a)


# ----------------------------------------------------------------------------
# JSON value
# ----------------------------------------------------------------------------
def json_value(t: Any, value: Any) -> Any:
    """What the JSON text must denote: object keyed by field name in number order,
    ints, true/false, lists, nested objects, enum numbers."""
    if isinstance(t, Ref):
        tt = t.target
        return json_value(tt.type if isinstance(tt, Alias) else tt, value)
    if isinstance(t, Base):
        if t.kind == "bool":
            return bool(value)
        return normalise(t, value)
    if isinstance(t, Enum):
        return int(value)
    if isinstance(t, Arr):
        return [json_value(t.elem, v) for v in value]
    if isinstance(t, Message):
        return [(f.name, json_value(f.type, value[f.number])) for f in t.sorted_fields]
    raise TypeError(t)


def json_pairs_to_obj(v: Any) -> Any:
    """json.loads(..., object_pairs_hook=list) result -> same nested-list form as json_value."""
    return v


def zero_value(t: Any) -> Any:
    if isinstance(t, Ref):
        tt = t.target
        return zero_value(tt.type if isinstance(tt, Alias) else tt)
    if isinstance(t, (Base, Enum)):
        return 0
    if isinstance(t, Arr):
        return [zero_value(t.elem) for _ in range(t.cap)]
    if isinstance(t, Message):
        return {f.number: zero_value(f.type) for f in t.sorted_fields}
    raise TypeError(t)


def count_leaves(t: Any) -> int:
    return len(leaves(t))


def set_leaf(t: Any, value: Any, path: Tuple, new: Any) -> Any:
    """Return a copy of value with the leaf at `path` replaced."""
    if not path:
        return new
    if isinstance(t, Ref):
        tt = t.target
        return set_leaf(tt.type if isinstance(tt, Alias) else tt, value, path, new)
    head, rest = path[0], path[1:]
    if isinstance(t, Arr):
        out = list(value)
        out[head] = set_leaf(t.elem, value[head], rest, new)
        return out
    if isinstance(t, Message):
        out = dict(value)
        f = next(f for f in t.fields if f.number == head)
        out[head] = set_leaf(f.type, value[head], rest, new)
        return out
    raise TypeError(t)


def leaf_values(t: Any, value: Any) -> List[int]:
    return [it.value for it in leaves(t, value)]


def value_from_leaves(t: Any, vals: List[int]) -> Any:
    it = iter(vals)

    def build(t: Any) -> Any:
        if isinstance(t, Ref):
            tt = t.target
            return build(tt.type if isinstance(tt, Alias) else tt)
        if isinstance(t, (Base, Enum)):
            return next(it)
        if isinstance(t, Arr):
            return [build(t.elem) for _ in range(t.cap)]
        if isinstance(t, Message):
            return {f.number: build(f.type) for f in t.sorted_fields}
        raise TypeError(t)

    return build(t)
