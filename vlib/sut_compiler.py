"""Drives the real compiler: in-process parse()/lint()/render() and the CLI."""
from __future__ import annotations

import contextlib
import io
import os
import subprocess
import sys
from typing import Any, Dict, List, Optional, Tuple

from . import env
from .emit import write_schema
from .model import File


def bitproto_api():
    env.ensure_paths()
    import bitproto.errors as errors
    from bitproto.linter import lint
    from bitproto.parser import parse, parse_string
    from bitproto.renderer import render

    return parse, parse_string, render, lint, errors


@contextlib.contextmanager
def quiet_stderr():
    """Lint warnings / deprecation notes go to stderr; keep worker logs small."""
    old = sys.stderr
    buf = io.StringIO()
    sys.stderr = buf
    try:
        yield buf
    finally:
        sys.stderr = old


def parse_file(path: str, traditional: bool = False):
    parse, _, _, _, _ = bitproto_api()
    with quiet_stderr():
        return parse(path, traditional_mode=traditional)


def render_file(proto, lang: str, outdir: str, optimize: bool = False, filt: Optional[List[str]] = None,
                endian: str = "both") -> List[str]:
    _, _, render, _, _ = bitproto_api()
    with quiet_stderr():
        return render(proto, lang, outdir=outdir, optimization_mode=optimize,
                      optimization_mode_filter_messages=filt, optimization_mode_endian=endian)


def compile_schema(root: File, directory: str, langs: List[str], outdir: Optional[str] = None,
                   optimize: bool = False, endian: str = "both", rng=None, emit_kw: Optional[Dict] = None,
                   paths: Optional[Dict[str, str]] = None) -> Dict[str, Any]:
    """Write every file of the schema and compile each of them for `langs` (in-process).
    Returns {'paths': {basename: path}, 'protos': {basename: proto}, 'outs': {(basename, lang): [files]}}."""
    if paths is None:
        paths = write_schema(root, directory, rng=rng, **(emit_kw or {}))
    outdir = outdir or directory
    os.makedirs(outdir, exist_ok=True)
    protos, outs = {}, {}
    for g in root.all_files():
        proto = parse_file(paths[g.basename], traditional=optimize)
        protos[g.basename] = proto
        for lang in langs:
            outs[(g.basename, lang)] = render_file(proto, lang, outdir, optimize=optimize, endian=endian)
    return {"paths": paths, "protos": protos, "outs": outs}


def cli(args: List[str], cwd: Optional[str] = None, hashseed: Optional[str] = None, timeout: float = 120) -> Tuple[int, str, str]:
    """Run the real command-line compiler in a subprocess."""
    e = env.child_env()
    if hashseed is not None:
        e["PYTHONHASHSEED"] = hashseed
    p = subprocess.run([env.PYTHON, "-m", "bitproto._main"] + args, cwd=cwd, env=e, capture_output=True,
                       text=True, timeout=timeout)
    return p.returncode, p.stdout, p.stderr
