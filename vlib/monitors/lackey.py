"""Memory-access-width monitor: valgrind --tool=lackey --trace-mem=yes.

The driver stores 1/0 to the global `drv_marker` around the call under
observation; every load/store/modify inside such a window is returned with its
address, size and the function whose code range (nm -S on a -no-pie -O0 build)
contains the instruction that issued it.  This is the observable for "does not
depend on host byte order": byte-order-neutral code touches the wire one byte at
a time and message fields as whole values, which functional output on an x86
host cannot show.
"""
from __future__ import annotations

import bisect
import os
import subprocess
from typing import Any, Dict, List, Optional, Tuple


def symbols(exe: str) -> Tuple[List[int], List[Tuple[int, int, str]], Dict[str, int]]:
    out = subprocess.run(["nm", "-S", "--defined-only", exe], capture_output=True, text=True, check=True).stdout
    funcs = []
    data: Dict[str, int] = {}
    for line in out.splitlines():
        parts = line.split()
        if len(parts) == 4:
            addr, size, kind, name = parts
            if kind in "tT":
                funcs.append((int(addr, 16), int(size, 16), name))
            else:
                data[name] = int(addr, 16)
        elif len(parts) == 3:
            addr, kind, name = parts
            if kind not in "tT":
                data[name] = int(addr, 16)
    funcs.sort()
    return [f[0] for f in funcs], funcs, data


class Access:
    __slots__ = ("kind", "addr", "size", "func")

    def __init__(self, kind: str, addr: int, size: int, func: str):
        self.kind, self.addr, self.size, self.func = kind, addr, size, func

    def __repr__(self) -> str:
        return f"{self.kind} {self.addr:#x},{self.size} in {self.func}"


def run_traced(exe: str, commands: List[str], workdir: str, timeout: float = 600) -> Tuple[List[str], List[List[Access]]]:
    """Runs the driver under lackey.  Returns (stdout lines, one access list per marker window)."""
    starts, funcs, data = symbols(exe)
    marker = data.get("drv_marker")
    if marker is None:
        raise RuntimeError("drv_marker symbol not found (build with -no-pie)")
    log = os.path.join(workdir, "lackey.log")
    p = subprocess.run(["valgrind", "--tool=lackey", "--trace-mem=yes", f"--log-file={log}", exe],
                       input="\n".join(commands) + "\nQ\n", capture_output=True, text=True, timeout=timeout)
    if p.returncode != 0:
        raise RuntimeError(f"traced driver exit {p.returncode}: {p.stderr[-500:]}")

    def func_of(addr: int) -> str:
        k = bisect.bisect_right(starts, addr) - 1
        if k >= 0:
            a, sz, name = funcs[k]
            if a <= addr < a + max(sz, 1):
                return name
        return "?"

    windows: List[List[Access]] = []
    cur: Optional[List[Access]] = None
    last_func = "?"
    with open(log) as fh:
        for line in fh:
            if len(line) < 4 or line[0] == "=":
                continue
            tag = line[:2]
            if tag == "I ":
                if cur is not None:
                    try:
                        last_func = func_of(int(line[3:].split(",")[0], 16))
                    except ValueError:
                        pass
                continue
            if tag not in (" S", " L", " M"):
                continue
            try:
                a, sz = line[3:].strip().split(",")
                addr, size = int(a, 16), int(sz)
            except ValueError:
                continue
            if addr == marker and tag in (" S", " M"):
                if cur is None:
                    cur = []
                    last_func = "?"
                else:
                    windows.append(cur)
                    cur = None
                continue
            if cur is not None:
                cur.append(Access(tag.strip(), addr, size, last_func))
    os.unlink(log)
    return [l for l in p.stdout.split("\n") if l], windows
