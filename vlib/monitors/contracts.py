"""Runtime contracts on the real compiler functions (size arithmetic, sorting,
storage-width choice, mask computation, scope bookkeeping).

Applied from the harness with icontract (named condition functions, explicit
error=) to the classes of the imported working tree; no repository edit.  Every
evaluation is counted; a property that relies on a contract treats zero
evaluations as inconclusive.
"""
from __future__ import annotations

from typing import Any, Dict

COUNTS: Dict[str, int] = {}
_installed = False


class ContractBroken(Exception):
    pass


def _c(name: str) -> None:
    COUNTS[name] = COUNTS.get(name, 0) + 1


def install() -> None:
    global _installed
    if _installed:
        return
    _installed = True
    import icontract
    import bitproto._ast as A
    from bitproto.renderer.formatter import Formatter

    try:
        _install_all(icontract, A, Formatter)
    except AttributeError as e:  # a watched function was renamed/removed: the remaining contracts stay installed
        COUNTS["install_incomplete:" + str(e)[:60]] = 1


def _install_all(icontract, A, Formatter) -> None:

    # -- Type.nbytes == ceil(nbits/8) -------------------------------------------
    def nbytes_ok(self, result):
        _c("Type.nbytes")
        return result == -(-self.nbits() // 8)

    A.Type.nbytes = icontract.ensure(
        nbytes_ok, error=lambda self, result: ContractBroken(f"nbytes({self!r})={result} nbits={self.nbits()}")
    )(A.Type.nbytes)

    # -- Array.nbits ------------------------------------------------------------
    # A postcondition that recomputes a size from the parts calls the (watched) size functions of the parts, which recompute theirs:
    # on a schema whose definitions are reused with a wide fan-out (a small DAG with an exponential tree expansion) the MONITOR would
    # need fan_out^depth steps where the code under observation memoises.  A verdict about a frozen node is therefore remembered with
    # the result it was given for; a different result for the same node is checked again.
    verified = {}

    def once_per_node(name, check):
        def cond(self, result):
            key = (name, id(self))
            e = verified.get(key)
            if e is not None and e[0] is self and e[1] == result:
                return True
            _c(name)
            ok = check(self, result)
            if ok and getattr(self, "__frozen__", False):
                verified[key] = (self, result)   # (the node is kept: its id cannot be reused)
            return ok
        cond.__name__ = check.__name__
        return cond

    def array_nbits_ok(self, result):
        return result == self.cap * self.element_type.nbits() + (16 if self.extensible else 0)

    array_nbits_ok = once_per_node("Array.nbits", array_nbits_ok)

    A.Array.nbits = icontract.ensure(
        array_nbits_ok, error=lambda self, result: ContractBroken(f"Array.nbits({self!r})={result}")
    )(A.Array.nbits)

    # -- Message.nbits ----------------------------------------------------------
    def message_nbits_ok(self, result):
        fields = [m for m in self.members.values() if isinstance(m, A.MessageField)]
        return result == sum(f.type.nbits() for f in fields) + (16 if self.extensible else 0)

    message_nbits_ok = once_per_node("Message.nbits", message_nbits_ok)

    A.Message.nbits = icontract.ensure(
        message_nbits_ok, error=lambda self, result: ContractBroken(f"Message.nbits({self!r})={result}")
    )(A.Message.nbits)

    # -- sorted_fields is the ascending permutation of the declared fields -------
    def sorted_ok(self, result):
        _c("Message.sorted_fields")
        fields = [m for m in self.members.values() if isinstance(m, A.MessageField)]
        nums = [f.number for f in result]
        return nums == sorted(nums) and len(result) == len(fields) and {id(f) for f in result} == {id(f) for f in fields}

    A.Message.sorted_fields = icontract.ensure(
        sorted_ok, error=lambda self, result: ContractBroken(f"sorted_fields({self!r}) = {[f.number for f in result]}")
    )(A.Message.sorted_fields)

    # -- storage width: smallest of 8/16/32/64 covering the declared width --------
    def storage_ok(self, t, result):
        _c("Formatter.get_nbits_of_integer")
        n = t.nbits()
        return result == next(s for s in (8, 16, 32, 64) if s >= n)

    Formatter.get_nbits_of_integer = icontract.ensure(
        storage_ok, error=lambda self, t, result: ContractBroken(f"get_nbits_of_integer({t!r})={result}")
    )(Formatter.get_nbits_of_integer)

    # -- optimisation-mode mask -------------------------------------------------
    def opmask_ok(self, k, c, result):
        _c("Formatter.op_mode_get_mask")
        return result == (((1 << c) - 1) << k) and 0 <= k <= 7 and 1 <= c <= 8 and k + c <= 8

    Formatter.op_mode_get_mask = icontract.ensure(
        opmask_ok, error=lambda self, k, c, result: ContractBroken(f"op_mode_get_mask({k},{c})={result}")
    )(Formatter.op_mode_get_mask)

    # -- Scope.push_member keeps names unique and adds exactly one ---------------
    orig_push = A.Scope.push_member

    def push_member(self, member, name=None):
        _c("Scope.push_member")
        before = len(self.members)
        key = member.name if name is None else name
        had = key in self.members
        orig_push(self, member, name)
        if had or len(self.members) != before + 1 or self.members.get(key) is not member:
            raise ContractBroken(f"push_member({key}) on {self!r}: had={had} size {before}->{len(self.members)}")

    A.Scope.push_member = push_member

    # -- Parser scope stack is balanced around every child parse ------------------
    import bitproto.parser as P

    orig_child = P.Parser.parse_child

    def parse_child(self, filepath):
        _c("Parser.parse_child")
        depth, fdepth = len(self.scope_stack), len(self.filepath_stack)
        r = orig_child(self, filepath)
        if len(self.scope_stack) != depth or len(self.filepath_stack) != fdepth:
            raise ContractBroken(f"parse_child({filepath}) left scope depth {depth}->{len(self.scope_stack)} "
                                 f"file depth {fdepth}->{len(self.filepath_stack)}")
        return r

    P.Parser.parse_child = parse_child
