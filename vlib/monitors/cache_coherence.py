"""Cache-coherence monitor for the compiler's memoised AST methods (C18).

Every method of bitproto._ast that carries a memoising wrapper (`cache_if_frozen`
or functools.cache; recognised by `__wrapped__`) is re-bound to a wrapper that, on
a frozen node, also calls the undecorated function and requires the same result
(same node identities for lists/dicts of nodes, equality otherwise).  A cache that
returns a stale or foreign entry is caught at the call, not only if it happens
to change the output.
"""
from __future__ import annotations

import inspect
from typing import Any, Dict, List

COUNTS: Dict[str, int] = {}
PROBLEMS: List[str] = []
_installed = False
_busy = False


def _same(a: Any, b: Any) -> bool:
    if a is b:
        return True
    if isinstance(a, (list, tuple)) and isinstance(b, (list, tuple)):
        return len(a) == len(b) and all(_same(x, y) for x, y in zip(a, b))
    if isinstance(a, dict) and isinstance(b, dict):
        return list(a.keys()) == list(b.keys()) and all(_same(a[k], b[k]) for k in a)
    try:
        return a == b
    except Exception:
        return False


def install() -> None:
    global _installed
    if _installed:
        return
    _installed = True
    import bitproto._ast as A

    for cname, cls in inspect.getmembers(A, inspect.isclass):
        if cls.__module__ != A.__name__:
            continue
        for name, attr in list(vars(cls).items()):
            if not callable(attr) or not hasattr(attr, "__wrapped__") or name.startswith("__"):
                continue
            raw = attr.__wrapped__
            while hasattr(raw, "__wrapped__"):
                raw = raw.__wrapped__
            key = f"{cname}.{name}"

            def make(cached, raw, key):
                def checked(self, *args, **kw):
                    global _busy
                    r = cached(self, *args, **kw)
                    if _busy or not getattr(self, "__frozen__", False):
                        return r
                    _busy = True
                    try:
                        direct = raw(self, *args, **kw)
                    except Exception as e:  # the cached call succeeded: recomputing must too
                        PROBLEMS.append(f"{key}{args!r} on {self!r}: cached call returned, recomputation raised {type(e).__name__}: {e}")
                        return r
                    finally:
                        _busy = False
                    COUNTS[key] = COUNTS.get(key, 0) + 1
                    if not _same(r, direct) and len(PROBLEMS) < 20:
                        PROBLEMS.append(f"{key}{args!r} on {self!r}: memoised result {r!r} != recomputed {direct!r}")
                    return r

                checked.__name__ = getattr(cached, "__name__", key)
                checked.__wrapped__ = raw
                checked.__overridable__ = getattr(cached, "__overridable__", False)
                return checked

            setattr(cls, name, make(attr, raw, key))
