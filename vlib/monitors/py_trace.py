"""Trace monitor for the real Python runtime (lib/py/bitprotolib/bp.py).

bp.py looks its helpers up as module globals, so the harness rebinds
process_base_type / encode_single_byte / decode_single_byte to recording
wrappers around the originals (no repository edit).  Online checks:

 * conservation: a process_base_type(nbits) call advances ctx.i by exactly nbits,
   Σc = nbits, every 1 <= c <= 8, and each step stays inside one wire byte and one
   value byte;
 * exactly-once (encode): a step changes no bit of ctx.s outside [i, i+c) and only
   0 -> 1 inside; successive base-type calls are gap-free from bit 0;
 * bounds: no index >= len(s) is touched;
 * decode: the cursor only moves forward; the (start, nbits) sequence is returned
   so the caller can compare it with the reference layout.

icontract postconditions on the pure helpers (get_mask, get_nbits_to_copy,
smart_shift, int8/16/32/64) are installed by `install_contracts`.
"""
from __future__ import annotations

from typing import Any, Dict, List, Optional, Tuple


class TraceViolation(Exception):
    pass


class PyTrace:
    def __init__(self, bp: Any):
        self.bp = bp
        self.orig: Dict[str, Any] = {}
        self.active = False
        self.calls: List[Tuple[int, int]] = []  # (start bit, nbits) of base-type calls
        self.steps = 0
        self.problems: List[str] = []
        self.total_calls = 0
        self.total_steps = 0
        self.cells: set = set()  # (nbits, start%8, is_encode) cells observed
        self._cur: Optional[Dict[str, Any]] = None

    # -- lifecycle ---------------------------------------------------------
    def install(self) -> None:
        bp = self.bp
        self.attached = all(hasattr(bp, n) for n in ("process_base_type", "encode_single_byte", "decode_single_byte"))
        if not self.attached:
            return  # the runtime was restructured: byte-level oracles still decide, the step monitor reports 0 events
        for n in ("process_base_type", "encode_single_byte", "decode_single_byte"):
            self.orig[n] = getattr(bp, n)
        bp.process_base_type = self._process_base_type
        bp.encode_single_byte = self._encode_single_byte
        bp.decode_single_byte = self._decode_single_byte

    def uninstall(self) -> None:
        for n, f in self.orig.items():
            setattr(self.bp, n, f)

    def begin(self) -> None:
        self.active = True
        self.calls = []
        self.steps = 0
        self.problems = []

    def end(self) -> Tuple[List[Tuple[int, int]], List[str]]:
        self.active = False
        return self.calls, self.problems

    def _bad(self, msg: str) -> None:
        if len(self.problems) < 10:
            self.problems.append(msg)

    # -- wrappers ----------------------------------------------------------
    def _process_base_type(self, nbits, ctx, di, accessor):
        if not self.active:
            return self.orig["process_base_type"](nbits, ctx, di, accessor)
        i0 = ctx.i
        cur = {"i0": i0, "n": nbits, "sum": 0, "enc": ctx.is_encode, "j_expect": 0}
        prev, self._cur = self._cur, cur
        try:
            self.orig["process_base_type"](nbits, ctx, di, accessor)
        finally:
            self._cur = prev
        self.total_calls += 1
        self.calls.append((i0, nbits))
        self.cells.add((nbits, i0 % 8, bool(ctx.is_encode)))
        if ctx.i != i0 + nbits:
            self._bad(f"conservation: base type of {nbits} bits at bit {i0} advanced the cursor to {ctx.i}")
        if cur["sum"] != nbits:
            self._bad(f"conservation: steps of base type at bit {i0} copied {cur['sum']} bits, expected {nbits}")

    def _step_checks(self, ctx, j, c) -> None:
        cur = self._cur
        self.total_steps += 1
        self.steps += 1
        if not (1 <= c <= 8):
            self._bad(f"step copies c={c} bits (i={ctx.i}, j={j})")
        if (ctx.i % 8) + c > 8:
            self._bad(f"step crosses a wire byte: i={ctx.i} c={c}")
        if (j % 8) + c > 8:
            self._bad(f"step crosses a value byte: j={j} c={c}")
        if ctx.i // 8 >= len(ctx.s):
            self._bad(f"bounds: step touches byte {ctx.i // 8} of a {len(ctx.s)}-byte buffer")
        if cur is not None:
            if j != cur["j_expect"]:
                self._bad(f"step starts at value bit {j}, expected {cur['j_expect']}")
            if ctx.i != cur["i0"] + j:
                self._bad(f"cursor {ctx.i} != base start {cur['i0']} + {j}")
            cur["j_expect"] = j + c
            cur["sum"] += c

    def _encode_single_byte(self, ctx, di, accessor, j, c):
        if not self.active:
            return self.orig["encode_single_byte"](ctx, di, accessor, j, c)
        self._step_checks(ctx, j, c)
        idx = ctx.i // 8
        before = bytes(ctx.s)
        self.orig["encode_single_byte"](ctx, di, accessor, j, c)
        after = ctx.s
        if len(after) != len(before):
            self._bad(f"buffer length changed {len(before)} -> {len(after)}")
            return
        k = ctx.i % 8
        mask = ((1 << c) - 1) << k
        if before[:idx] != after[:idx] or before[idx + 1:] != after[idx + 1:]:
            b = next(b for b in range(len(before)) if b != idx and before[b] != after[b])
            self._bad(f"exactly-once: step for bits [{ctx.i},{ctx.i + c}) changed byte {b}")
        if idx < len(before):
            diff = before[idx] ^ after[idx]
            if diff & ~mask & 0xFF:
                self._bad(f"exactly-once: step for bits [{ctx.i},{ctx.i + c}) changed bits {diff:#04x} of byte {idx} outside mask {mask:#04x}")
            if before[idx] & mask:
                self._bad(f"exactly-once: bits [{ctx.i},{ctx.i + c}) were already set before their step")

    def _decode_single_byte(self, ctx, di, accessor, j, c):
        if not self.active:
            return self.orig["decode_single_byte"](ctx, di, accessor, j, c)
        self._step_checks(ctx, j, c)
        self.orig["decode_single_byte"](ctx, di, accessor, j, c)


def check_gap_free(calls: List[Tuple[int, int]], total_bits: int) -> Optional[str]:
    pos = 0
    for start, n in calls:
        if start != pos:
            return f"base-type call starts at bit {start}, previous one ended at {pos}"
        pos = start + n
    if pos != total_bits:
        return f"stream ends at bit {pos}, message has {total_bits} bits"
    return None


def check_layout(calls: List[Tuple[int, int]], items: List[Any]) -> Optional[str]:
    exp = [(it.offset, it.width) for it in items]
    if calls == exp:
        return None
    for k, (a, b) in enumerate(zip(calls, exp)):
        if a != b:
            return f"item {k} ({items[k].kind} path={items[k].path}): runtime processed (start,nbits)={a}, layout says {b}"
    return f"runtime processed {len(calls)} items, layout has {len(exp)}"


# ----------------------------------------------------------------------------
# contracts on the pure helpers
# ----------------------------------------------------------------------------
class ContractBroken(Exception):
    pass


COUNTS: Dict[str, int] = {}


def _c(name: str) -> None:
    COUNTS[name] = COUNTS.get(name, 0) + 1


def install_contracts(bp: Any) -> None:
    import icontract

    def mask_ok(k, c, result):
        _c("get_mask")
        return result == (((1 << c) - 1) << k)

    def nbits_ok(i, j, n, result):
        _c("get_nbits_to_copy")
        return result == min(n - j, 8 - j % 8, 8 - i % 8) and 1 <= result <= 8

    def shift_ok(n, k, result):
        _c("smart_shift")
        return result == (n >> k if k >= 0 else n << -k)

    def mk_int(bits):
        def int_ok(i, result):
            _c(f"int{bits}")
            if not (0 <= i < (1 << bits)):
                return True  # outside the documented domain: nothing promised
            return -(1 << (bits - 1)) <= result < (1 << (bits - 1)) and (result - i) % (1 << bits) == 0
        return int_ok

    def attach(name, cond, err):
        # a helper that was renamed or removed by a refactoring is simply not watched (counted as 0 evaluations)
        if hasattr(bp, name):
            setattr(bp, name, icontract.ensure(cond, error=err)(getattr(bp, name)))

    attach("get_mask", mask_ok, lambda k, c, result: ContractBroken(f"get_mask({k},{c})={result}"))
    attach("get_nbits_to_copy", nbits_ok, lambda i, j, n, result: ContractBroken(f"get_nbits_to_copy({i},{j},{n})={result}"))
    attach("smart_shift", shift_ok, lambda n, k, result: ContractBroken(f"smart_shift({n},{k})={result}"))
    for bits in (8, 16, 32, 64):
        attach(f"int{bits}", mk_int(bits), (lambda bits: lambda i, result: ContractBroken(f"int{bits}({i})={result}"))(bits))
