"""Schema printer: model -> bitproto source text.

While printing it simulates the documented scoping rule so that every Ref is
written as a path that denotes its target, and it records the line/column of
every name token (used by C20).  Nothing from the repository is imported.
"""
from __future__ import annotations

import random
from typing import Any, Dict, List, Optional, Tuple

from .model import (
    Alias,
    Arr,
    Base,
    Const,
    Enum,
    Field,
    File,
    Import,
    Message,
    Option,
    Ref,
    enclosing_messages,
    file_of,
    qualified_path,
)


class Unresolvable(Exception):
    """A Ref cannot be written so that it denotes its target (shadowed / not yet declared)."""


# ----------------------------------------------------------------------------
# scoping rule (the oracle for C11 as well)
# ----------------------------------------------------------------------------
class ScopeTable:
    """Names declared so far in one scope."""

    def __init__(self, owner: Any):
        self.owner = owner
        self.names: Dict[str, Any] = {}

    def declare(self, name: str, d: Any) -> None:
        self.names.setdefault(name, d)


def members_of(d: Any) -> Dict[str, Any]:
    """Complete member table of a finished scope definition."""
    out: Dict[str, Any] = {}
    if isinstance(d, File):
        for it in d.items:
            if isinstance(it, Import):
                out.setdefault(it.bound_name, it.file)
            elif isinstance(it, (Const, Alias, Enum, Message)):
                out.setdefault(it.name, it)
            elif isinstance(it, Option):
                out.setdefault(it.name, it)
    elif isinstance(d, Message):
        for it in d.items:
            if isinstance(it, (Enum, Message, Field, Option)):
                out.setdefault(it.name, it)
    elif isinstance(d, Enum):
        for n, v in d.members:
            out.setdefault(n, ("enumfield", d, n, v))
    return out


def walk_members(d: Any, names: List[str]) -> Any:
    for n in names:
        if not isinstance(d, (File, Message, Enum)):
            return None
        d = members_of(d).get(n)
        if d is None:
            return None
    return d


def resolve(chain: List[ScopeTable], dotted: str, strict: bool = True) -> Any:
    """Innermost enclosing scope that declares the (first) name wins; dotted names then
    select members.  strict=True stops at that scope even if the rest of the path is
    missing there; strict=False keeps searching outward (the statement does not say)."""
    names = dotted.split(".")
    for table in reversed(chain):
        d = table.names.get(names[0])
        if d is None:
            continue
        r = walk_members(d, names[1:])
        if r is not None or strict:
            return r
    return None


# ----------------------------------------------------------------------------
# literals
# ----------------------------------------------------------------------------
ESCAPES = {"\t": "\\t", "\r": "\\r", "\n": "\\n", "\\": "\\\\", "'": "\\'", '"': '\\"'}


def string_literal(s: str, rng: Optional[random.Random] = None) -> str:
    out = []
    for ch in s:
        if ch in ('"', "\\", "\n", "\r"):
            # a raw carriage return in a text file is a line terminator (universal newlines), so it is always escaped
            out.append(ESCAPES[ch])
        elif ch in ESCAPES and (rng is None or rng.random() < 0.7):
            out.append(ESCAPES[ch])
        else:
            out.append(ch)
    return '"' + "".join(out) + '"'


def value_literal(v: Any, rng: Optional[random.Random] = None) -> str:
    if v is True:
        return rng.choice(["true", "yes"]) if rng else "true"
    if v is False:
        return rng.choice(["false", "no"]) if rng else "false"
    if isinstance(v, int):
        if rng is not None and rng.random() < 0.2:
            return hex(v) if rng.random() < 0.5 else "0x" + format(v, "X")
        return str(v)
    if isinstance(v, str):
        return string_literal(v, rng)
    raise TypeError(v)


# ----------------------------------------------------------------------------
# printer
# ----------------------------------------------------------------------------
class Printer:
    def __init__(
        self,
        f: File,
        rng: Optional[random.Random] = None,
        semi: float = 0.0,
        comments: float = 0.0,
        blanks: float = 0.0,
        path_style: str = "short",  # 'short' | 'long' | 'random'
        indent: int = 4,
        first_line_proto: bool = False,
        typedef: float = 0.12,  # probability that an alias is written in the deprecated `typedef T Name` spelling (only with an rng)
        abs_root: Optional[str] = None,  # directory the schema is written to: files with abs_imports write absolute import paths
    ):
        self.abs_root = abs_root
        self.typedef = typedef
        self.f = f
        self.rng = rng
        self.semi = semi
        self.comments = comments
        self.blanks = blanks
        self.path_style = path_style
        self.indent = indent
        self.first_line_proto = first_line_proto
        self.lines: List[str] = []
        self.pos: Dict[int, Tuple[int, int]] = {}  # id(def) -> (line, col) of its name token, 1-based
        self.refs: List[Tuple[int, int, str, Any]] = []  # (line, col, text, target)
        self.close_line: Dict[int, int] = {}  # id(message) -> line of its closing brace
        self.chain: List[ScopeTable] = []
        self._last_path: Dict[int, str] = {}

    # -- low level ---------------------------------------------------------
    def _r(self) -> float:
        return self.rng.random() if self.rng else 1.0

    def _semi(self) -> str:
        return ";" if self.rng and self.rng.random() < self.semi else ""

    def _noise(self, depth: int) -> None:
        if not self.rng:
            return
        if self.rng.random() < self.blanks:
            self.lines.append("")
        if self.rng.random() < self.comments:
            # a comment directly above a definition becomes its doc comment; follow it by a
            # blank line half of the time so both shapes occur.
            self.lines.append(" " * (self.indent * depth) + "// " + self.rng.choice(
                ["note", "TODO: revisit", "x = 1 // nested", "message Fake { }", "uint8 a = 1", "'quote' \"dq\"", "path C:\\", "\"\"\" doc \\N{x}"]))
            if self.rng.random() < 0.5:
                self.lines.append("")

    def _line(self, depth: int, text: str) -> int:
        self.lines.append(" " * (self.indent * depth) + text)
        return len(self.lines)

    def _mark(self, d: Any, lineno: int, name: str, start: int = 0) -> None:
        col = self.lines[lineno - 1].index(name, start) + 1
        self.pos[id(d)] = (lineno, col)

    # -- references --------------------------------------------------------
    def candidates(self, target: Any) -> List[str]:
        tf = file_of(target)
        qp = qualified_path(target)
        out: List[str] = []
        if tf is self.f:
            for k in range(len(qp)):
                out.append(".".join(qp[k:]))
            out.reverse()  # shortest first
        else:
            for table in self.chain[:1]:
                for n, d in table.names.items():
                    if d is tf:
                        out.append(".".join([n] + qp))
            if not out:
                # reachable only through the imports of an imported file: `b.c.M`
                def through(g: File, prefix: List[str], depth: int) -> None:
                    for imp in g.imports:
                        if imp.file is tf:
                            out.append(".".join(prefix + [imp.bound_name] + qp))
                        elif depth < 3:
                            through(imp.file, prefix + [imp.bound_name], depth + 1)

                for table in self.chain[:1]:
                    for n, d in table.names.items():
                        if isinstance(d, File):
                            through(d, [n], 1)
        return out

    def path_for(self, target: Any, again: bool = False) -> str:
        """Text that denotes `target` from the current position.  again=True: the text chosen by the previous call for the same
        target (the position bookkeeping asks a second time; with path_style='random' a fresh draw could differ)."""
        if again and id(target) in self._last_path:
            return self._last_path[id(target)]
        ok = []
        for c in self.candidates(target):
            if resolve(self.chain, c, True) is target and resolve(self.chain, c, False) is target:
                ok.append(c)
        if not ok:
            raise Unresolvable(f"{qualified_path(target)} from {self.f.proto_name}")
        if self.path_style == "long":
            r = ok[-1]
        elif self.path_style == "random" and self.rng:
            r = self.rng.choice(ok)
        else:
            r = ok[0]
        self._last_path[id(target)] = r
        return r

    def type_text(self, t: Any) -> str:
        if isinstance(t, Base):
            return t.text()
        if isinstance(t, Ref):
            return t.forced_path if t.forced_path is not None else self.path_for(t.target)
        if isinstance(t, Arr):
            if t.cap_text is not None:
                cap = t.cap_text
            elif t.cap_const is not None:
                cap = self.path_for(t.cap_const)
            else:
                cap = str(t.cap)
            return f"{self.type_text(t.elem)}[{cap}]" + ("'" if t.ext else "")
        raise TypeError(t)

    def _note_refs(self, lineno: int, t: Any) -> None:
        line = self.lines[lineno - 1]
        if isinstance(t, Arr):
            self._note_refs(lineno, t.elem)
            if t.cap_const is not None and t.cap_text is None:
                txt = self.path_for(t.cap_const, again=True)
                k = line.index("[") + 1
                self.refs.append((lineno, line.index(txt, k) + 1, txt, t.cap_const))
        elif isinstance(t, Ref) and t.forced_path is None:
            txt = self.path_for(t.target, again=True)
            self.refs.append((lineno, len(line) - len(line.lstrip()) + 1 + (len("type ") if False else 0), txt, t.target))

    # -- definitions -------------------------------------------------------
    def emit_option(self, o: Option, depth: int) -> None:
        if isinstance(o.value, Const):
            v = self.path_for(o.value)
        else:
            v = value_literal(o.value, None)
        ln = self._line(depth, f"option {o.name} = {v}{self._semi()}")
        self._mark(o, ln, o.name)
        if isinstance(o.value, Const):
            line = self.lines[ln - 1]
            self.refs.append((ln, line.index(v, line.index("=")) + 1, v, o.value))
        self.chain[-1].declare(o.name, o)

    def emit_const(self, c: Const, depth: int) -> None:
        self._noise(depth)
        if c.comment:
            self._line(depth, "// " + c.comment)
        text = c.expr if c.expr is not None else value_literal(c.value, self.rng)
        ln = self._line(depth, f"const {c.name} = {text}{self._semi()}")
        self._mark(c, ln, c.name, self.indent * depth + 6)
        self.chain[-1].declare(c.name, c)

    def emit_alias(self, a: Alias, depth: int) -> None:
        self._noise(depth)
        if a.comment:
            self._line(depth, "// " + a.comment)
        tt = self.type_text(a.type)
        as_typedef = a.typedef_syntax or (self.rng is not None and self.typedef > 0 and self.rng.random() < self.typedef)
        if as_typedef:
            ln = self._line(depth, f"typedef {tt} {a.name}{self._semi()}")
            self._mark(a, ln, a.name, self.indent * depth + 8 + len(tt))
        else:
            ln = self._line(depth, f"type {a.name} = {tt}{self._semi()}")
            self._mark(a, ln, a.name, self.indent * depth + 5)
        # references inside the aliased type
        line = self.lines[ln - 1]
        t = a.type
        tstart = line.index(tt, (self.indent * depth + 8) if as_typedef else line.index("=")) + 1
        el = t.elem if isinstance(t, Arr) else t
        if isinstance(el, Ref):
            self.refs.append((ln, tstart, el.forced_path if el.forced_path is not None else self.path_for(el.target, again=True), el.target))
        if isinstance(t, Arr) and t.cap_const is not None and t.cap_text is None:
            txt = self.path_for(t.cap_const, again=True)
            self.refs.append((ln, line.index(txt, line.index("[", tstart)) + 1, txt, t.cap_const))
        self.chain[-1].declare(a.name, a)

    def emit_enum(self, e: Enum, depth: int) -> None:
        self._noise(depth)
        if e.comment:
            self._line(depth, "// " + e.comment)
        ln = self._line(depth, f"enum {e.name} : {getattr(e, 'type_text', None) or 'uint%d' % e.width} {{")
        self._mark(e, ln, e.name, self.indent * depth + 5)
        for n, v in e.members:
            lit = hex(v) if e.hex_members else str(v)
            l2 = self._line(depth + 1, f"{n} = {lit}{self._semi()}")
            self.pos[("ef", id(e), n)] = (l2, self.indent * (depth + 1) + 1)
            self.pos[("ef#", id(e), len([1 for k in self.pos if isinstance(k, tuple) and k[0] == "ef#" and k[1] == id(e)]))] = (l2, self.indent * (depth + 1) + 1)
        for raw in getattr(e, "raw_items", []):
            self.pos[id(raw)] = (self._line(depth + 1, raw.text), self.indent * (depth + 1) + 1)
        self.close_line[id(e)] = len(self.lines) + 1
        self._line(depth, "}")
        self.chain[-1].declare(e.name, e)

    def emit_field(self, fl: Field, depth: int) -> None:
        if fl.comment:
            self._line(depth, "// " + fl.comment)
        tt = self.type_text(fl.type)
        ln = self._line(depth, f"{tt} {fl.name} = {fl.number}{self._semi()}")
        self.pos[id(fl)] = (ln, self.indent * depth + len(tt) + 2)
        # reference positions: the type text starts the line
        t = fl.type
        base_col = self.indent * depth + 1
        el = t.elem if isinstance(t, Arr) else t
        if isinstance(el, Ref):
            # a forced spelling (catalogue entries that write a particular path) is a reference like any other
            self.refs.append((ln, base_col, el.forced_path if el.forced_path is not None else self.path_for(el.target, again=True), el.target))
        if isinstance(t, Arr) and t.cap_const is not None and t.cap_text is None:
            txt = self.path_for(t.cap_const, again=True)
            line = self.lines[ln - 1]
            self.refs.append((ln, line.index(txt, line.index("[")) + 1, txt, t.cap_const))
        self.chain[-1].declare(fl.name, fl)

    def emit_message(self, m: Message, depth: int) -> None:
        self._noise(depth)
        if m.comment:
            self._line(depth, "// " + m.comment)
        ln = self._line(depth, f"message {m.name}" + ("'" if m.ext else "") + " {")
        self._mark(m, ln, m.name, self.indent * depth + 8)
        self.chain.append(ScopeTable(m))
        for it in m.items:
            if isinstance(it, Field):
                self.emit_field(it, depth + 1)
            elif isinstance(it, Enum):
                self.emit_enum(it, depth + 1)
            elif isinstance(it, Message):
                self.emit_message(it, depth + 1)
            elif isinstance(it, Option):
                self.emit_option(it, depth + 1)
            elif isinstance(it, (Alias,)):
                self.emit_alias(it, depth + 1)  # invalid on purpose
            elif isinstance(it, Const):
                self.emit_const(it, depth + 1)  # invalid on purpose
            elif isinstance(it, RawLine):
                self.pos[id(it)] = (self._line(depth + 1, it.text), self.indent * (depth + 1) + 1)
            else:
                raise TypeError(it)
        self.close_line[id(m)] = len(self.lines) + 1
        self.chain.pop()
        self._line(depth, "}")
        self.chain[-1].declare(m.name, m)

    def emit_import(self, imp: Import) -> None:
        path = imp.path_text
        if path is None:
            import posixpath
            path = posixpath.relpath(imp.file.relpath, start=self.f.subdir or ".")
            if self.abs_root and self.f.abs_imports:
                path = posixpath.join(self.abs_root, imp.file.relpath)
        if imp.as_name:
            ln = self._line(0, f'import {imp.as_name} "{path}"{self._semi()}')
        else:
            ln = self._line(0, f'import "{path}"{self._semi()}')
        self.pos[id(imp)] = (ln, 1)
        self.chain[-1].declare(imp.bound_name, imp.file)

    def render(self) -> str:
        f = self.f
        self.chain = [ScopeTable(f)]
        if f.comment and not self.first_line_proto:
            self._line(0, "// " + f.comment)
        ln = self._line(0, f"proto {f.proto_name}{self._semi()}")
        self.pos[id(f)] = (ln, 7)
        for it in f.items:
            if isinstance(it, Import):
                self.emit_import(it)
            elif isinstance(it, Option):
                self.emit_option(it, 0)
            elif isinstance(it, Const):
                self.emit_const(it, 0)
            elif isinstance(it, Alias):
                self.emit_alias(it, 0)
            elif isinstance(it, Enum):
                self.emit_enum(it, 0)
            elif isinstance(it, Message):
                self.emit_message(it, 0)
            elif isinstance(it, RawLine):
                self.pos[id(it)] = (self._line(0, it.text), 1)
            else:
                raise TypeError(it)
        return "\n".join(self.lines) + "\n"


class RawLine:
    """Verbatim source line (used by the invalid-schema generators)."""

    def __init__(self, text: str):
        self.text = text
        self.parent = None
        self.name = "\0raw"


def emit_file(f: File, **kw: Any) -> str:
    return Printer(f, **kw).render()


def compact_text(text: str, rng: random.Random) -> str:
    """The same token sequence on fewer lines: line breaks are optional in the language (statements may be separated by `;` or by
    nothing).  Lines that carry a `//` (comments run to the end of the line; also strings that contain the two characters) keep
    their line break.  Which definition a comment documents may change; no check compares comment text with the model."""
    out: List[str] = []
    cur = None
    for line in text.split("\n"):
        s = line.strip()
        if cur is None:
            cur = line
            continue
        if s and "//" not in cur and cur.strip() and rng.random() < 0.7:
            head = cur.rstrip()
            if head.endswith(("{", "}", ";")) or s.startswith("}"):
                sep = " " if not s.startswith("}") or head.endswith(("{", "}", ";")) else rng.choice([" ", "; "])
            else:
                sep = rng.choice(["; ", "; ", " ", "  "])
            cur = head + sep + s
        else:
            out.append(cur)
            cur = line
    if cur is not None:
        out.append(cur)
    return "\n".join(out)


def write_schema(root: File, directory: str, rng: Optional[random.Random] = None, compact: float = 0.0, **kw: Any) -> Dict[str, str]:
    """Write root and all files it imports into `directory`; returns {basename: path}.
    compact: probability that a file is written in the compact layout (several statements per line; not for checks that use the
    printer's line/column bookkeeping)."""
    import os

    paths: Dict[str, str] = {}
    for g in root.all_files():
        text = Printer(g, rng=rng, abs_root=os.path.abspath(directory), **kw).render()
        if rng is not None and compact and rng.random() < compact:
            text = compact_text(text, rng)
        p = os.path.join(directory, g.relpath)
        os.makedirs(os.path.dirname(p), exist_ok=True)
        with open(p, "w") as fh:
            fh.write(text)
        paths[g.basename] = p
    return paths
