"""Catalogue of single constraint violations and of the valid boundary twins (C08, C20).

Each entry injects ONE construct into a valid generated schema at a random scope
(file scope or a message at any depth, in the main file or an imported one) and
says whether the result must be accepted, and if not, which file and lines an
acceptable diagnostic may cite.  Only constraints listed in the statement of C08.
"""
from __future__ import annotations

import random
from typing import Any, Callable, Dict, List, Optional, Set, Tuple

from . import ref
from .emit import RawLine
from .model import Alias, Arr, Base, Const, Enum, Field, File, Import, Message, Option, Ref, iter_defs, messages_of


class Injection:
    def __init__(self, kind: str, accept: bool, file: File, items: List[Any], span: Optional[Any] = None, note: str = "",
                 files_ok: Optional[List[File]] = None, extra_files: Optional[List[File]] = None):
        self.kind = kind
        self.accept = accept
        self.file = file  # file holding the offending construct
        self.items = items  # model items whose printed line an acceptable diagnostic may cite
        self.span = span  # message/enum: any line from its header to its closing brace is acceptable too
        self.note = note
        self.files_ok = files_ok or [file]
        self.extra_files = extra_files or []


_counter = [0]


def fresh(prefix: str = "Zulu") -> str:
    _counter[0] += 1
    n = _counter[0]
    letters = ""
    while True:
        letters = chr(ord("a") + n % 26) + letters
        n //= 26
        if not n:
            break
    return prefix + letters


def scopes(root: File, rng: random.Random) -> Tuple[File, Any]:
    """A random scope: file scope or a message at any depth, of the main or an imported file."""
    f = rng.choice(root.all_files())
    cands: List[Any] = [f] + messages_of(f)
    return f, rng.choice(cands)


def insert(scope: Any, item: Any, rng: random.Random, after_imports: bool = True) -> None:
    item.parent = scope
    lo = 0
    if isinstance(scope, File):
        lo = max([i + 1 for i, it in enumerate(scope.items) if isinstance(it, (Import, Option))] or [0])
    scope.items.insert(rng.randint(lo, len(scope.items)), item)


def new_message(root: File, rng: random.Random, ext: bool = False) -> Tuple[File, Message]:
    f, scope = scopes(root, rng)
    m = Message(fresh("Zulu"), ext=ext)
    insert(scope, m, rng)
    return f, m


# ----------------------------------------------------------------------------
# entries.  name -> function(root, rng) -> Injection | None
# ----------------------------------------------------------------------------
def _width(kind: str, w: int, accept: bool, where: str):
    def fn(root: File, rng: random.Random) -> Optional[Injection]:
        t = Base(kind, w)
        if where == "enum":
            f, scope = scopes(root, rng)
            e = Enum(fresh("Yank"), max(1, min(w, 64)), [(fresh("YANK_A").upper(), 0)])
            e.type_text = f"{kind}{w}"
            insert(scope, e, rng)
            return Injection(f"width:{kind}{w}:enum", accept, f, [e], span=e)
        f, m = new_message(root, rng)
        if where == "field":
            fl = m.add(Field("a", t, 1))
        elif where == "array":
            fl = m.add(Field("a", Arr(t, 2), 1))
        else:  # alias (file scope only)
            f = rng.choice(root.all_files())
            al = Alias(fresh("Xray"), t)
            insert(f, al, rng)
            return Injection(f"width:{kind}{w}:alias", accept, f, [al])
        return Injection(f"width:{kind}{w}:{where}", accept, f, [fl])
    return fn


def _cap(cap: int, accept: bool, via_const: bool):
    def fn(root: File, rng: random.Random) -> Optional[Injection]:
        f, m = new_message(root, rng)
        a = Arr(Base("bool"), cap)
        items: List[Any] = []
        if via_const:
            c = Const(fresh("WHISKEY").upper(), cap)
            c.parent = f
            # constant at file scope, before the top-level definition that contains m
            top = m
            while not isinstance(top.parent, File):
                top = top.parent
            f.items.insert(f.items.index(top), c)
            a.cap_const = c
        fl = m.add(Field("a", a, 1))
        return Injection(f"capacity:{cap}{':const' if via_const else ''}", accept, f, [fl, m], span=m)
    return fn


def _field_number(n: int, accept: bool):
    def fn(root, rng):
        f, m = new_message(root, rng)
        m.add(Field("a", Base("uint", 3), 7))
        fl = m.add(Field("b", Base("bool"), n))
        return Injection(f"field-number:{n}", accept, f, [fl])
    return fn


def dup_field_number(root, rng):
    f, m = new_message(root, rng)
    a = m.add(Field("a", Base("uint", 3), rng.randint(1, 255)))
    m.add(Field("c", Base("uint", 3), (a.number % 255) + 1))
    b = m.add(Field("b", Base("bool"), a.number))
    return Injection("duplicate-field-number", False, f, [b, a])


def dup_field_name(root, rng):
    f, m = new_message(root, rng)
    a = m.add(Field("same", Base("uint", 3), 1))
    b = m.add(Field("same", Base("bool"), 2))
    return Injection("duplicate-field-name", False, f, [b, a])


def dup_type_name(root, rng):
    f, scope = scopes(root, rng)
    name = fresh("Victor")
    kinds = rng.sample(["message", "enum", "alias"], 2) if isinstance(scope, File) else rng.sample(["message", "enum", "field"], 2)
    made = []
    for kd in kinds:
        if kd == "message":
            d = Message(name)
            d.add(Field("a", Base("bool"), 1))
        elif kd == "enum":
            d = Enum(name, 3, [(fresh("VICTOR_A").upper(), 0)])
        elif kd == "alias":
            d = Alias(name, Base("uint", 9))
        else:
            used = {x.number for x in scope.fields}
            d = Field(name, Base("bool"), next(n for n in range(1, 256) if n not in used))
        made.append(d)
    i0 = None
    for d in made:
        d.parent = scope
        lo = max([i + 1 for i, it in enumerate(scope.items) if isinstance(it, (Import, Option))] or [0]) if isinstance(scope, File) else 0
        i0 = rng.randint(lo if i0 is None else i0 + 1, len(scope.items))
        scope.items.insert(i0, d)
    return Injection("duplicate-name:" + "+".join(kinds), False, f, made, span=None)


def dup_const_name(root, rng):
    f = rng.choice(root.all_files())
    name = fresh("UNIFORM").upper()
    a, b = Const(name, 1), Const(name, 2)
    insert(f, a, rng)
    b.parent = f
    f.items.insert(rng.randint(f.items.index(a) + 1, len(f.items)), b)
    return Injection("duplicate-constant-name", False, f, [b, a])


def dup_enum_member_name(root, rng):
    f, scope = scopes(root, rng)
    n = fresh("TANGO_M").upper()
    e = Enum(fresh("Tango"), 4, [(n, 0), (fresh("TANGO_X").upper(), 1), (n, 2)])
    insert(scope, e, rng)
    return Injection("duplicate-enum-member-name", False, f, [("ef#", e, 2), ("ef#", e, 0)])


def dup_enum_value(root, rng):
    f, scope = scopes(root, rng)
    e = Enum(fresh("Sierra"), 4, [(fresh("SIERRA_A").upper(), 0), (fresh("SIERRA_B").upper(), 3), (fresh("SIERRA_C").upper(), 3)])
    insert(scope, e, rng)
    return Injection("duplicate-enum-value", False, f, [("ef#", e, 2), ("ef#", e, 1)])


def _dup_in_sequence(what: str):
    """A duplicate in a longer sequence of values in every order relation to its neighbours: ascending, descending and shuffled
    sequences, the duplicate above or below the value declared right before it, first/middle/last position, decimal or hex spelling.
    what: 'enum-value' | 'field-number' | 'field-name' | 'enum-member-name'."""
    def fn(root, rng):
        n = rng.randint(3, 9)
        order = rng.choice(["ascending", "descending", "shuffled", "shuffled"])
        if what in ("enum-value", "enum-member-name"):
            f, scope = scopes(root, rng)
            w = rng.choice([3, 4, 8, 16, 33])
            vals = rng.sample(range(0, min(1 << w, 4000)), min(n, (1 << w) - 1)) if w > 3 else rng.sample(range(8), min(n, 7))
        else:
            f, scope = new_message(root, rng)
            vals = rng.sample(range(1, 256), n)
        if order == "ascending":
            vals.sort()
        elif order == "descending":
            vals.sort(reverse=True)
        j = rng.randrange(len(vals))                 # the original
        i = rng.randint(j + 1, len(vals))            # where the duplicate goes (after the original)
        if what == "enum-value":
            names = [fresh("SIERRA_V").upper() for _ in range(len(vals) + 1)]
            seq = list(vals)
            seq.insert(i, vals[j])
            e = Enum(fresh("Sierra"), w, list(zip(names, seq)))
            e.hex_members = rng.random() < 0.3
            insert(scope, e, rng)
            return Injection(f"duplicate-enum-value:{order}", False, f, [("ef#", e, i), ("ef#", e, j)])
        if what == "enum-member-name":
            names = [fresh("SIERRA_N").upper() for _ in range(len(vals))]
            names.insert(i, names[j])
            extra = next(v for v in range(1 << w) if v not in vals)
            seq = list(vals)
            seq.insert(i, extra)
            e = Enum(fresh("Sierra"), w, list(zip(names, seq)))
            insert(scope, e, rng)
            return Injection(f"duplicate-enum-member-name:{order}", False, f, [("ef#", e, i), ("ef#", e, j)])
        m = scope
        fields = [Field(f"f_{k}_x", Base("uint", rng.randint(1, 9)), v) for k, v in enumerate(vals)]
        if what == "field-number":
            fields.insert(i, Field("dup_number", Base("bool"), vals[j]))
        else:
            extra = next(v for v in range(1, 256) if v not in vals)
            fields.insert(i, Field(fields[j].name, Base("bool"), extra))
        for fl in fields:
            m.add(fl)
        return Injection(f"duplicate-{what}:{order}", False, f, [fields[i], fields[j]])
    return fn


def _enum_value(w: int, over: bool):
    def fn(root, rng):
        f, scope = scopes(root, rng)
        v = (1 << w) if over else (1 << w) - 1
        e = Enum(fresh("Romeo"), w, [(fresh("ROMEO_A").upper(), 0), (fresh("ROMEO_B").upper(), v)])
        e.hex_members = rng.random() < 0.5
        insert(scope, e, rng)
        return Injection(f"enum-value:{'2^w' if over else '2^w-1'}:w{w}", not over, f, [("ef#", e, 1)])
    return fn


def _message_size(total: int, ext: bool):
    """Message of exactly `total` bits (prefix included when ext)."""
    def fn(root, rng):
        f, m = new_message(root, rng, ext=ext)
        data = total - (16 if ext else 0)
        shape = rng.choice(["one-array", "two-fields", "nested"])
        if shape == "one-array":
            m.add(Field("a", Arr(Base("bool"), data), 1))
        elif shape == "two-fields":
            k = rng.randint(1, 60)
            m.add(Field("a", Arr(Base("bool"), data - k), 1))
            m.add(Field("b", Base("uint", k), 2))
        else:
            inner = m.add(Message(fresh("Quebec")))
            inner.add(Field("x", Arr(Base("byte"), (data - 7) // 8), 1))
            m.add(Field("a", Ref(inner), 1))
            m.add(Field("b", Arr(Base("bool"), data - ((data - 7) // 8) * 8), 2))
        assert ref.nbits(m) == total, (ref.nbits(m), total)
        return Injection(f"message-size:{total}{':extensible' if ext else ''}:{shape}", total <= 65535, f, [m], span=m)
    return fn


def _max_bytes(delta: int):
    def fn(root, rng):
        f, m = new_message(root, rng, ext=rng.random() < 0.3)
        m.add(Field("a", Arr(Base("uint", rng.randint(1, 13)), rng.randint(1, 9)), 1))
        m.add(Field("b", Base("bool"), 2))
        nby = ref.nbytes(m)
        if nby + delta <= 0:
            return None
        o = Option("max_bytes", nby + delta)
        o.parent = m
        m.items.insert(rng.randint(0, len(m.items)), o)
        return Injection(f"max_bytes:{'nbytes' if delta == 0 else 'nbytes-1'}", delta >= 0, f, [m, o], span=m)
    return fn


def _packing(v: int):
    def fn(root, rng):
        f = rng.choice(root.all_files())
        if any(isinstance(i, Option) and i.name == "c.struct_packing_alignment" for i in f.items):
            return None
        o = Option("c.struct_packing_alignment", v)
        o.parent = f
        f.items.insert(0, o)
        return Injection(f"packing-alignment:{v}", v <= 8, f, [o])
    return fn


def alias_of_named(root, rng):
    f = rng.choice(root.all_files())
    named = [d for d in f.items if isinstance(d, (Message, Enum))]
    if not named:
        return None
    t = rng.choice(named)
    al = Alias(fresh("Papa"), Ref(t))
    al.parent = f
    f.items.insert(rng.randint(f.items.index(t) + 1, len(f.items)), al)
    return Injection(f"alias-of-{type(t).__name__.lower()}", False, f, [al])


def alias_of_alias(root, rng):
    """An alias is itself a named type: `type B = A` (A an alias, of a base type or of an array; same file or imported) is invalid."""
    f = rng.choice(root.all_files())
    cands = [d for d in f.items if isinstance(d, Alias)]
    for imp in f.imports:
        cands += [d for d in imp.file.items if isinstance(d, Alias)]
    if not cands or rng.random() < 0.3:
        a = Alias(fresh("Papa"), Base("uint", rng.choice([3, 8, 24])) if rng.random() < 0.5 else Arr(Base("byte"), 3))
        insert(f, a, rng)
        cands = [a]
    t = rng.choice(cands)
    al = Alias(fresh("Papa"), Ref(t))
    al.parent = f
    lo = f.items.index(t) + 1 if t in f.items else max([i + 1 for i, it in enumerate(f.items) if isinstance(it, Import)] or [0])
    f.items.insert(rng.randint(lo, len(f.items)), al)
    return Injection("alias-of-alias" + ("" if t in f.items else ":imported"), False, f, [al])


def alias_of_array_of_named(root, rng):
    f = rng.choice(root.all_files())
    named = [d for d in f.items if isinstance(d, (Message, Enum)) and ref.nbits(d) * 2 <= 60000 and not (isinstance(d, Enum) and not d.members)]
    if not named:
        return None
    t = rng.choice(named)
    al = Alias(fresh("Papa"), Arr(Ref(t), 2))
    al.parent = f
    f.items.insert(rng.randint(f.items.index(t) + 1, len(f.items)), al)
    return Injection("alias-of-array-of-named", True, f, [al])


def two_dim_array(root, rng):
    f, m = new_message(root, rng)
    raw = m.add(RawLine("byte[2][3] table = 1"))
    return Injection("two-dimensional-array", False, f, [raw])


def _cut_off_at_eof(what: str):
    """The file ends in the middle of a construct (in the main file or an imported one): the diagnostic has no token to stand on,
    it must still cite the file and one of the lines of the unfinished construct."""
    def fn(root, rng):
        f = rng.choice(root.all_files())
        n = fresh("Hotel")
        texts = {"message": [f"message {n} {{", "    bool a = 1"], "enum": [f"enum {n} : uint3 {{", f"    {n.upper()}_A = 0"],
                 "statement": [f"message {n} {{ bool a = 1 }}", f"const {n.upper()}_C ="], "header": [f"message {n}"]}[what]
        raws = []
        for t in texts:
            r = RawLine(t)
            r.parent = f
            f.items.append(r)
            raws.append(r)
        return Injection(f"cut-off-at-eof:{what}", False, f, raws)
    return fn


def _forbidden(scope_kind: str, what: str):
    texts = {
        "alias": lambda: f"type {fresh('Oscar')} = uint8",
        "const": lambda: f"const {fresh('NOVEMBER').upper()} = 1",
        "import": lambda: 'import "okimport.bitproto"',
        "proto": lambda: "proto again",
        "option": lambda: "option max_bytes = 9",
        "enum": lambda: f"enum {fresh('Mike')} : uint2 {{ }}",
        "message": lambda: f"message {fresh('Lima')} {{ }}",
        "field": lambda: "uint3 stray = 1",
    }

    def fn(root, rng):
        f, scope = scopes(root, rng)
        raw = RawLine(texts[what]())
        if scope_kind == "message":
            fm, m = new_message(root, rng)
            m.add(Field("a", Base("bool"), 1))
            raw.parent = m
            m.items.insert(rng.randint(0, 1), raw)
            return Injection(f"forbidden:{what}-in-message", False, fm, [raw], span=m)
        e = Enum(fresh("Kilo"), 3, [(fresh("KILO_A").upper(), 0)])
        e.raw_items = [raw]
        insert(scope, e, rng)
        return Injection(f"forbidden:{what}-in-enum", False, f, [raw], span=e)
    return fn


def _unknown_option(level: str, name: str):
    def fn(root, rng):
        if level == "file":
            f = rng.choice(root.all_files())
            o = Option(name, 1 if name != "c.name_prefixx" else "x")
            o.parent = f
            f.items.insert(0, o)
            return Injection(f"unknown-option:{name}@file", False, f, [o])
        f, m = new_message(root, rng)
        m.add(Field("a", Base("bool"), 1))
        o = Option(name, "Abc" if name == "c.name_prefix" else 2)
        o.parent = m
        m.items.insert(rng.randint(0, 1), o)
        return Injection(f"unknown-option:{name}@message", False, f, [o], span=m)
    return fn


def _option_type(name: str, value: Any, level: str):
    def fn(root, rng):
        if level == "file":
            f = rng.choice(root.all_files())
            if any(isinstance(i, Option) and i.name == name for i in f.items):
                return None
            o = Option(name, value)
            o.parent = f
            f.items.insert(0, o)
            return Injection(f"option-type:{name}={value!r}", False, f, [o])
        f, m = new_message(root, rng)
        m.add(Field("a", Base("bool"), 1))
        o = Option(name, value)
        o.parent = m
        m.items.insert(rng.randint(0, 1), o)
        return Injection(f"option-type:{name}={value!r}", False, f, [o], span=m)
    return fn


def use_before_declaration(root, rng):
    f = rng.choice(root.all_files())
    later = Message(fresh("Juliet"))
    later.add(Field("a", Base("bool"), 1))
    user = Message(fresh("India"))
    fl = user.add(Field("x", Ref(later, forced_path=later.name), 1))
    insert(f, user, rng)
    later.parent = f
    f.items.insert(rng.randint(f.items.index(user) + 1, len(f.items)), later)
    return Injection("use-before-declaration:type", False, f, [fl])


def const_before_declaration(root, rng):
    f = rng.choice(root.all_files())
    c = Const(fresh("HOTEL").upper(), 4)
    user = Message(fresh("Golf"))
    a = Arr(Base("byte"), 4)
    a.cap_text = c.name
    fl = user.add(Field("x", a, 1))
    insert(f, user, rng)
    c.parent = f
    f.items.insert(rng.randint(f.items.index(user) + 1, len(f.items)), c)
    return Injection("use-before-declaration:constant", False, f, [fl])


def self_reference(root, rng):
    f, m = new_message(root, rng)
    fl = m.add(Field("me", Ref(m, forced_path=m.name), 1))
    return Injection("use-before-declaration:self", False, f, [fl])


def const_as_type(root, rng):
    f = rng.choice(root.all_files())
    c = Const(fresh("FOXTROT").upper(), 4)
    insert(f, c, rng)
    user = Message(fresh("Echo"))
    fl = user.add(Field("x", Ref(c, forced_path=c.name), 1))
    user.parent = f
    f.items.insert(rng.randint(f.items.index(c) + 1, len(f.items)), user)
    return Injection("kind:constant-as-type", False, f, [fl])


def type_as_capacity(root, rng):
    f = rng.choice(root.all_files())
    t = Enum(fresh("Delt"), 3, [(fresh("DELT_A").upper(), 0)]) if rng.random() < 0.5 else Alias(fresh("Delt"), Base("uint", 5))
    insert(f, t, rng)
    user = Message(fresh("Charlie"))
    a = Arr(Base("byte"), 4)
    a.cap_text = t.name
    fl = user.add(Field("x", a, 1))
    user.parent = f
    f.items.insert(rng.randint(f.items.index(t) + 1, len(f.items)), user)
    return Injection("kind:type-as-capacity", False, f, [fl])


def _nonint_const(use: str, value: Any):
    def fn(root, rng):
        f = rng.choice(root.all_files())
        c = Const(fresh("BRAV").upper(), value)
        insert(f, c, rng)
        if use == "capacity":
            user = Message(fresh("Alfa"))
            a = Arr(Base("byte"), 4)
            a.cap_text = c.name
            it = user.add(Field("x", a, 1))
            user.parent = f
        else:
            user = it = Const(fresh("BRAVX").upper(), 0, expr=f"{c.name} + 1" if rng.random() < 0.5 else f"2 * {c.name}")
            user.parent = f
        f.items.insert(rng.randint(f.items.index(c) + 1, len(f.items)), user)
        return Injection(f"kind:{type(value).__name__}-constant-as-{use}", False, f, [it])
    return fn


def _import_cycle(n: int):
    def fn(root, rng):
        # root -> c1 -> ... -> c(n-1) -> root   (n == 1: root imports itself)
        files = [root]
        for k in range(n - 1):
            files.append(File(fresh("cyc").lower()))
        imps = []
        for k, g in enumerate(files):
            nxt = files[(k + 1) % n]
            imp = Import(nxt, None)
            imp.parent = g
            pos = max([i + 1 for i, it in enumerate(g.items) if isinstance(it, Import)] or [0])
            g.items.insert(pos, imp)
            imps.append(imp)
            if g is not root:
                mm = g.add(Message(fresh("Cy")))
                mm.add(Field("a", Base("bool"), 1))
        return Injection(f"import-cycle:{n}", False, root, imps, files_ok=files)
    return fn


def _import_cycle_spelled(n: int, style: str):
    """Cycles whose import paths are not the bare file name: `./x`, `sub/../x`, and a cycle that crosses a directory
    (`root: import "sub/c.bitproto"`, `sub/c: import "../root.bitproto"`) - a detection that compares joined path strings never
    sees the same string twice."""
    def fn(root, rng):
        if root.subdir:
            return None
        files = [root]
        for k in range(n - 1):
            g = File(fresh("cyc").lower())
            if style == "subdir" and k == 0:
                g.subdir = "sub"
            files.append(g)
        imps = []
        for k, g in enumerate(files):
            nxt = files[(k + 1) % n]
            imp = Import(nxt, None)
            if style == "dot" and not g.subdir and not nxt.subdir:
                imp.path_text = "./" + nxt.filename
            elif style == "updown" and not g.subdir and not nxt.subdir:
                imp.path_text = "sub/../" + nxt.filename if rng.random() < 0.7 else "./sub/.././" + nxt.filename
            imp.parent = g
            pos = max([i + 1 for i, it in enumerate(g.items) if isinstance(it, Import)] or [0])
            g.items.insert(pos, imp)
            imps.append(imp)
            if g is not root:
                mm = g.add(Message(fresh("Cy")))
                mm.add(Field("a", Base("bool"), 1))
        return Injection(f"import-cycle:{n}:{style}", False, root, imps, files_ok=files)
    return fn


def _dup_import(spelling: str):
    def fn(root, rng):
        lib = File(fresh("duplib").lower())
        mm = lib.add(Message(fresh("Du")))
        mm.add(Field("a", Base("bool"), 1))
        a = Import(lib, None)
        b = Import(lib, fresh("other").lower(), path_text=("./" + lib.filename) if spelling == "relative" else None)
        for imp in (a, b):
            imp.parent = root
        pos = max([i + 1 for i, it in enumerate(root.items) if isinstance(it, Import)] or [0])
        root.items.insert(pos, a)
        root.items.insert(pos + 1, b)
        return Injection(f"duplicate-import:{spelling}", False, root, [b, a])
    return fn


def same_import_twice_different_files_ok(root, rng):
    """Two files importing the same third file is NOT a duplicate import."""
    lib = File(fresh("shared").lower())
    mm = lib.add(Message(fresh("Sh")))
    mm.add(Field("a", Base("bool"), 1))
    mid = File(fresh("mid").lower())
    i1 = Import(lib, None)
    i1.parent = mid
    mid.items.append(i1)
    m2 = mid.add(Message(fresh("Mi")))
    m2.add(Field("a", Base("bool"), 1))
    for tgt in (lib, mid):
        imp = Import(tgt, fresh("ns").lower())
        imp.parent = root
        pos = max([i + 1 for i, it in enumerate(root.items) if isinstance(it, Import)] or [0])
        root.items.insert(pos, imp)
    return Injection("diamond-import", True, root, [])


def enum_not_uint(root, rng):
    f, scope = scopes(root, rng)
    e = Enum(fresh("Zed"), 8, [(fresh("ZED_A").upper(), 0)])
    e.type_text = rng.choice(["int8", "byte", "bool"])
    insert(scope, e, rng)
    return Injection(f"enum-type:{e.type_text}", False, f, [e], span=e)


CATALOGUE: Dict[str, Callable] = {}


def _out_of_scope(inner_kind: str, after_inner_use: bool, spelling: str, user_scope: str):
    """A type nested in message Outer, referenced from a place where the unqualified name is NOT visible.
    spelling: 'bare' (Inner: rejected), 'qualified' (Outer.Inner: accepted).
    after_inner_use: the same bare name was resolved successfully inside Outer first (a resolution memo must not outlive the scope).
    user_scope: 'file' (a later top-level message), 'sibling' (a message nested in another top-level message),
                'importer' (the importing file uses the bare name of a type nested in a message of the imported file)."""
    def fn(root, rng):
        f = rng.choice(root.all_files()) if user_scope != "importer" else None
        if user_scope == "importer":
            cands = [(g, imp) for g in root.all_files() for imp in g.imports]
            if not cands:
                return None
            user_file, imp = rng.choice(cands)
            f = imp.file
        else:
            user_file = f
        outer = Message(fresh("Kilo"))
        if inner_kind == "enum":
            inner = Enum(fresh("Lima"), 3, [(fresh("LIMA_A").upper(), 0), (fresh("LIMA_B").upper(), 5)])
        else:
            inner = Message(fresh("Lima"))
            inner.add(Field("flag", Base("bool"), 1))
        outer.add(inner)
        n = 1
        if after_inner_use:
            outer.add(Field("inner_use", Ref(inner, forced_path=inner.name), n))
            n += 1
            if rng.random() < 0.5:
                a = Arr(Ref(inner, forced_path=inner.name), 2)
                outer.add(Field("inner_arr", a, n))
                n += 1
        outer.add(Field("pad", Base("uint", 3), n))
        insert(f, outer, rng)
        user = Message(fresh("Mike"))
        path = inner.name if spelling == "bare" else f"{outer.name}.{inner.name}"
        if user_scope == "importer" and spelling == "qualified":
            path = f"{imp.bound_name}.{outer.name}.{inner.name}"
        fl = user.add(Field("x", Ref(inner, forced_path=path), 1))
        if user_scope == "sibling":
            host = Message(fresh("November"))
            host.add(user)
            host.add(Field("u", Ref(user, forced_path=user.name), 1))
            host.parent = user_file
            user_file.items.insert(rng.randint(user_file.items.index(outer) + 1, len(user_file.items)), host)
        elif user_scope == "importer":
            insert(user_file, user, rng)
        else:
            user.parent = user_file
            user_file.items.insert(rng.randint(user_file.items.index(outer) + 1, len(user_file.items)), user)
        ok = spelling == "qualified"
        return Injection(f"out-of-scope:{inner_kind}:{'after-inner-use' if after_inner_use else 'cold'}:{spelling}:{user_scope}", ok, user_file, [fl])
    return fn


def _reg(name: str, fn: Callable) -> None:
    CATALOGUE[name] = fn


for _kind in ("uint", "int"):
    for _w, _ok in ((0, False), (1, True), (64, True), (65, False), (100, False)):
        for _where in ("field", "array", "alias") + (("enum",) if _kind == "uint" else ()):
            _reg(f"width:{_kind}{_w}:{_where}", _width(_kind, _w, _ok, _where))
for _cap_, _ok in ((0, False), (1, True), (65535, True), (65536, False)):
    _reg(f"capacity:{_cap_}", _cap(_cap_, _ok, False))
    _reg(f"capacity:{_cap_}:const", _cap(_cap_, _ok, True))
for _n, _ok in ((0, False), (1, True), (255, True), (256, False)):
    _reg(f"field-number:{_n}", _field_number(_n, _ok))
_reg("duplicate-field-number", dup_field_number)
_reg("duplicate-field-name", dup_field_name)
_reg("duplicate-type-name", dup_type_name)
_reg("duplicate-constant-name", dup_const_name)
_reg("duplicate-enum-member-name", dup_enum_member_name)
_reg("duplicate-enum-value", dup_enum_value)
for _k in range(3):
    _reg(f"duplicate-enum-value:in-sequence:{_k}", _dup_in_sequence("enum-value"))
_reg("duplicate-enum-member-name:in-sequence", _dup_in_sequence("enum-member-name"))
for _k in range(2):
    _reg(f"duplicate-field-number:in-sequence:{_k}", _dup_in_sequence("field-number"))
_reg("duplicate-field-name:in-sequence", _dup_in_sequence("field-name"))
for _w in (1, 3, 8, 9, 32, 64):
    _reg(f"enum-value:over:w{_w}", _enum_value(_w, True))
    _reg(f"enum-value:max:w{_w}", _enum_value(_w, False))
for _tot in (65535, 65536):
    for _ext in (False, True):
        _reg(f"message-size:{_tot}:{'ext' if _ext else 'plain'}", _message_size(_tot, _ext))
_reg("message-size:65551:plain", _message_size(65551, False))
_reg("max_bytes:exact", _max_bytes(0))
_reg("max_bytes:one-short", _max_bytes(-1))
_reg("packing:8", _packing(8))
_reg("packing:9", _packing(9))
_reg("alias-of-named", alias_of_named)
_reg("alias-of-array-of-named", alias_of_array_of_named)
_reg("alias-of-alias", alias_of_alias)
_reg("alias-of-alias:2", alias_of_alias)
_reg("two-dimensional-array", two_dim_array)
for _w in ("message", "enum", "statement", "header"):
    _reg(f"cut-off-at-eof:{_w}", _cut_off_at_eof(_w))
for _what in ("alias", "const", "import", "proto"):
    _reg(f"forbidden:{_what}-in-message", _forbidden("message", _what))
for _what in ("alias", "const", "import", "proto", "option", "enum", "message", "field"):
    _reg(f"forbidden:{_what}-in-enum", _forbidden("enum", _what))
_reg("unknown-option:file", _unknown_option("file", "foo.bar"))
_reg("unknown-option:file2", _unknown_option("file", "max_bytes"))
_reg("unknown-option:message", _unknown_option("message", "c.name_prefix"))
_reg("unknown-option:message2", _unknown_option("message", "min_bytes"))
_reg("option-type:max_bytes-string", _option_type("max_bytes", "big", "message"))
_reg("option-type:max_bytes-bool", _option_type("max_bytes", True, "message"))
_reg("option-type:prefix-int", _option_type("c.name_prefix", 3, "file"))
_reg("option-type:packing-string", _option_type("c.struct_packing_alignment", "4", "file"))
_reg("option-type:module-bool", _option_type("py.module_name", False, "file"))
_reg("use-before-declaration:type", use_before_declaration)
_reg("use-before-declaration:constant", const_before_declaration)
_reg("use-before-declaration:self", self_reference)
for _ik in ("enum", "message"):
    for _after in (False, True):
        for _us in ("file", "sibling", "importer"):
            _reg(f"out-of-scope:{_ik}:{'after-inner-use' if _after else 'cold'}:bare:{_us}", _out_of_scope(_ik, _after, "bare", _us))
    _reg(f"out-of-scope:{_ik}:after-inner-use:qualified:file", _out_of_scope(_ik, True, "qualified", "file"))
    _reg(f"out-of-scope:{_ik}:after-inner-use:qualified:importer", _out_of_scope(_ik, True, "qualified", "importer"))
_reg("kind:constant-as-type", const_as_type)
_reg("kind:type-as-capacity", type_as_capacity)
_reg("kind:string-constant-as-capacity", _nonint_const("capacity", "four"))
_reg("kind:bool-constant-as-capacity", _nonint_const("capacity", True))
_reg("kind:string-constant-in-arithmetic", _nonint_const("arithmetic", "four"))
_reg("kind:bool-constant-in-arithmetic", _nonint_const("arithmetic", False))
for _n in (1, 2, 3):
    _reg(f"import-cycle:{_n}", _import_cycle(_n))
for _n in (1, 2, 3):
    for _style in ("dot", "updown") + (("subdir",) if _n > 1 else ()):
        _reg(f"import-cycle:{_n}:{_style}", _import_cycle_spelled(_n, _style))
_reg("duplicate-import:same", _dup_import("same"))
_reg("duplicate-import:relative", _dup_import("relative"))
_reg("diamond-import", same_import_twice_different_files_ok)
_reg("enum-type-not-uint", enum_not_uint)
