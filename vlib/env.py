"""Environment: which tree is under verification and how to import it."""
from __future__ import annotations

import os
import sys

VERIF = os.path.dirname(os.path.dirname(os.path.abspath(__file__)))
REPO = os.path.realpath(os.environ.get("VERIF_REPO", "/repo"))
PYTHON = "/venv/bin/python"
DEPS = os.path.join(VERIF, ".deps")
COMPILER_DIR = os.path.join(REPO, "compiler")
PYLIB_DIR = os.path.join(REPO, "lib", "py")
CLIB_DIR = os.path.join(REPO, "lib", "c")
GOLIB_DIR = os.path.join(REPO, "lib", "go")


def seed() -> int:
    try:
        return int(os.environ.get("VERIF_SEED", "1"))
    except ValueError:
        return 1


def pythonpath() -> str:
    return os.pathsep.join([VERIF, DEPS, COMPILER_DIR, PYLIB_DIR])


def child_env(**extra: str) -> dict:
    e = dict(os.environ)
    e["PYTHONPATH"] = pythonpath()
    e["PYTHONHASHSEED"] = e.get("PYTHONHASHSEED", "0")
    e["PYTHONDONTWRITEBYTECODE"] = "1"
    e["VERIF_REPO"] = REPO
    e.update(extra)
    return e


def ensure_paths() -> None:
    """Put the working tree first on sys.path and check that it is what gets imported."""
    for p in reversed([VERIF, DEPS, COMPILER_DIR, PYLIB_DIR]):
        if p in sys.path:
            sys.path.remove(p)
        sys.path.insert(0, p)


def assert_repo_imports() -> dict:
    ensure_paths()
    import bitproto
    import bitprotolib.bp as bp

    a, b = os.path.realpath(bitproto.__file__), os.path.realpath(bp.__file__)
    if not a.startswith(REPO + os.sep) or not b.startswith(REPO + os.sep):
        raise RuntimeError(f"repo modules not imported from {REPO}: {a} {b}")
    return {"bitproto": a, "bitprotolib.bp": b}


def scratch_root() -> str:
    """Scratch space outside /repo and /verif; removed by whoever creates sub-dirs."""
    d = os.environ.get("VERIF_SCRATCH") or "/tmp/verif-scratch"
    os.makedirs(d, exist_ok=True)
    return d
