"""Name pools and reserved words for the schema generators.

The pools follow the bitproto style guide (PascalCase types, snake_case fields,
UPPER_CASE constants / enum members) and stay clear of reserved words and
predeclared identifiers of C, C++, Go and Python, and of the names the
generated code itself declares.
"""
from __future__ import annotations

import re
from typing import Iterable, List

C_KEYWORDS = set("""auto break case char const continue default do double else enum extern float for goto if
inline int long register restrict return short signed sizeof static struct switch typedef union unsigned void
volatile while _Bool _Complex _Imaginary bool true false NULL""".split())
CPP_KEYWORDS = set("""alignas alignof and and_eq asm bitand bitor catch class compl concept constexpr const_cast
decltype delete dynamic_cast explicit export friend mutable namespace new noexcept not not_eq nullptr operator or
or_eq private protected public reinterpret_cast static_assert static_cast template this thread_local throw try
typeid typename using virtual wchar_t xor xor_eq char16_t char32_t""".split())
GO_KEYWORDS = set("""break default func interface select case defer go map struct chan else goto package switch
const fallthrough if range type continue for import return var bool byte complex64 complex128 error float32
float64 int int8 int16 int32 int64 rune string uint uint8 uint16 uint32 uint64 uintptr true false iota nil append
cap close complex copy delete imag len make new panic print println real recover any min max clear""".split())
PY_KEYWORDS = set("""False None True and as assert async await break class continue def del elif else except
finally for from global if import in is lambda nonlocal not or pass raise return try while with yield match case
type int str bool bytes bytearray list dict set field dataclass json bp List Dict Union ClassVar IntEnum unique
property self""".split())
BITPROTO_KEYWORDS = set("proto import option type const enum message typedef bool byte true false yes no".split())
GENERATED = set("""encode decode to_json to_dict bp_processor bp_set_byte bp_get_byte bp_get_accessor
bp_process_int dict_factory BYTES_LENGTH size string max_bytes m s ctx data di b lshift rshift v fds descriptor
field_descriptors""".split())
# Go struct methods the generator adds to every message: a field whose PascalCase form equals one clashes.
GO_METHODS = set("Size String Encode Decode BpProcessor BpGetAccessor BpSetByte BpGetByte BpProcessInt".split())

RESERVED = C_KEYWORDS | CPP_KEYWORDS | GO_KEYWORDS | PY_KEYWORDS | BITPROTO_KEYWORDS | GENERATED

PASCAL_WORDS = """Alpha Bravo Cargo Delta Ember Flint Gamma Harbor Iris Jade Kite Lumen Metro Nova Orbit Pixel
Quartz Ridge Solar Tango Umbra Vector Wave Xenon Yard Zephyr Anchor Beacon Cedar Dune Echo Fjord Glade Helix
Islet Jetty Knoll Ledge Mesa Nadir Oasis Prism Quill Reef Shard Tundra Vale Wharf Yoke Zenith""".split()

SNAKE_WORDS = """alt bearing count depth eta flag gain heading idx jitter kind level mode node offset phase
quota rate speed ticks unit volts width xpos ypos zone angle bias cell dose edge fuel grid hue item jolt knob
lane mass nib ohm port qty rpm seq tag usage vol watt axis yaw zeta""".split()

UPPER_WORDS = """RED GREEN BLUE CYAN AMBER IDLE BUSY DONE FAIL WARN LOW MID HIGH OPEN SHUT EAST WEST NORTH
SOUTH FAST SLOW HOT COLD DRY WET ONE TWO SIX TEN UNSET READY ARMED SAFE 50HZ 2D 3V3 X86 V2 9600 RGB8""".split()
# (UPPER_CASE words may carry digits: constants and enum members are emitted verbatim in every language)

# digit components of field names (opt-in).  Only whole components: the compiler's own snake_case - which the linter and the Go JSON
# tag use - splits letters from digits (`x1` -> `x_1`), so `x1`/`zone10`/`2nd` are not style-guide names; `rate_2`, `ch_0_raw` are.
SNAKE_DIGIT_WORDS = "0 1 2 7 10 50 255".split()

PROTO_WORDS = "drone pen shared common base core link frame telem ctrl nav pwr".split()


def is_ok(name: str) -> bool:
    return name not in RESERVED and name.lower() not in {w.lower() for w in ()}


def upper_snake(pascal: str) -> str:
    """UPPER_SNAKE of a plain PascalCase word sequence (no acronyms, no digits)."""
    return re.sub(r"(?<!^)(?=[A-Z])", "_", pascal).upper()


def pascal_of_snake(snake: str) -> str:
    return "".join(p[:1].upper() + p[1:] for p in snake.split("_") if p)


class NamePool:
    """Draws fresh names of each style; guarantees global uniqueness of the
    case-folded, underscore-stripped form so flattened names cannot collide."""

    def __init__(self, rng, digits: float = 0.0, digit_fields: float = 0.0):
        self.rng = rng
        self.used = set()
        self.digit_fields = digit_fields  # probability that a field name carries a digit component (rate_2, ch_0_raw)
        self.digits = digits  # probability that a PascalCase name ends in a digit (C10/C15 composition slice)

    def _norm(self, s: str) -> str:
        return s.replace("_", "").lower()

    def _fresh(self, make) -> str:
        for _ in range(1000):
            n = make()
            k = self._norm(n)
            if n in RESERVED or k in self.used:
                continue
            if any(k == self._norm(r) for r in ("encode", "decode", "json", "size", "string")):
                continue
            self.used.add(k)
            return n
        raise RuntimeError("name pool exhausted")

    def pascal(self) -> str:
        r = self.rng

        def make():
            n = r.choice(PASCAL_WORDS)
            if r.random() < 0.6:
                n += r.choice(PASCAL_WORDS)
            if self.digits and r.random() < self.digits:
                n += str(r.randint(1, 9))
            return n

        return self._fresh(make)

    def snake(self, local_used=None) -> str:
        """Field name; unique only within `local_used` (a set owned by the message)."""
        r = self.rng
        for _ in range(1000):
            n = r.choice(SNAKE_WORDS)
            if r.random() < 0.5:
                n += "_" + r.choice(SNAKE_WORDS)
            if self.digit_fields and r.random() < self.digit_fields:
                form = r.randrange(5)
                if form == 4:
                    n += r.choice(["1", "2", "32", "64"])  # crc32, value1: lower case with a glued digit is snake_case too
                    if r.random() < 0.3:
                        n += "_" + r.choice(SNAKE_WORDS)
                elif form == 0:
                    n += "_" + r.choice(SNAKE_DIGIT_WORDS)
                    if r.random() < 0.3:
                        n += "_" + r.choice(SNAKE_WORDS)
                elif form == 1:
                    n += "_" + r.choice("abqwxyz") + "_" + r.choice("abqwxyz")  # imu_a_x: one-letter components vanish in a PascalCase round trip
                elif form == 2:
                    n = r.choice("abqwxyz") + "_" + r.choice(SNAKE_DIGIT_WORDS + list("abqwxyz"))  # q_w, x_1
                else:
                    n += "_" + r.choice("abqwxyz")
            if n in RESERVED or pascal_of_snake(n) in GO_METHODS:
                continue
            if local_used is not None:
                if n in local_used:
                    continue
                local_used.add(n)
            return n
        raise RuntimeError("field name pool exhausted")

    def upper(self) -> str:
        r = self.rng

        def make():
            n = r.choice([w for w in UPPER_WORDS if not w[0].isdigit()])
            if r.random() < 0.7:
                n += "_" + r.choice(UPPER_WORDS)
            if r.random() < 0.3:
                n += "_" + r.choice(UPPER_WORDS)
            return n

        return self._fresh(make)

    def proto(self) -> str:
        r = self.rng

        def make():
            n = r.choice(PROTO_WORDS)
            if r.random() < 0.5:
                n += "_" + r.choice(PROTO_WORDS)
            return n

        return self._fresh(make)

    def reserve(self, name: str) -> None:
        self.used.add(self._norm(name))
