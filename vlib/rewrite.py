"""Wire-format-preserving schema rewrites (C12) on the model.

Each rewrite mutates a deep copy; `apply_rewrites` keeps a rewrite only if the
result can still be printed (every reference resolvable under the documented
scoping rule) and flattened names stay unique.
"""
from __future__ import annotations

import copy
import random
from typing import Any, Callable, Dict, List, Optional, Set, Tuple

from . import ref
from .emit import Printer, Unresolvable
from .gen import flat_names_unique
from .model import (
    Alias,
    Arr,
    Base,
    Const,
    Enum,
    Field,
    File,
    Import,
    Message,
    Option,
    Ref,
    file_of,
    iter_defs,
    messages_of,
)
from .names import NamePool, upper_snake


def deps_of(d: Any) -> Set[int]:
    """ids of definitions a definition mentions (transitively through nested definitions)."""
    out: Set[int] = set()

    def ty(t: Any) -> None:
        if isinstance(t, Ref):
            out.add(id(t.target))
        elif isinstance(t, Arr):
            ty(t.elem)
            if t.cap_const is not None:
                out.add(id(t.cap_const))

    if isinstance(d, Alias):
        ty(d.type)
    elif isinstance(d, Message):
        for it in d.items:
            if isinstance(it, Field):
                ty(it.type)
            elif isinstance(it, Message):
                out |= deps_of(it)
            elif isinstance(it, Option) and isinstance(it.value, Const):
                out.add(id(it.value))
    elif isinstance(d, Option) and isinstance(d.value, Const):
        out.add(id(d.value))
    return out


def contained_ids(d: Any) -> Set[int]:
    out = {id(d)}
    if isinstance(d, Message):
        for it in d.items:
            if isinstance(it, (Message, Enum)):
                out |= contained_ids(it)
    return out


def printable(root: File) -> bool:
    try:
        for g in root.all_files():
            Printer(g).render()
        return flat_names_unique(root)
    except Unresolvable:
        return False


# ----------------------------------------------------------------------------
# individual rewrites: (root, rng, pool) -> description or None
# ----------------------------------------------------------------------------
def rw_rename(root: File, rng: random.Random, pool: NamePool) -> Optional[str]:
    cands: List[Tuple[str, Any]] = []
    for g in root.all_files():
        for d in iter_defs(g):
            cands.append((type(d).__name__, d))
            if isinstance(d, Message):
                cands += [("Field", f) for f in d.fields]
            if isinstance(d, Enum) and d.members:
                cands.append(("EnumMember", d))
    if not cands:
        return None
    kind, d = rng.choice(cands)
    if kind in ("Message", "Enum") and isinstance(d.parent, Message) and rng.random() < 0.5:
        # rename a nested definition to the name of a definition of an enclosing scope: legal shadowing.  The printer
        # then has to spell every reference so that it still denotes the same definition (or the rewrite is dropped).
        g = file_of(d)
        outer = [x.name for x in g.items if isinstance(x, (Message, Enum, Alias)) and x is not d]
        p = d.parent
        while isinstance(p, Message):
            outer += [x.name for x in p.items if isinstance(x, (Message, Enum)) and x is not d]
            p = p.parent
        taken = {x.name for x in d.parent.items if hasattr(x, "name")}
        outer = [n for n in outer if n not in taken]
        if outer:
            old, d.name = d.name, rng.choice(outer)
            return f"rename nested {kind} {old} to the shadowing name {d.name}"
    if kind in ("Message", "Enum", "Alias"):
        old, d.name = d.name, pool.pascal()
    elif kind == "Const":
        old, d.name = d.name, pool.upper()
    elif kind == "Field":
        used = {f.name for f in d.parent.fields}
        old, d.name = d.name, pool.snake(used)
    else:
        k = rng.randrange(len(d.members))
        old = d.members[k][0]
        taken = {n for n, _ in d.members}
        new = next(n for n in (upper_snake(d.name) + "_" + pool.upper() for _ in range(100)) if n not in taken)
        d.members[k] = (new, d.members[k][1])
    return f"rename {kind} {old}"


def rw_reorder_fields(root: File, rng: random.Random, pool: NamePool) -> Optional[str]:
    ms = [m for g in root.all_files() for m in messages_of(g) if len(m.fields) >= 2]
    if not ms:
        return None
    m = rng.choice(ms)
    defs = [it for it in m.items if not isinstance(it, Field)]
    fields = m.fields
    rng.shuffle(fields)
    m.items = defs + fields  # nested definitions first, so every field still follows what it uses
    return f"reorder fields of {m.name}"


def rw_reorder_defs(root: File, rng: random.Random, pool: NamePool) -> Optional[str]:
    g = rng.choice(root.all_files())
    head = [it for it in g.items if isinstance(it, (Import, Option))]
    defs = [it for it in g.items if not isinstance(it, (Import, Option))]
    if len(defs) < 2:
        return None
    remaining = list(defs)
    placed: List[Any] = []
    placed_ids: Set[int] = set()
    local_ids = set()
    for d in defs:
        local_ids |= contained_ids(d)
    while remaining:
        ready = [d for d in remaining if all((x not in local_ids) or (x in placed_ids) or (x in contained_ids(d)) for x in deps_of(d))]
        if not ready:
            return None
        d = rng.choice(ready)
        remaining.remove(d)
        placed.append(d)
        placed_ids |= contained_ids(d)
    g.items = head + placed
    return f"reorder definitions of {g.proto_name}"


def _type_slots(root: File) -> List[Tuple[Any, str]]:
    """(owner, attribute) pairs holding a type: field types, and the ELEMENT types of arrays in fields and aliases
    (aliasing the element of a row changes how runtimes dispatch on it, never what is encoded)."""
    out = []
    for g in root.all_files():
        for d in iter_defs(g):
            if isinstance(d, Message):
                out += [(f, "type") for f in d.fields]
                out += [(f.type, "elem") for f in d.fields if isinstance(f.type, Arr)]
            elif isinstance(d, Alias) and isinstance(d.type, Arr):
                out.append((d.type, "elem"))
    return out


def _owner_def(root: File, o: Any) -> Any:
    """The top-level definition that contains the slot owner (a Field or an Arr)."""
    for g in root.all_files():
        for top in g.items:
            if isinstance(top, Alias) and top.type is o:
                return g, top
            if isinstance(top, Message):
                stack = [top]
                while stack:
                    m = stack.pop()
                    for it in m.items:
                        if it is o or (isinstance(it, Field) and it.type is o):
                            return g, top
                        if isinstance(it, Message):
                            stack.append(it)
    return None, None


def rw_introduce_alias(root: File, rng: random.Random, pool: NamePool) -> Optional[str]:
    slots = [(o, a) for (o, a) in _type_slots(root) if isinstance(getattr(o, a), (Base, Arr))]
    if not slots:
        return None
    o, a = rng.choice(slots)
    t = getattr(o, a)
    g, top = _owner_def(root, o)
    if g is None:
        return None
    al = Alias(pool.pascal(), t, parent=g)
    g.items.insert(g.items.index(top), al)
    setattr(o, a, Ref(al))
    return f"introduce alias {al.name} for the {'element ' if a == 'elem' else ''}type of {getattr(o, 'name', 'an array')}"


def rw_inline_alias(root: File, rng: random.Random, pool: NamePool) -> Optional[str]:
    slots = [(o, a) for (o, a) in _type_slots(root) if isinstance(getattr(o, a), Ref) and isinstance(getattr(o, a).target, Alias)]
    if not slots:
        return None
    o, a = rng.choice(slots)
    al = getattr(o, a).target
    if a == "elem" and isinstance(al.type, Arr):
        return None  # an array cannot be written inline as an array element
    g, _top = _owner_def(root, o)
    if g is not file_of(al) and isinstance(al.type, Arr) and al.type.cap_const is not None:
        return None
    setattr(o, a, copy.copy(al.type) if isinstance(al.type, Arr) else Base(al.type.kind, al.type.width))
    return f"inline alias {al.name} in {getattr(o, 'name', 'an array element')}"


def rw_unnest(root: File, rng: random.Random, pool: NamePool) -> Optional[str]:
    cands = [d for g in root.all_files() for d in iter_defs(g) if isinstance(d, (Message, Enum)) and isinstance(d.parent, Message)]
    if not cands:
        return None
    d = rng.choice(cands)
    parent = d.parent
    top = parent
    while not isinstance(top.parent, File):
        top = top.parent
    g = top.parent
    parent.items.remove(d)
    d.parent = g
    g.items.insert(g.items.index(top), d)
    return f"move nested {d.name} out of {parent.name} to the file scope"


def rw_nest(root: File, rng: random.Random, pool: NamePool) -> Optional[str]:
    g = rng.choice(root.all_files())
    tops = [d for d in g.items if isinstance(d, (Message, Enum))]
    msgs = [d for d in g.items if isinstance(d, Message)]
    if len(tops) < 2 or not msgs:
        return None
    d = rng.choice(tops)
    later = [m for m in msgs if g.items.index(m) > g.items.index(d)]
    if not later:
        return None
    p = later[0]
    g.items.remove(d)
    d.parent = p
    p.items.insert(0, d)
    return f"move {d.name} from the file scope into {p.name}"


def rw_move_to_import(root: File, rng: random.Random, pool: NamePool) -> Optional[str]:
    g = root
    defs = [it for it in g.items if isinstance(it, (Const, Alias, Enum, Message))]
    if len(defs) < 2:
        return None
    k = rng.randint(1, len(defs) - 1)
    moved = defs[:k]
    moved_ids: Set[int] = set()
    for d in moved:
        moved_ids |= contained_ids(d)
    for d in moved:
        if any(x not in moved_ids for x in deps_of(d)):
            return None  # depends on an imported file or on something that stays
    nf = File(pool.proto())
    first = g.items.index(moved[0])
    for d in moved:
        g.items.remove(d)
        nf.add(d)
    imp = Import(nf, pool.proto() if rng.random() < 0.5 else None, parent=g)
    # imports are conventionally at the top but legal anywhere at file scope
    pos = min(first, next((i for i, it in enumerate(g.items) if not isinstance(it, (Import, Option))), len(g.items)))
    g.items.insert(pos, imp)
    return f"move {k} definitions into imported file {nf.proto_name}"


def _expr_for(v: int, rng: random.Random) -> str:
    forms = []
    a = rng.randint(0, v)
    forms.append(f"{a} + {v - a}")
    forms.append(f"{v + 3} - 3")
    if v % 2 == 0:
        forms.append(f"{v // 2} * 2")
        forms.append(f"2 * ({v // 2})")
    forms.append(f"({v} * 3 + 1) / 3")
    forms.append(f"0x{v:x}")
    forms.append(f"1 + 2 * {v} - {v} - 1")
    forms.append(f"{v * 7} / 7")
    # operands beyond 2^53 and 2^64 (a mask divided by a unit, a product of two words): exact integer arithmetic gives v,
    # anything that passes through a float or a fixed-width integer does not
    K = rng.choice([1 << 53, (1 << 56), (1 << 60) - 1, 1 << 64, (1 << 70) + 12345, rng.getrandbits(80) | (1 << 79)])
    r = rng.choice([0, 1, K - 1, K // 2])
    forms.append(f"0x{v * K + r:X} / 0x{K:x}")
    forms.append(f"{v * K + r} / {K}")
    forms.append(f"({K} * {v + 1} - {K}) / {K}")
    forms.append(f"{K} * {v} / {K} + {K} - {K}")
    # left-to-right evaluation with equal precedence, and mixed precedence without parentheses
    forms.append(f"{v + 10} - 4 - 6")
    forms.append(f"{v * 4} / 2 / 2")
    forms.append(f"2 * {v} + 6 - {v} - 2 * 3")
    return rng.choice(forms)


def rw_literal_to_const(root: File, rng: random.Random, pool: NamePool) -> Optional[str]:
    slots = []
    for g in root.all_files():
        for d in iter_defs(g):
            if isinstance(d, Message):
                slots += [(g, d, f.type) for f in d.fields if isinstance(f.type, Arr) and f.type.cap_const is None]
                slots += [(g, d, o) for o in d.items if isinstance(o, Option) and isinstance(o.value, int) and not isinstance(o.value, bool)]
            elif isinstance(d, Alias) and isinstance(d.type, Arr) and d.type.cap_const is None:
                slots.append((g, d, d.type))
    if not slots:
        return None
    g, d, slot = rng.choice(slots)
    top = d
    while not isinstance(top.parent, File):
        top = top.parent
    v = slot.cap if isinstance(slot, Arr) else slot.value
    c = Const(pool.upper(), v, expr=_expr_for(v, rng), parent=g)
    g.items.insert(g.items.index(top), c)
    if isinstance(slot, Arr):
        slot.cap_const = c
    else:
        slot.value = c
    return f"replace literal {v} by constant {c.name} = {c.expr}"


def rw_renumber(root: File, rng: random.Random, pool: NamePool) -> Optional[str]:
    ms = [m for g in root.all_files() for m in messages_of(g) if m.fields]
    if not ms:
        return None
    m = rng.choice(ms)
    fs = m.sorted_fields
    new = sorted(rng.sample(range(1, 256), len(fs)))
    for f, n in zip(fs, new):
        f.number = n
    return f"renumber fields of {m.name} order-preservingly"


REWRITES: List[Tuple[str, Callable]] = [
    ("rename", rw_rename), ("reorder-fields", rw_reorder_fields), ("reorder-definitions", rw_reorder_defs),
    ("introduce-alias", rw_introduce_alias), ("inline-alias", rw_inline_alias), ("un-nest", rw_unnest), ("nest", rw_nest),
    ("move-to-import", rw_move_to_import), ("literal-to-constant", rw_literal_to_const), ("renumber", rw_renumber),
]


def apply_rewrites(root: File, rng: random.Random, n: int) -> Tuple[File, Dict[int, Any], List[str]]:
    """Returns (rewritten copy, memo id(original object) -> object in the copy, descriptions of the rewrites kept)."""
    memo: Dict[int, Any] = {}
    cur = copy.deepcopy(root, memo)
    # memo maps id(original) -> copy; later deep copies compose
    mapping = {k: v for k, v in memo.items()}
    pool = NamePool(rng)
    for g in root.all_files():
        pool.reserve(g.proto_name)
        pool.reserve(g.basename)
        for imp in g.imports:
            pool.reserve(imp.bound_name)
        for d in iter_defs(g):
            pool.reserve(d.name)
            if isinstance(d, Enum):
                for mn, _ in d.members:
                    pool.reserve(mn)
    done: List[str] = []
    attempts = 0
    while len(done) < n and attempts < n * 6:
        attempts += 1
        name, fn = rng.choice(REWRITES)
        m2: Dict[int, Any] = {}
        trial = copy.deepcopy(cur, m2)
        try:
            desc = fn(trial, rng, pool)
        except Exception:
            desc = None
        if desc is None or not printable(trial) or not valid_sizes(trial):
            continue
        cur = trial
        mapping = {k: m2.get(id(v), v) for k, v in mapping.items()}
        done.append(f"{name}: {desc}")
    return cur, mapping, done


def valid_sizes(root: File) -> bool:
    for g in root.all_files():
        for m in messages_of(g):
            if ref.nbits(m) > 65535:
                return False
    return True


def map_value(t_old: Any, value: Any, mapping: Dict[int, Any]) -> Any:
    """Value of the original schema -> corresponding value of the rewritten schema (keys are field numbers)."""
    t = t_old
    while isinstance(t, Ref):
        tt = t.target
        t = tt.type if isinstance(tt, Alias) else tt
    if isinstance(t, (Base, Enum)):
        return value
    if isinstance(t, Arr):
        return [map_value(t.elem, v, mapping) for v in value]
    if isinstance(t, Message):
        return {mapping[id(f)].number: map_value(f.type, value[f.number], mapping) for f in t.sorted_fields}
    raise TypeError(t)
