"""C runtime + generated C under observation.

For a schema (my model) this module writes a stand-alone driver `drv.c` against
the DOCUMENTED names of the generated API (struct <Name>, Encode<Name>,
Decode<Name>, Json<Name>, BYTES_LENGTH_<UPPER_SNAKE>, schema field names), builds
it together with the generated sources and the runtime from the working tree in a
named configuration, and talks to it over pipes.

Memory monitors inside the driver:
  * guard mode (default): every wire buffer, struct and JSON buffer is mmap'ed so
    that it ENDS exactly at a PROT_NONE page (ops in upper case) or STARTS right
    after one (lower case ops); the rest of the data pages carries a canary that is
    verified after every call.  A stray byte is a SIGSEGV/SIGBUS (reported as
    FAULT with the faulting address) or a CANARY line.
  * -DDRV_ASAN: exact-size malloc blocks, for AddressSanitizer/UBSan builds.
"""
from __future__ import annotations

import os
import re
import subprocess
from typing import Any, Dict, List, Optional, Tuple

from . import env, ref
from .model import Alias, Arr, Base, Enum, File, Message, Ref, file_of, messages_of, qualified_path
from .names import upper_snake


# ----------------------------------------------------------------------------
# documented C names
# ----------------------------------------------------------------------------
def pascal_prefix(prefix: str) -> str:
    parts = [p for p in prefix.split("_") if p]
    out = []
    for p in parts:
        rest = p[1:]
        out.append(p[0].upper() + (rest.lower() if rest and rest.isupper() else rest))
    return "".join(out)


def c_prefix(f: File) -> str:
    return f.option("c.name_prefix", "") or ""


def c_type_name(d: Any) -> str:
    """struct/typedef name: PascalCase prefix + enclosing names + own name."""
    return pascal_prefix(c_prefix(file_of(d))) + "".join(qualified_path(d))


def c_size_macro(m: Message) -> str:
    p = c_prefix(file_of(m))
    pre = upper_snake(pascal_prefix(p)) + "_" if p else ""
    return "BYTES_LENGTH_" + pre + "_".join(upper_snake(n) for n in qualified_path(m))


def c_storage(width: int) -> int:
    return next(s for s in (8, 16, 32, 64) if s >= width)


def c_leaf_type(t: Any) -> str:
    if isinstance(t, Base):
        if t.kind == "bool":
            return "bool"
        if t.kind == "byte":
            return "unsigned char"
        return f"{'u' if t.kind == 'uint' else ''}int{c_storage(t.width)}_t"
    if isinstance(t, Enum):
        return f"uint{c_storage(t.width)}_t"
    raise TypeError(t)


def leaf_storage_bytes(t: Any) -> int:
    if isinstance(t, Base):
        if t.kind in ("bool", "byte"):
            return 1
        return c_storage(t.width) // 8
    return c_storage(t.width) // 8


# ----------------------------------------------------------------------------
# driver source
# ----------------------------------------------------------------------------
DRIVER_PRELUDE = r'''
#define _GNU_SOURCE
#include <stdio.h>
#include <stdlib.h>
#include <string.h>
#include <stdint.h>
#include <signal.h>
#include <unistd.h>
#include <sys/mman.h>

static long PG;
/* window marker for memory-access traces (valgrind lackey): stores of 1/0 delimit the call under observation */
volatile int drv_marker = 0;
static const char *layout_base;
static volatile const char *cur_op = "?";
static volatile int cur_idx = -1;

static void on_fault(int sig, siginfo_t *si, void *u) {
    char b[200];
    int n = snprintf(b, sizeof b, "FAULT sig=%d addr=%p op=%s idx=%d\n", sig, si->si_addr, (const char *)cur_op, cur_idx);
    if (write(1, b, n) < 0) {}
    _exit(3);
}

#ifdef DRV_EMU_BE
/* emulated big-endian host (vlib/be_emu.py): structures shared with libc are filled in by an untouched native helper */
extern void drv_native_install(void (*h)(int, siginfo_t *, void *));
#endif

struct blk { unsigned char *base; size_t total; unsigned char *p; size_t size; };

#ifdef DRV_ASAN
static struct blk blk_alloc(size_t size, int low) {
    struct blk b; b.base = (unsigned char *)malloc(size ? size : 1); b.total = size; b.p = b.base; b.size = size;
    memset(b.p, 0, size);
    return b;
}
static int blk_check(struct blk *b) { return 0; }
static void blk_free(struct blk *b) { free(b->base); }
#else
/* [guard page][data pages...][guard page]; object end-aligned (low=0) or start-aligned (low=1) */
static struct blk blk_alloc(size_t size, int low) {
    struct blk b;
    size_t data = ((size + PG - 1) / PG) * PG; if (data == 0) data = PG;
    b.total = data + 2 * PG;
    b.base = (unsigned char *)mmap(NULL, b.total, PROT_READ | PROT_WRITE, MAP_PRIVATE | MAP_ANONYMOUS, -1, 0);
    if (b.base == MAP_FAILED) { printf("ERR mmap\n"); exit(4); }
    memset(b.base + PG, 0xA5, data);
    mprotect(b.base, PG, PROT_NONE);
    mprotect(b.base + PG + data, PG, PROT_NONE);
    b.p = low ? b.base + PG : b.base + PG + data - size;
    b.size = size;
    memset(b.p, 0, size);
    return b;
}
static int blk_check(struct blk *b) {
    size_t data = b->total - 2 * PG;
    unsigned char *lo = b->base + PG, *hi = b->base + PG + data;
    for (unsigned char *q = lo; q < b->p; q++) if (*q != 0xA5) return 1 + (int)(b->p - q);
    for (unsigned char *q = b->p + b->size; q < hi; q++) if (*q != 0xA5) return -1 - (int)(q - (b->p + b->size));
    return 0;
}
static void blk_free(struct blk *b) { munmap(b->base, b->total); }
#endif

static int hexval(int c) { return c <= '9' ? c - '0' : (c | 32) - 'a' + 10; }
static size_t unhex(const char *s, unsigned char *out) {
    size_t n = 0;
    while (s[0] && s[1] && s[0] != '\n' && s[0] != ' ') { out[n++] = (unsigned char)(hexval(s[0]) << 4 | hexval(s[1])); s += 2; }
    return n;
}
static void puthex(const unsigned char *p, size_t n) {
    static const char *H = "0123456789abcdef";
    for (size_t i = 0; i < n; i++) { putchar(H[p[i] >> 4]); putchar(H[p[i] & 15]); }
}
static void put_leaves(const uint64_t *v, int n) {
    for (int i = 0; i < n; i++) printf("%016llx", (unsigned long long)v[i]);
}
static int get_leaves(const char *s, uint64_t *v, int n) {
    for (int i = 0; i < n; i++) {
        uint64_t x = 0;
        for (int k = 0; k < 16; k++) { if (!s[k] || s[k] == '\n') return -1; x = (x << 4) | (uint64_t)hexval(s[k]); }
        v[i] = x; s += 16;
    }
    return 0;
}

/* leaf transfer between the uint64 leaf vector and C storage.  Default: low bytes as the (little-endian) host lays
   them out.  -DDRV_BE_STORAGE: most-significant byte first, i.e. the storage image a big-endian host would hold. */
#ifdef DRV_BE_STORAGE
static void leaf_set(void *dst, size_t n, uint64_t v) { unsigned char *p = (unsigned char *)dst; for (size_t k = 0; k < n; k++) p[n - 1 - k] = (unsigned char)(v >> (8 * k)); }
static uint64_t leaf_get(const void *src, size_t n) { const unsigned char *p = (const unsigned char *)src; uint64_t v = 0; for (size_t k = 0; k < n; k++) v |= (uint64_t)p[n - 1 - k] << (8 * k); return v; }
#else
static void leaf_set(void *dst, size_t n, uint64_t v) { memcpy(dst, &v, n); }
static uint64_t leaf_get(const void *src, size_t n) { uint64_t v = 0; memcpy(&v, src, n); return v; }
#endif

struct msg_entry {
    const char *name; int nleaves; long nbytes; size_t size;
    void (*set)(void *, const uint64_t **);
    void (*get)(const void *, uint64_t **);
    void (*lay)(const void *, uint64_t **);
    int (*enc)(void *, unsigned char *);
    int (*dec)(void *, unsigned char *);
    int (*json)(void *, char *);
};
'''

DRIVER_MAIN = r'''
int main(void) {
    PG = sysconf(_SC_PAGESIZE);
#if defined(DRV_EMU_BE)
    drv_native_install(on_fault);
#elif !defined(DRV_ASAN)
    struct sigaction sa; memset(&sa, 0, sizeof sa); sa.sa_sigaction = on_fault; sa.sa_flags = SA_SIGINFO;
    sigaction(SIGSEGV, &sa, NULL); sigaction(SIGBUS, &sa, NULL);
#endif
    char *line = NULL; size_t cap = 0; ssize_t len;
    int nmsgs = (int)(sizeof(MSGS) / sizeof(MSGS[0]));
    while ((len = getline(&line, &cap, stdin)) > 0) {
        char op = line[0];
        if (op == 'Q') break;
        int idx = atoi(line + 2);
        if (idx < 0 || idx >= nmsgs) { printf("ERR idx\n"); fflush(stdout); continue; }
        const struct msg_entry *e = &MSGS[idx];
        const char *arg = strchr(line + 2, ' '); arg = arg ? arg + 1 : "";
        int low = (op >= 'a' && op <= 'z');
        char OP = low ? (char)(op - 32) : op;
        cur_idx = idx;
        if (OP == 'S') {
            printf("OK %zu %ld %d\n", e->size, e->nbytes, e->nleaves);
        } else if (OP == 'L') {   /* leaf layout: (offset << 8 | size) per leaf */
            struct blk sb = blk_alloc(e->size, 0);
            uint64_t *o = (uint64_t *)calloc((size_t)e->nleaves + 1, 8); uint64_t *po = o;
            layout_base = (const char *)sb.p; e->lay(sb.p, &po);
            printf("OK "); put_leaves(o, e->nleaves); printf("\n"); free(o); blk_free(&sb);
        } else if (OP == 'E' || OP == 'J' || OP == 'R') {
            uint64_t *v = (uint64_t *)calloc((size_t)e->nleaves + 1, 8);
            if (get_leaves(arg, v, e->nleaves)) { printf("ERR leaves\n"); fflush(stdout); free(v); continue; }
            struct blk sb = blk_alloc(e->size, low);
            const uint64_t *pv = v; e->set(sb.p, &pv);
            if (OP == 'R') {          /* driver self-test: leaves -> struct -> leaves */
                uint64_t *o = (uint64_t *)calloc((size_t)e->nleaves + 1, 8); uint64_t *po = o;
                e->get(sb.p, &po); printf("OK "); put_leaves(o, e->nleaves); printf("\n"); free(o);
            } else if (OP == 'E') {
                struct blk wb = blk_alloc((size_t)e->nbytes, low);
                cur_op = "Encode"; drv_marker = 1; e->enc(sb.p, wb.p); drv_marker = 0; cur_op = "?";
                int c1 = blk_check(&wb), c2 = blk_check(&sb);
                if (c1 || c2) printf("CANARY wire=%d struct=%d ", c1, c2); else printf("OK ");
                puthex(wb.p, (size_t)e->nbytes); printf(" @%p,%ld,%p,%zu\n", (void *)wb.p, e->nbytes, (void *)sb.p, e->size);
                blk_free(&wb);
            } else {
                if (!e->json) { printf("ERR nojson\n"); }
                else {
                    static char big[1 << 22];
                    cur_op = "Json(measure)"; int n = e->json(sb.p, big);
                    struct blk jb = blk_alloc((size_t)n + 1, low);
                    /* the target buffer is dirty (a reused buffer): the text must still end where the function says it ends */
                    memset(jb.p, '#', (size_t)n + 1);
                    cur_op = "Json"; int n2 = e->json(sb.p, (char *)jb.p); cur_op = "?";
                    int c1 = blk_check(&jb), c2 = blk_check(&sb);
                    if (c1 || c2) printf("CANARY json=%d struct=%d ", c1, c2); else printf("OK ");
                    printf("%d %d ", n, n2); puthex(jb.p, (size_t)(n2 > 0 ? n2 : 0));
                    printf(" t=%d\n", (n2 >= 0 && n2 <= n) ? (int)(jb.p[n2] == 0) : -1);
                    blk_free(&jb);
                }
            }
            blk_free(&sb); free(v);
        } else if (OP == 'D') {
            size_t hl = strlen(arg);
            unsigned char *tmp = (unsigned char *)malloc(hl / 2 + 1);
            size_t n = unhex(arg, tmp);
            struct blk wb = blk_alloc(n, low); memcpy(wb.p, tmp, n); free(tmp);
            struct blk sb = blk_alloc(e->size, low);
            cur_op = "Decode"; drv_marker = 1; e->dec(sb.p, wb.p); drv_marker = 0; cur_op = "?";
            int c1 = blk_check(&wb), c2 = blk_check(&sb);
            uint64_t *o = (uint64_t *)calloc((size_t)e->nleaves + 1, 8); uint64_t *po = o;
            e->get(sb.p, &po);
            if (c1 || c2) printf("CANARY wire=%d struct=%d ", c1, c2); else printf("OK ");
            put_leaves(o, e->nleaves); printf(" @%p,%zu,%p,%zu\n", (void *)wb.p, n, (void *)sb.p, e->size); free(o);
            blk_free(&wb); blk_free(&sb);
        } else {
            printf("ERR op\n");
        }
        fflush(stdout);
    }
    return 0;
}
'''


class DriverGen:
    def __init__(self, root: File, with_json: bool = True):
        self.root = root
        self.with_json = with_json
        self.messages: List[Message] = []
        for g in root.all_files():
            self.messages.extend(messages_of(g))
        self.index = {id(m): k for k, m in enumerate(self.messages)}

    def _walk(self, t: Any, expr: str, depth: int, emit_leaf, emit_msg) -> List[str]:
        """C statements visiting the leaves of `expr` (an lvalue of type t) in stream order."""
        if isinstance(t, Ref):
            tt = t.target
            if isinstance(tt, Alias):
                return self._walk(tt.type, expr, depth, emit_leaf, emit_msg)
            if isinstance(tt, Enum):
                return [emit_leaf(expr)]
            if isinstance(tt, Message):
                return [emit_msg(tt, expr)]
            raise TypeError(tt)
        if isinstance(t, Base):
            return [emit_leaf(expr)]
        if isinstance(t, Arr):
            iv = f"i{depth}"
            inner = self._walk(t.elem, f"{expr}[{iv}]", depth + 1, emit_leaf, emit_msg)
            return [f"for (int {iv} = 0; {iv} < {t.cap}; {iv}++) {{"] + ["    " + s for s in inner] + ["}"]
        raise TypeError(t)

    def source(self) -> str:
        out = [DRIVER_PRELUDE]
        out.append(f'#include "{self.root.basename}_bp.h"')
        for m in self.messages:
            sn = c_type_name(m)
            out.append(f"static void set_{sn}(void *p, const uint64_t **pv);")
            out.append(f"static void get_{sn}(const void *p, uint64_t **pv);")
            out.append(f"static void lay_{sn}(const void *p, uint64_t **pv);")
        for m in self.messages:
            sn = c_type_name(m)
            body_set: List[str] = []
            body_get: List[str] = []
            body_lay: List[str] = []
            for f in m.sorted_fields:
                body_lay += self._walk(
                    f.type, f"m->{f.name}", 0,
                    lambda e: f"*(*pv)++ = ((uint64_t)((const char *)&({e}) - layout_base) << 8) | sizeof({e});",
                    lambda mm, e: f"lay_{c_type_name(mm)}(&({e}), pv);")
                body_set += self._walk(
                    f.type, f"m->{f.name}", 0,
                    lambda e: f"leaf_set(&({e}), sizeof({e}), *(*pv)++);",
                    lambda mm, e: f"set_{c_type_name(mm)}(&({e}), pv);")
                body_get += self._walk(
                    f.type, f"m->{f.name}", 0,
                    lambda e: f"*(*pv)++ = leaf_get(&({e}), sizeof({e}));",
                    lambda mm, e: f"get_{c_type_name(mm)}(&({e}), pv);")
            out.append(f"static void set_{sn}(void *p, const uint64_t **pv) {{ struct {sn} *m = (struct {sn} *)p; (void)m; (void)pv;")
            out += ["    " + s for s in body_set] + ["}"]
            out.append(f"static void get_{sn}(const void *p, uint64_t **pv) {{ const struct {sn} *m = (const struct {sn} *)p; (void)m; (void)pv;")
            out += ["    " + s for s in body_get] + ["}"]
            out.append(f"static void lay_{sn}(const void *p, uint64_t **pv) {{ const struct {sn} *m = (const struct {sn} *)p; (void)m; (void)pv;")
            out += ["    " + s for s in body_lay] + ["}"]
            out.append(f"static int enc_{sn}(void *p, unsigned char *s) {{ return Encode{sn}((struct {sn} *)p, s); }}")
            out.append(f"static int dec_{sn}(void *p, unsigned char *s) {{ return Decode{sn}((struct {sn} *)p, s); }}")
            if self.with_json:
                out.append(f"static int json_{sn}(void *p, char *s) {{ return Json{sn}((struct {sn} *)p, s); }}")
        out.append("static const struct msg_entry MSGS[] = {")
        for m in self.messages:
            sn = c_type_name(m)
            js = f"json_{sn}" if self.with_json else "NULL"
            out.append(f'    {{"{sn}", {ref.count_leaves(m)}, {c_size_macro(m)}, sizeof(struct {sn}), set_{sn}, get_{sn}, lay_{sn}, enc_{sn}, dec_{sn}, {js}}},')
        out.append("};")
        out.append(DRIVER_MAIN)
        return "\n".join(out) + "\n"


# ----------------------------------------------------------------------------
# build configurations
# ----------------------------------------------------------------------------
SAN = ["-fsanitize=address,undefined", "-fno-sanitize=alignment", "-fno-sanitize-recover=all", "-fno-omit-frame-pointer", "-g", "-DDRV_ASAN"]
CONFIGS: Dict[str, Dict[str, Any]] = {
    "gcc-O0-sep": dict(cc="gcc", flags=["-O0"], single=False),
    "gcc-O1-sep": dict(cc="gcc", flags=["-O1"], single=False),
    "gcc-O2-sep": dict(cc="gcc", flags=["-O2"], single=False),
    "gcc-O3-sep": dict(cc="gcc", flags=["-O3"], single=False),
    "gcc-Os-sep": dict(cc="gcc", flags=["-Os"], single=False),
    "gcc-O0-single": dict(cc="gcc", flags=["-O0"], single=True),
    "gcc-O1-single": dict(cc="gcc", flags=["-O1"], single=True),
    "gcc-O2-single": dict(cc="gcc", flags=["-O2"], single=True),
    "gcc-O3-single": dict(cc="gcc", flags=["-O3"], single=True),
    "gcc-Os-single": dict(cc="gcc", flags=["-Os"], single=True),
    "clang-O0-sep": dict(cc="clang", flags=["-O0"], single=False),
    "clang-O2-sep": dict(cc="clang", flags=["-O2"], single=False),
    "clang-O3-sep": dict(cc="clang", flags=["-O3"], single=False),
    "clang-O1-single": dict(cc="clang", flags=["-O1"], single=True),
    "clang-O2-single": dict(cc="clang", flags=["-O2"], single=True),
    "clang-O3-single": dict(cc="clang", flags=["-O3"], single=True),
    "clang-Os-single": dict(cc="clang", flags=["-Os"], single=True),
    "gcc-asan-ubsan": dict(cc="gcc", flags=["-O1"] + SAN, single=False, asan=True),
    "clang-asan-ubsan": dict(cc="clang", flags=["-O1"] + SAN, single=False, asan=True),
    # runtime built for a big-endian host, operating on storage laid out big-endian by the driver
    "gcc-O0-BE": dict(cc="gcc", flags=["-O0", "-DBP_BIG_ENDIAN", "-DDRV_BE_STORAGE"], single=False),
    "gcc-O2-BE": dict(cc="gcc", flags=["-O2", "-DBP_BIG_ENDIAN", "-DDRV_BE_STORAGE"], single=True),
    "clang-O2-BE": dict(cc="clang", flags=["-O2", "-DBP_BIG_ENDIAN", "-DDRV_BE_STORAGE"], single=False),
    "gcc-asan-BE": dict(cc="gcc", flags=["-O1", "-DBP_BIG_ENDIAN", "-DDRV_BE_STORAGE"] + SAN, single=False, asan=True),
    # other include contexts on this little-endian host: a project-wide prefix header, and a unity build whose libc includes come first
    # (<endian.h> and friends are then visible before the runtime's byte-order detection: it must still say little-endian)
    "gcc-O0-prefix-header": dict(cc="gcc", flags=["-O0", "-include", "stdlib.h", "-include", "sys/types.h", "-include", "time.h", "-include", "endian.h"], single=False),
    "gcc-O2-single-libc-first": dict(cc="gcc", flags=["-O2"], single=True, libc_first=True),
    "clang-O1-prefix-header": dict(cc="clang", flags=["-O1", "-include", "stdlib.h", "-include", "pthread.h", "-include", "sys/param.h"], single=False),
    # emulated big-endian HOST (vlib/be_emu.py): unoptimised IR with every multi-byte integer access byte-swapped, sources
    # preprocessed with __BYTE_ORDER__ == __ORDER_BIG_ENDIAN__ (the code's own detection decides), native back end at -O0/-O1/-O2
    "emu-BE-O0": dict(emu=True, backend="-O0"),
    "emu-BE-O1": dict(emu=True, backend="-O1"),
    "emu-BE-O2": dict(emu=True, backend="-O2"),
    # positive control: the same emulated big-endian memory, but the code is told the host is little-endian: must FAIL
    "emu-BE-control-LE-code": dict(emu=True, backend="-O1", force_le=True),
    # access-width tracing builds (valgrind lackey): -O0 so the compiler neither merges nor splits accesses
    "trace-LE": dict(cc="gcc", flags=["-O0", "-g", "-fno-builtin", "-no-pie"], single=False),
    "trace-BE": dict(cc="gcc", flags=["-O0", "-g", "-fno-builtin", "-no-pie", "-DBP_BIG_ENDIAN", "-DDRV_BE_STORAGE"], single=False),
    "trace-optBE": dict(cc="gcc", flags=["-O0", "-g", "-fno-builtin", "-no-pie", "-DBP_BIG_ENDIAN"], single=False),
    # positive control for the big-endian monitor: big-endian storage fed to the little-endian build must FAIL
    "gcc-O0-LE-on-BE-storage": dict(cc="gcc", flags=["-O0", "-DDRV_BE_STORAGE"], single=False),
}

WARN = ["-std=gnu99", "-w"]


class BuildError(Exception):
    def __init__(self, msg: str, log: str):
        super().__init__(msg)
        self.log = log


def build(directory: str, root: File, config: str, optimize: bool = False, exe_name: Optional[str] = None,
          driver_src: Optional[str] = None, extra_flags: Optional[List[str]] = None) -> str:
    """Build drv.c + generated sources (+ runtime in standard mode) found in `directory`."""
    cfg = CONFIGS[config]
    gen_c = [os.path.join(directory, f"{g.basename}_bp.c") for g in root.all_files()]
    if driver_src is None:
        driver_src = DriverGen(root, with_json=not optimize).source()
    drv = os.path.join(directory, "drv.c")
    with open(drv, "w") as fh:
        fh.write(driver_src)
    srcs = gen_c + [drv]
    if not optimize:
        srcs.insert(0, os.path.join(env.CLIB_DIR, "bitproto.c"))
    exe = os.path.join(directory, exe_name or f"drv-{config}")
    if cfg.get("emu"):
        return _build_emulated(directory, srcs, exe, cfg, extra_flags)
    flags = list(cfg["flags"]) + WARN + (extra_flags or []) + ["-I", directory, "-I", env.CLIB_DIR]
    if cfg.get("single"):
        single = os.path.join(directory, f"single-{config}.c")
        with open(single, "w") as fh:
            if cfg.get("libc_first"):
                fh.write("#define _GNU_SOURCE\n#include <stdlib.h>\n#include <sys/types.h>\n#include <sys/param.h>\n#include <time.h>\n#include <endian.h>\n#include <pthread.h>\n")
            for s in srcs:
                fh.write(f'#include "{s}"\n')
        cmd = [cfg["cc"]] + flags + [single, "-o", exe]
    else:
        cmd = [cfg["cc"]] + flags + srcs + ["-o", exe]
    p = subprocess.run(cmd, capture_output=True, text=True, timeout=600)
    if p.returncode != 0:
        raise BuildError(f"{config}: compiler exit {p.returncode}", (p.stdout + p.stderr)[-4000:])
    return exe


NATIVE_HELPER = r"""
#define _GNU_SOURCE
#include <signal.h>
#include <string.h>
void drv_native_install(void (*h)(int, siginfo_t *, void *)) {
    struct sigaction sa; memset(&sa, 0, sizeof sa); sa.sa_sigaction = h; sa.sa_flags = SA_SIGINFO;
    sigaction(SIGSEGV, &sa, NULL); sigaction(SIGBUS, &sa, NULL);
}
"""

EMU_STATS: Dict[str, int] = {}


def _build_emulated(directory: str, srcs: List[str], exe: str, cfg: Dict[str, Any], extra_flags: Optional[List[str]]) -> str:
    from . import be_emu
    helper = os.path.join(directory, "drv_native_helper.c")
    with open(helper, "w") as fh:
        fh.write(NATIVE_HELPER)
    try:
        stats = be_emu.build_emulated(srcs, exe, [directory, env.CLIB_DIR], list(extra_flags or []), cfg.get("backend", "-O1"),
                                      workdir=directory, native_sources=[helper], force_le=bool(cfg.get("force_le")))
    except be_emu.Unsupported as e:
        raise BuildError("emulation-unsupported: " + str(e), str(e))
    except RuntimeError as e:
        raise BuildError("emu build failed", str(e))
    for k, v in stats.items():
        EMU_STATS[k] = EMU_STATS.get(k, 0) + v
    return exe


# ----------------------------------------------------------------------------
# talking to the driver
# ----------------------------------------------------------------------------
class Crash:
    def __init__(self, kind: str, detail: str):
        self.kind = kind  # 'FAULT' | 'SANITIZER' | 'EXIT' | 'TIMEOUT'
        self.detail = detail

    def __repr__(self) -> str:
        return f"Crash({self.kind}: {self.detail[:300]})"


SAN_ENV = {
    "ASAN_OPTIONS": "halt_on_error=1:abort_on_error=0:detect_stack_use_after_return=1:detect_leaks=0:exitcode=77",
    "UBSAN_OPTIONS": "halt_on_error=1:print_stacktrace=1:exitcode=78",
}


def run_driver(exe: str, commands: List[str], timeout: float = 120) -> List[Any]:
    """Returns one entry per command: the reply line (str) or a Crash."""
    results: List[Any] = []
    pending = list(commands)
    while pending:
        e = dict(os.environ)
        e.update(SAN_ENV)
        try:
            p = subprocess.run([exe], input="\n".join(pending) + "\nQ\n", capture_output=True, text=True, timeout=timeout, env=e)
        except subprocess.TimeoutExpired as ex:
            out = (ex.stdout or b"").decode() if isinstance(ex.stdout, bytes) else (ex.stdout or "")
            lines = [l for l in out.split("\n") if l]
            results.extend(lines[: len(pending)])
            done = len(lines)
            if done < len(pending):
                results.append(Crash("TIMEOUT", f"no reply within {timeout}s"))
                pending = pending[done + 1:]
                continue
            break
        lines = [l for l in p.stdout.split("\n") if l]
        fault = None
        if lines and lines[-1].startswith("FAULT"):
            fault = lines.pop()
        ok = lines[: len(pending)]
        results.extend(ok)
        if len(ok) == len(pending) and fault is None:
            if p.returncode != 0:
                # crashed after answering everything (e.g. at exit): attribute to the run
                results.append(Crash("EXIT", f"exit {p.returncode}: {p.stderr[-1500:]}"))
            break
        if fault is not None:
            results.append(Crash("FAULT", fault))
        elif "Sanitizer" in p.stderr or "runtime error" in p.stderr:
            results.append(Crash("SANITIZER", p.stderr[-3000:]))
        else:
            results.append(Crash("EXIT", f"exit {p.returncode}: {p.stderr[-1500:]}"))
        pending = pending[len(ok) + 1:]
    return results


def leaves_hex(vals: List[int]) -> str:
    return "".join(format(v & 0xFFFFFFFFFFFFFFFF, "016x") for v in vals)


def parse_leaves(hexs: str) -> List[int]:
    return [int(hexs[k:k + 16], 16) for k in range(0, len(hexs), 16)]


def storage_value(t: Any, raw: int) -> int:
    """Interpret the raw storage bytes (zero-extended to 64 bits by the driver) of a leaf as its C value."""
    nb = leaf_storage_bytes(t) * 8
    raw &= (1 << nb) - 1
    if isinstance(t, Base) and t.kind == "int":
        return ref.to_signed(raw, nb)
    return raw


def leaves_from_reply(m: Message, hexs: str) -> List[int]:
    raws = parse_leaves(hexs)
    items = ref.leaves(m)
    return [storage_value(it.etype, r) for it, r in zip(items, raws)]


# ----------------------------------------------------------------------------
# direct calls into the runtime's bit copier
# ----------------------------------------------------------------------------
RT_DRIVER = DRIVER_PRELUDE + r"""
#include "bitproto.h"
int main(void) {
    PG = sysconf(_SC_PAGESIZE);
#if defined(DRV_EMU_BE)
    drv_native_install(on_fault);
#elif !defined(DRV_ASAN)
    struct sigaction sa; memset(&sa, 0, sizeof sa); sa.sa_sigaction = on_fault; sa.sa_flags = SA_SIGINFO;
    sigaction(SIGSEGV, &sa, NULL); sigaction(SIGBUS, &sa, NULL);
#endif
    char *line = NULL; size_t cap = 0;
    while (getline(&line, &cap, stdin) > 0) {
        if (line[0] == 'Q') break;
        /* C n di si low dsthex srchex : BpCopyBufferBits on exact-fit buffers */
        int n, di, si, low; char dh[4096], sh[4096];
        if (sscanf(line, "C %d %d %d %d %4095s %4095s", &n, &di, &si, &low, dh, sh) != 6) { printf("ERR parse\n"); fflush(stdout); continue; }
        unsigned char tmp[2048];
        size_t dn = unhex(dh, tmp); struct blk db = blk_alloc(dn, low); memcpy(db.p, tmp, dn);
        size_t sn = unhex(sh, tmp); struct blk sb = blk_alloc(sn, low); memcpy(sb.p, tmp, sn);
        cur_op = "BpCopyBufferBits"; cur_idx = n;
        BpCopyBufferBits(n, db.p, sb.p, di, si);
        cur_op = "?";
        int c1 = blk_check(&db), c2 = blk_check(&sb);
        if (c1 || c2) printf("CANARY dst=%d src=%d ", c1, c2); else printf("OK ");
        puthex(db.p, dn); printf(" "); puthex(sb.p, sn); printf("\n"); fflush(stdout);
        blk_free(&db); blk_free(&sb);
    }
    return 0;
}
"""


def build_rt_driver(directory: str, config: str) -> str:
    cfg = CONFIGS[config]
    src = os.path.join(directory, "rtdrv.c")
    with open(src, "w") as fh:
        fh.write(RT_DRIVER)
    exe = os.path.join(directory, f"rtdrv-{config}")
    cmd = [cfg["cc"]] + list(cfg["flags"]) + WARN + ["-I", env.CLIB_DIR, os.path.join(env.CLIB_DIR, "bitproto.c"), src, "-o", exe]
    p = subprocess.run(cmd, capture_output=True, text=True, timeout=300)
    if p.returncode != 0:
        raise BuildError(f"rtdrv {config}: exit {p.returncode}", (p.stdout + p.stderr)[-3000:])
    return exe
