"""Check harness: sharded workers, result merging, verdict discipline, evidence.

A property module calls  harness.main("Cxx", worker, ...).  The parent process
fans out `nshards` worker subprocesses (subprocess with timeout, never
multiprocessing.Pool), merges what the monitors observed and decides:

  exit 0  held on everything explored (KNOWN-FINDING lines allowed)
  exit 1  VIOLATION property=<id> replay=<path>   (unlisted violation)
  exit 2  INCONCLUSIVE property=<id> <why>        (a deciding monitor saw nothing / infrastructure failed)
"""
from __future__ import annotations

import argparse
import hashlib
import json
import os
import shutil
import subprocess
import sys
import tempfile
import time
import traceback
from typing import Any, Callable, Dict, List, Optional

from . import env

KNOWN_FILE = os.path.join(env.VERIF, "known_findings.json")


def sha(*parts: Any) -> str:
    h = hashlib.sha256()
    for p in parts:
        h.update(repr(p).encode())
        h.update(b"\0")
    return h.hexdigest()[:16]


class Result:
    """What one worker observed."""

    def __init__(self) -> None:
        self.evaluations = 0
        self.distinct: set = set()
        self.counters: Dict[str, int] = {}
        self.sets: Dict[str, set] = {}
        self.samples: List[Any] = []
        self.violations: List[Dict[str, Any]] = []
        self.notes: List[str] = []
        self.inconclusive: List[str] = []
        self.budget_exhausted = False

    def count(self, key: str, n: int = 1) -> None:
        self.counters[key] = self.counters.get(key, 0) + n

    def observe(self, key: str, item: Any) -> None:
        self.sets.setdefault(key, set()).add(item if isinstance(item, (str, int)) else json.dumps(item, sort_keys=True, default=str))

    def case(self, nontrivial: bool, *identity: Any) -> None:
        self.evaluations += 1
        if nontrivial:
            self.distinct.add(sha(*identity))

    def sample(self, s: Any, limit: int = 3) -> None:
        if len(self.samples) < limit:
            self.samples.append(s)

    def violation(self, key: str, what: str, witness: Any) -> None:
        """key: mechanism class of the failure (decided by the caller's classifier)."""
        if len(self.violations) < 200:
            self.violations.append({"key": key, "what": what, "witness": witness})
        self.count("violations_raw")

    def to_json(self) -> Dict[str, Any]:
        return {
            "evaluations": self.evaluations,
            "distinct": sorted(self.distinct),
            "counters": self.counters,
            "sets": {k: sorted(v, key=str) for k, v in self.sets.items()},
            "samples": self.samples,
            "violations": self.violations,
            "notes": self.notes,
            "inconclusive": self.inconclusive,
            "budget_exhausted": self.budget_exhausted,
        }

    def merge_json(self, d: Dict[str, Any]) -> None:
        self.evaluations += d["evaluations"]
        self.distinct.update(d["distinct"])
        for k, v in d["counters"].items():
            self.counters[k] = self.counters.get(k, 0) + v
        for k, v in d["sets"].items():
            self.sets.setdefault(k, set()).update(v)
        for s in d["samples"]:
            self.sample(s, 4)
        self.violations.extend(d["violations"])
        self.notes.extend(d["notes"])
        self.inconclusive.extend(d["inconclusive"])
        self.budget_exhausted = self.budget_exhausted or d["budget_exhausted"]


class Ctx:
    """Handed to a worker."""

    def __init__(self, prop: str, tier: str, seed: int, shard: int, nshards: int, replay: Optional[Dict] = None):
        self.prop, self.tier, self.seed, self.shard, self.nshards = prop, tier, seed, shard, nshards
        self.replay = replay
        self.res = Result()
        self.t0 = time.time()
        self.tmp = tempfile.mkdtemp(prefix=f"{prop}-{shard}-", dir=env.scratch_root())
        self.deadline: Optional[float] = None

    def rng(self, *tags: Any):
        import random

        return random.Random(f"{self.seed}:{self.prop}:{self.shard}:" + ":".join(map(str, tags)))

    @property
    def quick(self) -> bool:
        return self.tier == "quick"

    def per_shard(self, total: int) -> int:
        """Number of cases this shard runs so that all shards together run ~total."""
        base, extra = divmod(total, self.nshards)
        return base + (1 if self.shard < extra else 0)

    def set_budget(self, seconds: float) -> None:
        """Wall-clock budget for the phase that starts now.  The first iteration of a phase always runs, so a loaded
        machine shrinks the workload but never empties it (an empty phase would be reported as inconclusive)."""
        # thorough budgets in the property modules are written for a one-hour run; VERIF_BUDGET_SCALE (default 0.4 for the
        # thorough tier, 1 for quick) scales them so that one pass over all twenty thorough checks fits into a working day
        scale = float(os.environ.get("VERIF_BUDGET_SCALE", "1" if self.tier == "quick" else "0.4"))
        self.deadline = time.time() + seconds * scale
        self._polls = 0

    def out_of_time(self) -> bool:
        self._polls = getattr(self, "_polls", 0) + 1
        if self._polls == 1:
            return False
        if self.deadline is not None and time.time() > self.deadline:
            self.res.budget_exhausted = True
            return True
        return False

    def casedir(self, name: Any) -> str:
        d = os.path.join(self.tmp, str(name))
        os.makedirs(d, exist_ok=True)
        return d

    def cleanup(self) -> None:
        shutil.rmtree(self.tmp, ignore_errors=True)


def compile_failed(res: "Result", e: BaseException, wit: Any) -> None:
    """A valid generated schema failed to compile in a property that does not judge acceptance: counted and skipped - unless
    a runtime contract on the compiler fired (ContractBroken) or the failure is an internal exception, which every property
    reports (a contract that is swallowed would turn a broken tree into an empty, inconclusive workload)."""
    name = type(e).__name__
    res.count("skipped_compile_error")
    res.observe("compile_error_classes", f"{name}: {str(e)[:60]}")
    if name == "ContractBroken":
        res.violation("contract:" + str(e).split("(")[0], f"compiler contract broken while compiling a generated schema: {e}", wit)
    elif name in ("TraceViolation",):
        res.violation("monitor:" + name, str(e), wit)
    else:
        try:
            import bitproto.errors as _E
            internal = not isinstance(e, (_E.ParserError, _E.RendererError, OSError))
        except Exception:
            internal = False
        if internal:
            import traceback as _tb
            res.violation(f"compile-internal:{name}", f"compiling a generated valid schema raised {name}: {str(e)[:200]}",
                          {**(wit if isinstance(wit, dict) else {}), "traceback": "".join(_tb.format_exception(type(e), e, e.__traceback__))[-1500:]})


def load_known(prop: str) -> Dict[str, Dict[str, Any]]:
    try:
        with open(KNOWN_FILE) as fh:
            entries = json.load(fh)["findings"]
    except FileNotFoundError:
        return {}
    return {e["key"]: e for e in entries if e["property"] == prop and e.get("status") == "known"}


def run_workers(module: str, prop: str, tier: str, seed: int, nshards: int, timeout: float,
                replay_path: Optional[str]) -> (Result, List[str]):
    outdir = tempfile.mkdtemp(prefix=f"{prop}-out-", dir=env.scratch_root())
    procs = []
    for k in range(nshards):
        out = os.path.join(outdir, f"{k}.json")
        cmd = [env.PYTHON, "-m", module, "--worker", str(k), "--nshards", str(nshards), "--tier", tier, "--out", out]
        if replay_path:
            cmd += ["--replay", replay_path]
        p = subprocess.Popen(cmd, cwd=env.VERIF, env=env.child_env(VERIF_SEED=str(seed)),
                             stdout=subprocess.PIPE, stderr=subprocess.STDOUT, text=True)
        procs.append((k, p, out))
    merged = Result()
    problems: List[str] = []
    t_end = time.time() + timeout
    for k, p, out in procs:
        try:
            log, _ = p.communicate(timeout=max(1.0, t_end - time.time()))
        except subprocess.TimeoutExpired:
            p.kill()
            log, _ = p.communicate()
            problems.append(f"worker {k} hit the {timeout:.0f}s watchdog")
            continue
        if p.returncode != 0 or not os.path.exists(out):
            problems.append(f"worker {k} exit {p.returncode}: {log[-2000:]}")
            continue
        with open(out) as fh:
            merged.merge_json(json.load(fh))
    shutil.rmtree(outdir, ignore_errors=True)
    return merged, problems


def write_replay(prop: str, n: int, v: Dict[str, Any], seed: int, tier: str) -> str:
    d = os.path.join(env.VERIF if env.REPO == "/repo" else env.scratch_root(), "replays", prop)
    os.makedirs(d, exist_ok=True)
    p = os.path.join(d, f"{tier}-seed{seed}-{n}.json")
    with open(p, "w") as fh:
        json.dump({"property": prop, "seed": seed, "tier": tier, **v}, fh, indent=1, default=str)
    return p


def main(prop: str, module: str, worker: Callable[[Ctx], None], *, level: str = "exploration",
         rule: str = "", assumptions: Optional[List[str]] = None, nshards_quick: int = 16,
         nshards_thorough: int = 16, timeout_quick: float = 2700, timeout_thorough: float = 10800,   # generous wall-clock safety nets (a loaded machine is not a verdict)
         required_counters: Optional[List[str]] = None,
         finish: Optional[Callable[[Result, Dict[str, Any]], None]] = None,
         extra_coverage: Optional[Callable[[Result], Dict[str, Any]]] = None) -> None:
    ap = argparse.ArgumentParser()
    ap.add_argument("--tier", default=os.environ.get("VERIF_TIER", "quick"), choices=["quick", "thorough"])
    ap.add_argument("--worker", type=int, default=None)
    ap.add_argument("--nshards", type=int, default=None)
    ap.add_argument("--out", default=None)
    ap.add_argument("--replay", default=None)
    a = ap.parse_args()
    seed = env.seed()

    if a.worker is not None:
        replay = None
        if a.replay:
            with open(a.replay) as fh:
                replay = json.load(fh)
        ctx = Ctx(prop, a.tier, seed, a.worker, a.nshards or 1, replay)
        try:
            env.assert_repo_imports()
            worker(ctx)
        except Exception as e:
            if type(e).__name__ == "ContractBroken":
                # a runtime contract on the real code fired outside any case handler: that is an observation, not a harness failure
                ctx.res.violation("contract:" + str(e).split("(")[0], f"contract broken: {e}", {"traceback": traceback.format_exc()[-2000:]})
            else:
                ctx.res.inconclusive.append("worker crashed: " + traceback.format_exc()[-3000:])
        finally:
            ctx.cleanup()
        with open(a.out, "w") as fh:
            json.dump(ctx.res.to_json(), fh, default=str)
        return

    t0 = time.time()
    if not os.path.isdir(env.DEPS):
        subprocess.run([os.path.join(env.VERIF, "setup.sh")], check=True, stdout=subprocess.DEVNULL)
    paths = env.assert_repo_imports()
    nshards = 1 if a.replay else (nshards_quick if a.tier == "quick" else nshards_thorough)
    timeout = timeout_quick if a.tier == "quick" else timeout_thorough
    res, problems = run_workers(module, prop, a.tier, seed, nshards, timeout, a.replay)
    res.inconclusive.extend(problems)

    known = load_known(prop)
    unlisted, listed = [], {}
    for v in res.violations:
        if v["key"] in known:
            listed.setdefault(v["key"], []).append(v)
        else:
            unlisted.append(v)
    for key, vs in listed.items():
        print(f"KNOWN-FINDING: property={prop} {key}: {known[key]['what']} ({len(vs)} witnesses this run, e.g. {json.dumps(vs[0]['witness'], default=str)[:300]})")
    if unlisted:
        from collections import Counter
        print("unlisted violation keys:", json.dumps(Counter(v["key"] for v in unlisted).most_common(40)))
    replay_paths = []
    seen_keys = set()
    for n, v in enumerate(unlisted):
        if v["key"] in seen_keys:
            continue
        seen_keys.add(v["key"])
        p = write_replay(prop, n, v, seed, a.tier)
        replay_paths.append(p)
        print(f"VIOLATION property={prop} replay={p}")
        print(f"  [{v['key']}] {v['what']}"[:2000])
        if len(replay_paths) >= 12:
            break

    for c in required_counters or []:
        if res.counters.get(c, 0) == 0:
            res.inconclusive.append(f"deciding monitor '{c}' observed zero events")

    coverage: Dict[str, Any] = {
        "evaluations": res.evaluations,
        "distinct_nontrivial": len(res.distinct),
        "rule": rule,
        "samples": res.samples[:4] or ["<none>"],
        "monitor_counters": dict(sorted(res.counters.items())),
        "observed": {k: (sorted(v, key=str) if len(v) <= 40 else {"count": len(v), "first": sorted(v, key=str)[:40]})
                     for k, v in sorted(res.sets.items())},
        "budget_exhausted": res.budget_exhausted,
        "known_findings_seen": {k: len(v) for k, v in listed.items()},
        "unlisted_violations": len(unlisted),
        "repo_paths": paths,
        "shards": nshards,
    }
    if extra_coverage:
        coverage.update(extra_coverage(res))
    ev = {
        "property_id": prop,
        "tier": a.tier,
        "seed": seed,
        "level": level,
        "coverage": coverage,
        "assumptions": assumptions or [],
        "wall_s": round(time.time() - t0, 2),
        "violations": len(unlisted),
    }
    if finish:
        finish(res, ev)
    if not a.replay:
        evdir = os.path.join(env.VERIF, "evidence")
        if env.REPO != "/repo":
            # self-validation run against a scratch copy: never touch the committed evidence
            evdir = os.path.join(env.scratch_root(), "evidence-other-tree")
        os.makedirs(evdir, exist_ok=True)
        with open(os.path.join(evdir, f"{prop}.json"), "w") as fh:
            json.dump(ev, fh, indent=1, default=str)
    summary = {k: v for k, v in coverage["monitor_counters"].items()}
    print(f"{prop} tier={a.tier} seed={seed} evaluations={ev['coverage']['evaluations']} distinct_nontrivial={ev['coverage']['distinct_nontrivial']} "
          f"wall={ev['wall_s']}s counters={json.dumps(summary)[:1500]}")
    if unlisted:
        sys.exit(1)
    if res.inconclusive:
        for why in res.inconclusive[:5]:
            print(f"INCONCLUSIVE property={prop} {why[:1500]}")
        sys.exit(2)
    sys.exit(0)
