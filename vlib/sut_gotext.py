"""sut_gotext -- read and evaluate generated Go text without a Go toolchain.

There is no Go toolchain on the verification machine, so Go output of the
bitproto compiler can never be compiled or executed.  This module is the
replacement: a tokenizer, a recursive-descent parser and a small typed
evaluator for exactly the subset of Go that the bitproto Go renderer emits
(standard mode and optimization mode ``-O``) plus what is needed to read
``lib/go/bitproto.go``.  Nothing in here ever calls ``eval``/``exec`` on Go
text.  Everything is stdlib-only Python 3.12.

SUPPORTED GO SUBSET (anything else raises GoParseError with a line number)
---------------------------------------------------------------------------
Lexical: line comments, general comments, identifiers, keywords, decimal /
hex / octal / binary integer literals (with ``_`` separators), interpreted
string literals ``"..."``, raw string literals, the Go operator set, and Go's
automatic semicolon insertion (a newline or EOF after an identifier, a
literal, one of ``break continue fallthrough return ++ -- ) ] }`` terminates
the statement).  Float, imaginary and rune literals are rejected.

Declarations: ``package x``; ``import "p"``, ``import alias "p"``,
``import ( ... )``; ``const N [T] = expr`` and ``const ( ... )`` blocks
(including implicit repetition with ``iota``); ``var x [T] [= expr]`` and
``var ( ... )``; ``type X T``, ``type X = T``, ``type ( ... )``; functions and
methods with value or pointer receivers, grouped parameters (``j, c int``),
``_`` parameters, zero or one unnamed result (or a parenthesised result list,
kept as text).
Types: names, ``pkg.Name``, ``*T``, ``[]T``, ``[n]T``, ``struct { ... }``
(fields with optional tags, several names per field), ``interface { ... }``
(method signatures and embedded names), ``func(...)...``.
Statements: expression statements, ``=``, ``:=`` and every ``op=`` assignment,
``++``/``--``, ``return``, ``if``/``else if``/``else`` (with optional init),
expression ``switch`` (with optional init / tag, ``case a, b:``,
``default:``), ``for`` (infinite, condition, three-clause, ``range``),
``break``, ``continue``, ``defer``, ``go``, blocks, local ``var``/``const``.
Expressions: identifiers, literals, selectors, index, slice ``a[i:j]``,
calls / conversions, composite literals ``T{...}``, ``&T{...}``,
``[]*p.T{..., }`` (not recognised directly in ``if``/``for``/``switch``
headers, exactly like Go), unary ``+ - ! ^ & *``, parentheses and binary
operators with Go precedence
(5: ``* / % << >> & &^``  4: ``+ - | ^``  3: ``== != < <= > >=``  2: ``&&``
1: ``||``), all left associative.
Not supported: generics, labels, goto, select, channels, type switches, type
assertions, function literals, maps, variadics, multi-name const specs.

EVALUATOR SEMANTICS (class GoEval / load_runtime_helpers)
---------------------------------------------------------
Functions are compiled once into Python closures with *static* Go typing:
every expression has a Go type, or is an untyped constant (integer, boolean
or string) of arbitrary precision.  Type errors that the Go compiler would
report are raised as EvalError when the function is compiled (i.e. on the
first call); run-time panics are raised as EvalError when they happen.

* Integer types: int8/16/32/64, uint8/16/32/64, byte (alias of uint8), int and
  uint (64 bit), uintptr (64 bit); bool; string.  Named types (``type X
  uint8``) are distinct types with the representation of their underlying
  type; arrays, slices, structs, pointers to structs.
* Values: integers are Python ints kept in the range of their type, bools are
  Python bools, arrays and slices are Python lists, structs are dicts
  ``{GoFieldName: value}``; a pointer to a struct is the dict itself.
* Conversions ``T(x)``: integer to integer wraps modulo 2**width and
  reinterprets the bit pattern as signed for signed targets; converting an
  untyped constant that is not representable in T is an error (Go: "constant
  overflows"); bool <-> named bool allowed; integer <-> bool rejected.
* ``+ - * & | ^ &^`` wrap to the width of the operand type.  ``/`` and ``%``
  truncate toward zero (``%`` takes the sign of the dividend); division by
  zero is an error.  Unary ``-`` and ``^`` wrap likewise.
* ``x << n`` has the type of x and wraps to its width; ``x >> n`` is
  arithmetic for signed x and logical for unsigned x.  The shift count may be
  of any integer type or an untyped constant; a negative count is an error
  (compile-time for constants, run-time panic otherwise).
* A binary operation between a typed operand and an untyped constant has the
  typed operand's type; the constant must be representable in that type
  (``byte(x) & 256`` is rejected).  A binary operation (other than a shift)
  between two operands of different types is rejected, e.g. ``uint8 | uint16``
  or ``MyEnum | uint8``.  Comparisons yield an untyped boolean.  ``&&`` and
  ``||`` short-circuit and need boolean operands.
* Assignment needs identical types or a representable untyped constant
  (bool is not assignable to ``type Flag bool`` and vice versa).  ``x op= y``
  is ``x = x op y``.
* Indexing an array/slice checks bounds (constant indices of arrays at compile
  time); index must be an integer.
* Calls: functions without receiver declared in the same file (compiled from
  their parsed bodies, e.g. bool2byte/byte2bool/min), builtins ``make([]T, n)``
  and ``len``.  ``return x`` converts an untyped constant to the result type.
* Supported statements: ``:=`` / ``var`` with one name, assignments, ``++``,
  ``--``, ``if``/``else``, expression ``switch`` without fallthrough,
  ``return``, call statements, blocks, three-clause / condition ``for`` with
  ``break``/``continue``.
* Documented simplifications: (1) typed constant expressions are not tracked,
  so ``int8(100) + int8(100)`` wraps instead of being rejected; (2) if the left
  operand of a non-constant shift is an untyped constant it is converted to
  ``int`` (Go uses the type from the context, which is ``int`` in every place
  where the supported code does this); (3) method calls, pointers other than
  pointer-to-struct receivers, ``&x``, ``*p``, range loops, defer, slices of
  slices and composite literals are not evaluated (EvalError).

STRUCTURAL EXTRACTION (standard mode)
-------------------------------------
``size_constants``, ``size_methods``, ``processor_tree`` and
``accessor_tables`` pattern-match the parsed AST of the generated methods and
return plain dict/list structures; a ``case`` with an unexpected body is
returned with an ``'unparsed'`` key carrying its source text.

STATIC CHECKS
-------------
``static_check`` / ``static_check_text`` implement the part of "the Go
toolchain would accept this file" that can be decided without full type
checking: lexical well-formedness, bracket balance, the grammar above,
imports before all other declarations, duplicate top-level declarations /
methods / struct fields / parameters / case values, a struct field and a
method of the same type with the same name, a top-level name equal to an
import name, unused imports (an import counts as used when ``name.X`` occurs
in a type or expression and ``name`` is not shadowed), locals declared and
never used, ``:=`` without new variables, undeclared identifiers in type and
expression positions, unknown fields/methods on selector chains whose static
type is known from declarations of this file (receiver, parameters, struct
fields, array elements) and, when the imported files are supplied, unknown,
unexported or non-type names in ``pkg.Name``.  Not checked: types of
expressions (the evaluator does that for the functions it runs), missing
returns, unreachable code, initialisation cycles.  An import without alias is
assumed to bind the last path element (true for the standard library
packages the generator uses; the runtime library is always imported with the
explicit alias ``bp``).

PUBLIC API
----------
parse_file, tokenize, type_str, expr_str, stmt_str, GoFile/GoConst/GoVar/
GoType/GoField/GoFunc, size_constants, size_methods, processor_tree,
accessor_tables, GoEval (zero_value, check_value, run_encode, run_decode,
call, call_method, has_func, resolve_type), load_runtime_helpers /
RuntimeHelpers (call, names, signature), static_check, static_check_text,
decode_go_string_literal, go_literal_ok, GoParseError, EvalError.
"""

from __future__ import annotations

import re
from dataclasses import dataclass, field
from typing import Any, Callable, Dict, List, Optional, Tuple

__all__ = [
    "GoParseError", "EvalError", "GoFile", "GoConst", "GoVar", "GoType",
    "GoField", "GoFunc", "tokenize", "parse_file", "type_str", "expr_str",
    "stmt_str", "size_constants", "size_methods", "processor_tree",
    "accessor_tables", "GoEval", "load_runtime_helpers", "RuntimeHelpers",
    "static_check", "static_check_text", "decode_go_string_literal",
    "go_literal_ok",
]


class GoParseError(Exception):
    """Raised for Go text outside the supported subset (carries a line)."""

    def __init__(self, message: str, line: int = 0) -> None:
        super().__init__(f"line {line}: {message}")
        self.message = message
        self.line = line


class EvalError(Exception):
    """Raised where Go would reject the program or panic at run time."""


# ---------------------------------------------------------------------------
# F. Go string literal decoding
# ---------------------------------------------------------------------------

_SIMPLE_ESCAPES = {
    "a": "\a", "b": "\b", "f": "\f", "n": "\n", "r": "\r", "t": "\t",
    "v": "\v", "\\": "\\", '"': '"',
}
_HEXDIGITS = set("0123456789abcdefABCDEF")


def decode_go_string_literal(text: str) -> str:
    """Decode one Go string literal (interpreted ``"..."`` or raw `` `...` ``).

    Follows the Go specification.  Raises ValueError where Go would reject
    the literal: not properly delimited, raw newline or unescaped quote inside
    an interpreted string, unknown escape (including ``\\'``), malformed
    ``\\ooo`` / ``\\xhh`` / ``\\uXXXX`` / ``\\UXXXXXXXX``, octal escape above
    255, surrogate halves or code points above 0x10FFFF.

    ``\\ooo`` and ``\\xhh`` denote single *bytes*; the resulting byte string is
    decoded as UTF-8 (invalid sequences are kept via surrogateescape) so that
    the returned Python ``str`` equals the Go string whenever that is valid
    UTF-8.
    """
    if not isinstance(text, str) or len(text) < 2:
        raise ValueError("not a Go string literal")
    if "\ufeff" in text:
        raise ValueError("raw byte order mark (U+FEFF) inside a literal: Go rejects a BOM anywhere but at the start of the file")
    if text[0] == "`":
        if text[-1] != "`" or "`" in text[1:-1]:
            raise ValueError("raw string literal not terminated properly")
        return text[1:-1].replace("\r", "")
    if text[0] != '"':
        raise ValueError("not a Go string literal")
    if text[-1] != '"':
        raise ValueError("string literal not terminated")
    body = text[1:-1]
    out = bytearray()
    i, n = 0, len(body)
    while i < n:
        ch = body[i]
        if ch == "\n":
            raise ValueError("newline in string literal")
        if ch == '"':
            raise ValueError("unescaped quote inside string literal")
        if ch != "\\":
            out += ch.encode("utf-8", "surrogatepass")
            i += 1
            continue
        i += 1
        if i >= n:
            raise ValueError("string literal not terminated (trailing backslash)")
        e = body[i]
        if e in _SIMPLE_ESCAPES:
            out += _SIMPLE_ESCAPES[e].encode()
            i += 1
        elif e in "01234567":
            digs = body[i:i + 3]
            if len(digs) < 3 or any(d not in "01234567" for d in digs):
                raise ValueError("malformed octal escape")
            v = int(digs, 8)
            if v > 255:
                raise ValueError("octal escape value > 255")
            out.append(v)
            i += 3
        elif e in "xuU":
            cnt = {"x": 2, "u": 4, "U": 8}[e]
            digs = body[i + 1:i + 1 + cnt]
            if len(digs) < cnt or any(d not in _HEXDIGITS for d in digs):
                raise ValueError(f"malformed \\{e} escape")
            v = int(digs, 16)
            if e == "x":
                out.append(v)
            else:
                if v > 0x10FFFF or 0xD800 <= v <= 0xDFFF:
                    raise ValueError("escape is invalid Unicode code point")
                out += chr(v).encode("utf-8")
            i += 1 + cnt
        else:
            raise ValueError(f"unknown escape sequence \\{e}")
    return out.decode("utf-8", "surrogateescape")


def go_literal_ok(text: str) -> bool:
    """True iff *text* is exactly one string literal that Go accepts."""
    try:
        decode_go_string_literal(text)
        return True
    except ValueError:
        return False


# ---------------------------------------------------------------------------
# A1. Tokenizer
# ---------------------------------------------------------------------------

KEYWORDS = frozenset(
    "break case chan const continue default defer else fallthrough for func go "
    "goto if import interface map package range return select struct switch "
    "type var".split()
)

_OPERATORS = [
    "<<=", ">>=", "&^=", "...", "&&", "||", "<-", "++", "--", "==", "!=", "<=",
    ">=", ":=", "+=", "-=", "*=", "/=", "%=", "&=", "|=", "^=", "<<", ">>",
    "&^", "+", "-", "*", "/", "%", "&", "|", "^", "<", ">", "=", "!", "(", ")",
    "[", "]", "{", "}", ",", ";", ".", ":", "~",
]

_TOKEN_RE = re.compile(
    r"""
    (?P<ws>[ \t\r]+)
  | (?P<nl>\n)
  | (?P<lc>//[^\n]*)
  | (?P<gc>/\*.*?\*/)
  | (?P<badgc>/\*)
  | (?P<ident>[^\W\d]\w*)
  | (?P<float>(?:\d[\d_]*\.[\d_]*(?:[eE][+-]?\d+)?|\.\d[\d_]*(?:[eE][+-]?\d+)?|\d[\d_]*[eE][+-]?\d+)i?)
  | (?P<int>0[xX][0-9a-fA-F_]+|0[bB][01_]+|0[oO][0-7_]+|\d[\d_]*)
  | (?P<str>"(?:[^"\\\n]|\\.)*")
  | (?P<badstr>"(?:[^"\\\n]|\\.)*)
  | (?P<raw>`[^`]*`)
  | (?P<badraw>`)
  | (?P<rune>'(?:[^'\\\n]|\\.)*'?)
  | (?P<op>""" + "|".join(re.escape(o) for o in _OPERATORS) + r""")
    """,
    re.VERBOSE | re.DOTALL,
)

# Token: (kind, value, line, start_offset, end_offset)
#   kind in: 'ident', 'kw', 'int', 'str' (interpreted), 'raw', 'op'
#   automatic semicolons are ('op', ';', line, off, off) with zero length
Token = Tuple[str, Any, int, int, int]

_SEMI_AFTER_OPS = frozenset(["++", "--", ")", "]", "}"])
_SEMI_AFTER_KWS = frozenset(["break", "continue", "fallthrough", "return"])


def _parse_int_literal(text: str, line: int) -> int:
    t = text.replace("_", "")
    try:
        if len(t) > 1 and t[0] == "0" and t[1] in "xXbBoO":
            return int(t, 0)
        if len(t) > 1 and t[0] == "0":
            return int(t, 8)  # legacy octal
        return int(t, 10)
    except ValueError:
        raise GoParseError(f"malformed integer literal {text!r}", line)


def tokenize(text: str) -> List[Token]:
    """Tokenize Go source text with automatic semicolon insertion.

    Raises GoParseError for unterminated strings/comments, unsupported literal
    kinds and stray characters.
    """
    toks: List[Token] = []
    pos, n, line = 0, len(text), 1
    # Go specification, "Source code representation": a byte order mark is only tolerated as the very first code point
    # (gc: "invalid BOM in the middle of the file", go/scanner: "illegal byte order mark"), and gc disallows NUL anywhere -
    # inside comments and string literals as well.
    k = text.find("\ufeff", 1)
    if k >= 0:
        raise GoParseError("illegal byte order mark (U+FEFF) in the middle of the file", text.count("\n", 0, k) + 1)
    k = text.find("\x00")
    if k >= 0:
        raise GoParseError("illegal character NUL", text.count("\n", 0, k) + 1)
    match = _TOKEN_RE.match
    need_semi = False  # would a newline here insert a semicolon?
    while pos < n:
        m = match(text, pos)
        if m is None:
            raise GoParseError(f"unexpected character {text[pos]!r}", line)
        kind = m.lastgroup
        end = m.end()
        if kind == "ws":
            pos = end
            continue
        if kind == "nl" or kind == "lc":
            if need_semi:
                toks.append(("op", ";", line, pos, pos))
                need_semi = False
            if kind == "nl":
                line += 1
            pos = end
            continue
        if kind == "gc":
            nls = text.count("\n", pos, end)
            if nls and need_semi:
                toks.append(("op", ";", line, pos, pos))
                need_semi = False
            line += nls
            pos = end
            continue
        val = m.group()
        if kind == "ident":
            if val in KEYWORDS:
                toks.append(("kw", val, line, pos, end))
                need_semi = val in _SEMI_AFTER_KWS
            else:
                toks.append(("ident", val, line, pos, end))
                need_semi = True
        elif kind == "op":
            toks.append(("op", val, line, pos, end))
            need_semi = val in _SEMI_AFTER_OPS
        elif kind == "int":
            toks.append(("int", _parse_int_literal(val, line), line, pos, end))
            need_semi = True
        elif kind == "str":
            toks.append(("str", val, line, pos, end))
            need_semi = True
        elif kind == "raw":
            toks.append(("raw", val, line, pos, end))
            line += val.count("\n")
            need_semi = True
        elif kind == "badgc":
            raise GoParseError("comment not terminated", line)
        elif kind == "badstr":
            raise GoParseError("string literal not terminated", line)
        elif kind == "badraw":
            raise GoParseError("raw string literal not terminated", line)
        elif kind == "float":
            raise GoParseError(f"floating-point/imaginary literal {val!r} is not supported", line)
        elif kind == "rune":
            raise GoParseError(f"rune literal {val!r} is not supported", line)
        else:  # pragma: no cover
            raise GoParseError(f"unexpected token {val!r}", line)
        pos = end
    if need_semi:
        toks.append(("op", ";", line, n, n))
    toks.append(("eof", None, line, n, n))
    return toks


# ---------------------------------------------------------------------------
# A2. AST
# ---------------------------------------------------------------------------
#
# Type expressions (tuples):
#   ('name', 'int32')            ('qual', 'pkg', 'Name')
#   ('ptr', T)   ('slice', T)    ('array', length_expr, T)  length_expr is an expression
#   ('struct', [GoField...])     ('interface', [(name|None, text)...])
#   ('func', text)
# Expressions (tuples, last element is always the line number):
#   ('ident', name, line)        ('int', value, line)      ('str', value, text, line)
#   ('sel', X, name, line)       ('index', X, I, line)     ('slice', X, lo, hi, line)
#   ('call', F, [args], line)    ('unary', op, X, line)    ('binary', op, L, R, line)
#   ('paren', X, line)           ('complit', T|None, [(key|None, value)...], line)
#   ('type', T, line)            -- a type used in expression position
# Statements (tuples, last element is the line number):
#   ('expr', X, line)            ('assign', op, [lhs], [rhs], line)
#   ('incdec', X, op, line)      ('return', [X], line)
#   ('if', init|None, cond, [stmts], else_stmt|None, line)     else_stmt: ('if',..)|('block',..)
#   ('switch', init|None, tag|None, [clause...], line)
#        clause = (exprs|None, [stmts], line, (src_start, src_end))   exprs None = default
#   ('for', init|None, cond|None, post|None, [stmts], line)
#   ('range', key|None, value|None, define:bool, X, [stmts], line)
#   ('block', [stmts], line)     ('break', line)   ('continue', line)
#   ('defer', X, line)  ('go', X, line)
#   ('var', name, T|None, X|None, line)    ('const', name, T|None, X|None, line)


@dataclass
class GoField:
    name: str
    type: tuple                 # type expression, see type_str()
    tag: Optional[str] = None   # json tag name, e.g. 'status'
    raw_tag: Optional[str] = None
    line: int = 0

    @property
    def type_str(self) -> str:
        return type_str(self.type)


@dataclass
class GoType:
    name: str
    kind: str                   # 'named' | 'array' | 'struct' | 'interface' | 'other'
    expr: tuple                 # full type expression
    underlying: Optional[str] = None    # kind == 'named'
    length: Optional[int] = None        # kind == 'array'
    elem: Optional[str] = None          # kind == 'array' (type_str of the element)
    elem_expr: Optional[tuple] = None
    fields: List[GoField] = field(default_factory=list)   # kind == 'struct'
    is_alias: bool = False      # `type X = T`
    line: int = 0


@dataclass
class GoConst:
    name: str
    type: Optional[str]
    value_text: str
    value: Any                  # int | bool | str | None (not a constant expression we can fold)
    expr: Optional[tuple] = None
    in_block: bool = False
    line: int = 0


@dataclass
class GoVar:
    name: str
    type: Optional[str]
    expr: Optional[tuple]
    line: int = 0


@dataclass
class GoFunc:
    name: str
    recv_type: Optional[str]
    recv_ptr: bool
    recv_name: Optional[str]
    params: List[Tuple[str, str]]
    result: Optional[str]
    body: List[tuple]
    param_types: List[tuple] = field(default_factory=list)   # type expressions
    result_type: Optional[tuple] = None
    line: int = 0
    src: Tuple[int, int] = (0, 0)

    @property
    def qualname(self) -> str:
        return f"{self.recv_type}.{self.name}" if self.recv_type else self.name


@dataclass
class GoFile:
    package: str = ""
    imports: List[Tuple[Optional[str], str]] = field(default_factory=list)
    import_lines: List[int] = field(default_factory=list)
    consts: List[GoConst] = field(default_factory=list)
    vars: List[GoVar] = field(default_factory=list)
    types: Dict[str, GoType] = field(default_factory=dict)
    type_list: List[GoType] = field(default_factory=list)  # with duplicates, source order
    funcs: List[GoFunc] = field(default_factory=list)
    top_level_names: List[str] = field(default_factory=list)
    methods: List[str] = field(default_factory=list)
    decl_order: List[Tuple[str, str, int]] = field(default_factory=list)  # (kind, name, line)
    text: str = ""

    def func(self, name: str, recv_type: Optional[str] = None) -> Optional[GoFunc]:
        for f in self.funcs:
            if f.name == name and f.recv_type == recv_type:
                return f
        return None

    def source(self, span: Tuple[int, int]) -> str:
        return self.text[span[0]:span[1]]


def type_str(t: Any) -> str:
    """Canonical Go spelling of a type expression, e.g. ``[4]Propeller``."""
    if t is None:
        return ""
    if isinstance(t, str):
        return t
    k = t[0]
    if k == "name":
        return t[1]
    if k == "qual":
        return f"{t[1]}.{t[2]}"
    if k == "ptr":
        return "*" + type_str(t[1])
    if k == "slice":
        return "[]" + type_str(t[1])
    if k == "array":
        return f"[{expr_str(t[1])}]" + type_str(t[2])
    if k == "struct":
        inner = "; ".join(f"{f.name} {type_str(f.type)}" for f in t[1])
        return "struct{" + inner + "}"
    if k == "interface":
        return "interface{" + "; ".join(x[1] for x in t[1]) + "}"
    if k == "func":
        return t[1]
    raise ValueError(f"unknown type expression {t!r}")


_PREC = {
    "||": 1, "&&": 2,
    "==": 3, "!=": 3, "<": 3, "<=": 3, ">": 3, ">=": 3,
    "+": 4, "-": 4, "|": 4, "^": 4,
    "*": 5, "/": 5, "%": 5, "<<": 5, ">>": 5, "&": 5, "&^": 5,
}


def expr_str(e: Any) -> str:
    """Unparse an expression AST to canonical Go text (fully faithful to the
    tree: parentheses in the source are 'paren' nodes and are kept)."""
    if e is None:
        return ""
    k = e[0]
    if k == "ident":
        return e[1]
    if k == "int":
        return str(e[1])
    if k == "str":
        return e[2]
    if k == "sel":
        return f"{expr_str(e[1])}.{e[2]}"
    if k == "index":
        return f"{expr_str(e[1])}[{expr_str(e[2])}]"
    if k == "slice":
        return f"{expr_str(e[1])}[{expr_str(e[2])}:{expr_str(e[3])}]"
    if k == "call":
        return f"{expr_str(e[1])}({', '.join(expr_str(a) for a in e[2])})"
    if k == "unary":
        return f"{e[1]}{expr_str(e[2])}"
    if k == "binary":
        return f"{expr_str(e[2])} {e[1]} {expr_str(e[3])}"
    if k == "paren":
        return f"({expr_str(e[1])})"
    if k == "complit":
        els = ", ".join((expr_str(kk) + ": " if kk is not None else "") + expr_str(v)
                        for kk, v in e[2])
        return f"{type_str(e[1])}{{{els}}}"
    if k == "type":
        return type_str(e[1])
    raise ValueError(f"unknown expression node {e!r}")


def stmt_str(s: Any) -> str:
    """Unparse a statement AST to one line of Go-like text (for messages)."""
    k = s[0]
    if k == "expr":
        return expr_str(s[1])
    if k == "assign":
        return f"{', '.join(map(expr_str, s[2]))} {s[1]} {', '.join(map(expr_str, s[3]))}"
    if k == "incdec":
        return expr_str(s[1]) + s[2]
    if k == "return":
        return ("return " + ", ".join(map(expr_str, s[1]))).rstrip()
    if k == "block":
        return "{ " + "; ".join(map(stmt_str, s[1])) + " }"
    if k == "if":
        init = stmt_str(s[1]) + "; " if s[1] else ""
        r = f"if {init}{expr_str(s[2])} {{ " + "; ".join(map(stmt_str, s[3])) + " }"
        if s[4]:
            r += " else " + stmt_str(s[4])
        return r
    if k == "switch":
        init = stmt_str(s[1]) + "; " if s[1] else ""
        parts = []
        for exprs, body, _l, _sp in s[3]:
            head = "default:" if exprs is None else "case " + ", ".join(map(expr_str, exprs)) + ":"
            parts.append(head + " " + "; ".join(map(stmt_str, body)))
        return f"switch {init}{expr_str(s[2])} {{ " + " ".join(parts) + " }"
    if k == "for":
        return (f"for {stmt_str(s[1]) if s[1] else ''}; {expr_str(s[2])}; "
                f"{stmt_str(s[3]) if s[3] else ''} {{ " + "; ".join(map(stmt_str, s[4])) + " }")
    if k == "range":
        return f"for ... range {expr_str(s[4])} {{ " + "; ".join(map(stmt_str, s[5])) + " }"
    if k in ("break", "continue"):
        return k
    if k in ("defer", "go"):
        return f"{k} {expr_str(s[1])}"
    if k in ("var", "const"):
        r = f"{k} {s[1]}"
        if s[2] is not None:
            r += " " + type_str(s[2])
        if s[3] is not None:
            r += " = " + expr_str(s[3])
        return r
    raise ValueError(f"unknown statement node {s!r}")


# ---------------------------------------------------------------------------
# A3. Parser
# ---------------------------------------------------------------------------

_ASSIGN_OPS = frozenset(["=", ":=", "+=", "-=", "*=", "/=", "%=", "&=", "|=", "^=",
                         "<<=", ">>=", "&^="])
_UNARY_OPS = frozenset(["+", "-", "!", "^", "&", "*"])
_JSON_TAG_RE = re.compile(r'json:"([^",]*)[^"]*"')


class _Parser:
    def __init__(self, text: str) -> None:
        self.text = text
        self.toks = tokenize(text)
        self.i = 0
        self.nolit = 0  # >0: composite literals `T{` not recognised (control clause headers)

    # -- token helpers ------------------------------------------------------
    def err(self, msg: str, tok: Optional[Token] = None) -> GoParseError:
        tok = tok or self.toks[self.i]
        return GoParseError(msg, tok[2])

    def peek_is(self, kind: str, val: Any = None) -> bool:
        t = self.toks[self.i]
        return t[0] == kind and (val is None or t[1] == val)

    def is_op(self, val: str) -> bool:
        t = self.toks[self.i]
        return t[0] == "op" and t[1] == val

    def is_kw(self, val: str) -> bool:
        t = self.toks[self.i]
        return t[0] == "kw" and t[1] == val

    def next(self) -> Token:
        t = self.toks[self.i]
        self.i += 1
        return t

    def describe(self, t: Token) -> str:
        if t[0] == "eof":
            return "end of file"
        if t[0] == "op" and t[1] == ";" and t[3] == t[4]:
            return "newline"
        return repr(self.text[t[3]:t[4]])

    def expect_op(self, val: str) -> Token:
        t = self.toks[self.i]
        if t[0] != "op" or t[1] != val:
            raise self.err(f"expected {val!r}, found {self.describe(t)}")
        self.i += 1
        return t

    def expect_kw(self, val: str) -> Token:
        t = self.toks[self.i]
        if t[0] != "kw" or t[1] != val:
            raise self.err(f"expected keyword {val!r}, found {self.describe(t)}")
        self.i += 1
        return t

    def expect_ident(self) -> Token:
        t = self.toks[self.i]
        if t[0] != "ident":
            raise self.err(f"expected identifier, found {self.describe(t)}")
        self.i += 1
        return t

    def skip_semi(self) -> None:
        """Consume a statement terminator: ';' (optional before ')' or '}')."""
        t = self.toks[self.i]
        if t[0] == "op" and t[1] == ";":
            self.i += 1
        elif t[0] == "op" and t[1] in (")", "}"):
            pass
        elif t[0] == "eof":
            pass
        else:
            raise self.err(f"expected ';' or newline, found {self.describe(t)}")

    # -- file ---------------------------------------------------------------
    def parse_file(self) -> GoFile:
        gf = GoFile(text=self.text)
        while self.is_op(";"):
            self.i += 1
        self.expect_kw("package")
        gf.package = self.expect_ident()[1]
        self.skip_semi()
        while not self.peek_is("eof"):
            t = self.toks[self.i]
            if t[0] == "op" and t[1] == ";":
                self.i += 1
                continue
            if t[0] != "kw":
                raise self.err(f"expected declaration, found {self.describe(t)}")
            kw = t[1]
            if kw == "import":
                self.parse_import(gf)
            elif kw == "const":
                self.parse_const_decl(gf)
            elif kw == "var":
                self.parse_var_decl(gf)
            elif kw == "type":
                self.parse_type_decl(gf)
            elif kw == "func":
                self.parse_func_decl(gf)
            else:
                raise self.err(f"unsupported top-level construct {kw!r}")
            self.skip_semi()
        return gf

    def parse_import(self, gf: GoFile) -> None:
        line = self.expect_kw("import")[2]
        gf.decl_order.append(("import", "", line))

        def spec() -> None:
            alias = None
            t = self.toks[self.i]
            if t[0] == "ident":
                alias = t[1]
                self.i += 1
            elif t[0] == "op" and t[1] == ".":
                raise self.err("dot imports are not supported")
            t = self.toks[self.i]
            if t[0] not in ("str", "raw"):
                raise self.err(f"expected import path string, found {self.describe(t)}")
            self.i += 1
            try:
                path = decode_go_string_literal(t[1])
            except ValueError as e:
                raise self.err(f"bad import path literal: {e}", t)
            gf.imports.append((alias, path))
            gf.import_lines.append(t[2])

        if self.is_op("("):
            self.i += 1
            while not self.is_op(")"):
                if self.is_op(";"):
                    self.i += 1
                    continue
                spec()
                self.skip_semi()
            self.expect_op(")")
        else:
            spec()

    def parse_const_decl(self, gf: Optional[GoFile]) -> List[tuple]:
        """Parses `const ...`.  With gf: records GoConst entries.  Returns
        local const statements otherwise."""
        self.expect_kw("const")
        out: List[tuple] = []
        env: Dict[str, Any] = {c.name: c.value for c in gf.consts} if gf else {}

        def spec(iota: int, prev: Optional[Tuple[Optional[tuple], Optional[tuple], str]],
                 in_block: bool):
            nt = self.expect_ident()
            if self.is_op(","):
                raise self.err("multi-name const specs are not supported")
            ctype = None
            if not self.is_op("=") and not self.is_op(";") and not self.is_op(")"):
                ctype = self.parse_type()
            if self.is_op("="):
                self.i += 1
                s = self.toks[self.i][3]
                e = self.parse_expr()
                text = self.text[s:self.toks[self.i - 1][4]]
            else:
                if prev is None or ctype is not None:
                    raise self.err("const declaration without value", nt)
                ctype, e, text = prev  # implicit repetition
            value = _fold_const(e, env, iota)
            if gf is not None:
                gf.consts.append(GoConst(nt[1], type_str(ctype) if ctype else None, text,
                                         value, e, in_block, nt[2]))
                gf.top_level_names.append(nt[1])
                gf.decl_order.append(("const", nt[1], nt[2]))
            else:
                out.append(("const", nt[1], ctype, e, nt[2]))
            env[nt[1]] = value
            return (ctype, e, text)

        if self.is_op("("):
            self.i += 1
            iota, prev = 0, None
            while not self.is_op(")"):
                if self.is_op(";"):
                    self.i += 1
                    continue
                prev = spec(iota, prev, True)
                iota += 1
                self.skip_semi()
            self.expect_op(")")
        else:
            spec(0, None, False)
        return out

    def parse_var_spec(self) -> Tuple[Token, Optional[tuple], Optional[tuple]]:
        nt = self.toks[self.i]
        if nt[0] != "ident":
            raise self.err(f"expected identifier, found {self.describe(nt)}")
        self.i += 1
        if self.is_op(","):
            raise self.err("multi-name var specs are not supported")
        vtype = None
        if not self.is_op("="):
            vtype = self.parse_type()
        e = None
        if self.is_op("="):
            self.i += 1
            e = self.parse_expr()
        return nt, vtype, e

    def parse_var_decl(self, gf: GoFile) -> None:
        self.expect_kw("var")

        def spec() -> None:
            nt, vtype, e = self.parse_var_spec()
            gf.vars.append(GoVar(nt[1], type_str(vtype) if vtype else None, e, nt[2]))
            gf.top_level_names.append(nt[1])
            gf.decl_order.append(("var", nt[1], nt[2]))

        if self.is_op("("):
            self.i += 1
            while not self.is_op(")"):
                if self.is_op(";"):
                    self.i += 1
                    continue
                spec()
                self.skip_semi()
            self.expect_op(")")
        else:
            spec()

    def parse_type_decl(self, gf: GoFile) -> None:
        self.expect_kw("type")

        def spec() -> None:
            nt = self.expect_ident()
            is_alias = False
            if self.is_op("="):
                self.i += 1
                is_alias = True
            t = self.parse_type()
            gt = _make_gotype(nt[1], t, is_alias, nt[2])
            gf.type_list.append(gt)
            gf.types.setdefault(nt[1], gt)
            gf.top_level_names.append(nt[1])
            gf.decl_order.append(("type", nt[1], nt[2]))

        if self.is_op("("):
            self.i += 1
            while not self.is_op(")"):
                if self.is_op(";"):
                    self.i += 1
                    continue
                spec()
                self.skip_semi()
            self.expect_op(")")
        else:
            spec()

    def parse_params(self) -> List[Tuple[str, tuple]]:
        """Parses `( ... )` parameter list; returns [(name, type)] (name '' if unnamed)."""
        self.expect_op("(")
        raw: List[Tuple[Optional[str], Optional[tuple]]] = []
        while not self.is_op(")"):
            if self.is_op("..."):
                raise self.err("variadic parameters are not supported")
            # Either `name Type`, `name` (grouped, type follows later) or `Type`
            t = self.toks[self.i]
            if t[0] == "ident":
                nxt = self.toks[self.i + 1]
                if nxt[0] == "op" and nxt[1] in (",", ")"):
                    # lone identifier: name of a group or an unnamed type
                    self.i += 1
                    raw.append((t[1], None))
                elif nxt[0] == "op" and nxt[1] == ".":
                    raw.append((None, self.parse_type()))
                else:
                    self.i += 1
                    if self.is_op("..."):
                        raise self.err("variadic parameters are not supported")
                    raw.append((t[1], self.parse_type()))
            else:
                raw.append((None, self.parse_type()))
            if self.is_op(","):
                self.i += 1
            elif not self.is_op(")"):
                raise self.err(f"expected ',' or ')', found {self.describe(self.toks[self.i])}")
        self.expect_op(")")
        named = any(n is not None and t is not None for n, t in raw)
        out: List[Tuple[str, tuple]] = []
        if named:
            pending: List[str] = []
            for n, t in raw:
                if n is None:
                    raise self.err("mixed named and unnamed parameters")
                if t is None:
                    pending.append(n)
                else:
                    for p in pending:
                        out.append((p, t))
                    pending = []
                    out.append((n, t))
            if pending:
                raise self.err("parameter without type")
        else:
            for n, t in raw:
                out.append(("", t if t is not None else ("name", n)))
        return out

    def parse_func_decl(self, gf: GoFile) -> None:
        ft = self.expect_kw("func")
        recv_type = recv_name = None
        recv_ptr = False
        if self.is_op("("):
            rp = self.parse_params()
            if len(rp) != 1:
                raise self.err("method receiver must be a single parameter", ft)
            recv_name, rt = rp[0]
            if rt[0] == "ptr":
                recv_ptr = True
                rt = rt[1]
            if rt[0] != "name":
                raise self.err("unsupported receiver type " + type_str(rt), ft)
            recv_type = rt[1]
        nt = self.expect_ident()
        if self.is_op("["):
            raise self.err("generic functions are not supported")
        params = self.parse_params()
        result_type = None
        result = None
        if self.is_op("("):
            s = self.toks[self.i][3]
            rl = self.parse_params()
            if len(rl) == 1 and rl[0][0] == "":
                result_type = rl[0][1]
                result = type_str(result_type)
            elif rl:
                result = self.text[s:self.toks[self.i - 1][4]]
                result_type = ("func", result)
        elif not self.is_op("{") and not self.is_op(";"):
            result_type = self.parse_type()
            result = type_str(result_type)
        if not self.is_op("{"):
            raise self.err("function declaration without body is not supported")
        s = ft[3]
        body = self.parse_block()
        fn = GoFunc(nt[1], recv_type, recv_ptr, recv_name,
                    [(n, type_str(t)) for n, t in params], result, body,
                    [t for _, t in params], result_type, ft[2],
                    (s, self.toks[self.i - 1][4]))
        gf.funcs.append(fn)
        if recv_type is None:
            gf.top_level_names.append(nt[1])
            gf.decl_order.append(("func", nt[1], ft[2]))
        else:
            gf.methods.append(f"{recv_type}.{nt[1]}")
            gf.decl_order.append(("method", f"{recv_type}.{nt[1]}", ft[2]))

    # -- types --------------------------------------------------------------
    def parse_type(self) -> tuple:
        t = self.toks[self.i]
        if t[0] == "ident":
            self.i += 1
            if self.is_op(".") and self.toks[self.i + 1][0] == "ident":
                self.i += 1
                n2 = self.next()
                return ("qual", t[1], n2[1])
            return ("name", t[1])
        if t[0] == "op":
            if t[1] == "*":
                self.i += 1
                return ("ptr", self.parse_type())
            if t[1] == "(":
                self.i += 1
                inner = self.parse_type()
                self.expect_op(")")
                return inner
            if t[1] == "[":
                self.i += 1
                if self.is_op("]"):
                    self.i += 1
                    return ("slice", self.parse_type())
                if self.is_op("..."):
                    raise self.err("[...]T arrays are not supported")
                length = self.parse_expr()
                self.expect_op("]")
                return ("array", length, self.parse_type())
        if t[0] == "kw":
            if t[1] == "struct":
                return self.parse_struct_type()
            if t[1] == "interface":
                return self.parse_interface_type()
            if t[1] == "func":
                s = t[3]
                self.i += 1
                self.parse_params()
                if self.is_op("("):
                    self.parse_params()
                elif self._starts_type():
                    self.parse_type()
                return ("func", self.text[s:self.toks[self.i - 1][4]])
            if t[1] in ("map", "chan"):
                raise self.err(f"{t[1]} types are not supported")
        raise self.err(f"expected type, found {self.describe(t)}")

    def _starts_type(self) -> bool:
        t = self.toks[self.i]
        if t[0] == "ident":
            return True
        if t[0] == "op":
            return t[1] in ("*", "[", "(")
        if t[0] == "kw":
            return t[1] in ("struct", "interface", "func", "map", "chan")
        return False

    def parse_struct_type(self) -> tuple:
        self.expect_kw("struct")
        self.expect_op("{")
        fields: List[GoField] = []
        while not self.is_op("}"):
            if self.is_op(";"):
                self.i += 1
                continue
            first = self.toks[self.i]
            names: List[Token] = []
            if first[0] == "ident" and not (self.toks[self.i + 1][0] == "op"
                                             and self.toks[self.i + 1][1] in (".", ";", "}")) \
                    and self.toks[self.i + 1][0] not in ("str", "raw"):
                names.append(self.next())
                while self.is_op(","):
                    self.i += 1
                    names.append(self.expect_ident())
                ftype = self.parse_type()
            else:
                # embedded field
                ftype = self.parse_type()
                base = ftype[1] if ftype[0] == "ptr" else ftype
                if base[0] not in ("name", "qual"):
                    raise self.err("unsupported embedded field", first)
                names.append(("ident", base[-1], first[2], first[3], first[4]))
            raw_tag = tag = None
            tt = self.toks[self.i]
            if tt[0] in ("str", "raw"):
                self.i += 1
                try:
                    raw_tag = decode_go_string_literal(tt[1])
                except ValueError as e:
                    raise self.err(f"bad struct tag literal: {e}", tt)
                m = _JSON_TAG_RE.search(raw_tag)
                tag = m.group(1) if m else None
            for nt in names:
                fields.append(GoField(nt[1], ftype, tag, raw_tag, nt[2]))
            self.skip_semi()
        self.expect_op("}")
        return ("struct", fields)

    def parse_interface_type(self) -> tuple:
        self.expect_kw("interface")
        self.expect_op("{")
        items: List[Tuple[Optional[str], str]] = []
        while not self.is_op("}"):
            if self.is_op(";"):
                self.i += 1
                continue
            s = self.toks[self.i][3]
            nt = self.toks[self.i]
            if nt[0] == "ident" and self.toks[self.i + 1][0] == "op" and self.toks[self.i + 1][1] == "(":
                self.i += 1
                self.parse_params()
                if self.is_op("("):
                    self.parse_params()
                elif not self.is_op(";") and not self.is_op("}"):
                    self.parse_type()
                items.append((nt[1], self.text[s:self.toks[self.i - 1][4]]))
            else:
                self.parse_type()
                items.append((None, self.text[s:self.toks[self.i - 1][4]]))
            self.skip_semi()
        self.expect_op("}")
        return ("interface", items)

    # -- statements ---------------------------------------------------------
    def parse_block(self) -> List[tuple]:
        self.expect_op("{")
        saved, self.nolit = self.nolit, 0
        stmts = self.parse_stmt_list()
        self.nolit = saved
        self.expect_op("}")
        return stmts

    def parse_stmt_list(self) -> List[tuple]:
        stmts: List[tuple] = []
        while True:
            t = self.toks[self.i]
            if t[0] == "op" and t[1] == ";":
                self.i += 1
                continue
            if t[0] == "op" and t[1] == "}":
                break
            if t[0] == "kw" and t[1] in ("case", "default"):
                break
            if t[0] == "eof":
                raise self.err("unexpected end of file inside block")
            r = self.parse_stmt()
            if isinstance(r, list):
                stmts.extend(r)
            else:
                stmts.append(r)
            self.skip_semi()
        return stmts

    def parse_stmt(self) -> Any:
        t = self.toks[self.i]
        line = t[2]
        if t[0] == "kw":
            kw = t[1]
            if kw == "return":
                self.i += 1
                exprs: List[tuple] = []
                if not self.is_op(";") and not self.is_op("}"):
                    exprs.append(self.parse_expr())
                    while self.is_op(","):
                        self.i += 1
                        exprs.append(self.parse_expr())
                return ("return", exprs, line)
            if kw == "if":
                return self.parse_if()
            if kw == "switch":
                return self.parse_switch()
            if kw == "for":
                return self.parse_for()
            if kw in ("break", "continue"):
                self.i += 1
                if self.peek_is("ident"):
                    raise self.err("labels are not supported")
                return (kw, line)
            if kw in ("defer", "go"):
                self.i += 1
                return (kw, self.parse_expr(), line)
            if kw == "var":
                self.i += 1
                if self.is_op("("):
                    raise self.err("local var blocks are not supported")
                nt, vtype, e = self.parse_var_spec()
                return ("var", nt[1], vtype, e, nt[2])
            if kw == "const":
                return self.parse_const_decl(None)
            if kw in ("func", "struct", "interface"):
                pass  # expression / type starting with keyword: fall through
            else:
                raise self.err(f"unsupported statement {kw!r}")
        if t[0] == "op" and t[1] == "{":
            return ("block", self.parse_block(), line)
        return self.parse_simple_stmt()

    def parse_simple_stmt(self) -> tuple:
        line = self.toks[self.i][2]
        lhs = [self.parse_expr()]
        while self.is_op(","):
            self.i += 1
            lhs.append(self.parse_expr())
        t = self.toks[self.i]
        if t[0] == "op":
            if t[1] in _ASSIGN_OPS:
                self.i += 1
                if self.is_kw("range"):
                    raise self.err("range clause outside for statement")
                rhs = [self.parse_expr()]
                while self.is_op(","):
                    self.i += 1
                    rhs.append(self.parse_expr())
                if t[1] not in ("=", ":=") and (len(lhs) != 1 or len(rhs) != 1):
                    raise self.err(f"assignment operation {t[1]} requires single-valued expressions", t)
                if t[1] == ":=":
                    for x in lhs:
                        if x[0] != "ident":
                            raise self.err("non-name on left side of :=", t)
                return ("assign", t[1], lhs, rhs, line)
            if t[1] in ("++", "--"):
                self.i += 1
                if len(lhs) != 1:
                    raise self.err("unexpected ++/--", t)
                return ("incdec", lhs[0], t[1], line)
            if t[1] == ":" and len(lhs) == 1 and lhs[0][0] == "ident":
                raise self.err("labels are not supported")
        if len(lhs) != 1:
            raise self.err(f"expected assignment, found {self.describe(t)}")
        return ("expr", lhs[0], line)

    def parse_if(self) -> tuple:
        line = self.expect_kw("if")[2]
        self.nolit += 1
        init = None
        if self.is_op(";"):
            raise self.err("missing condition in if statement")
        st = self.parse_simple_stmt()
        if self.is_op(";"):
            self.i += 1
            init = st
            st = self.parse_simple_stmt()
        self.nolit -= 1
        if st[0] != "expr":
            raise self.err("if condition must be an expression")
        cond = st[1]
        then = self.parse_block()
        els = None
        if self.is_kw("else"):
            self.i += 1
            if self.is_kw("if"):
                els = self.parse_if()
            elif self.is_op("{"):
                l2 = self.toks[self.i][2]
                els = ("block", self.parse_block(), l2)
            else:
                raise self.err("else must be followed by if or a block")
        return ("if", init, cond, then, els, line)

    def parse_switch(self) -> tuple:
        line = self.expect_kw("switch")[2]
        self.nolit += 1
        init = tag = None
        if not self.is_op("{"):
            st = None
            if not self.is_op(";"):
                st = self.parse_simple_stmt()
            if self.is_op(";"):
                self.i += 1
                init = st
                st = None
                if not self.is_op("{"):
                    st = self.parse_simple_stmt()
            if st is not None:
                if st[0] != "expr":
                    raise self.err("switch tag must be an expression (type switches unsupported)")
                tag = st[1]
        self.nolit -= 1
        self.expect_op("{")
        saved, self.nolit = self.nolit, 0
        clauses: List[tuple] = []
        while not self.is_op("}"):
            t = self.toks[self.i]
            if t[0] == "op" and t[1] == ";":
                self.i += 1
                continue
            if t[0] == "kw" and t[1] == "case":
                self.i += 1
                exprs: Optional[List[tuple]] = [self.parse_expr()]
                while self.is_op(","):
                    self.i += 1
                    exprs.append(self.parse_expr())
            elif t[0] == "kw" and t[1] == "default":
                self.i += 1
                exprs = None
            else:
                raise self.err(f"expected case or default, found {self.describe(t)}")
            self.expect_op(":")
            s = self.toks[self.i][3]
            body = self.parse_stmt_list()
            e = self.toks[self.i - 1][4] if self.i > 0 else s
            clauses.append((exprs, body, t[2], (s, max(s, e))))
        self.nolit = saved
        self.expect_op("}")
        return ("switch", init, tag, clauses, line)

    def parse_for(self) -> tuple:
        line = self.expect_kw("for")[2]
        self.nolit += 1
        if self.is_op("{"):
            self.nolit -= 1
            return ("for", None, None, None, self.parse_block(), line)
        if self.is_kw("range"):
            self.i += 1
            x = self.parse_expr()
            self.nolit -= 1
            return ("range", None, None, False, x, self.parse_block(), line)
        init = cond = post = None
        if not self.is_op(";"):
            # may be `k, v := range x`, `cond`, or init statement
            save = self.i
            lhs = [self.parse_expr()]
            while self.is_op(","):
                self.i += 1
                lhs.append(self.parse_expr())
            t = self.toks[self.i]
            if t[0] == "op" and t[1] in ("=", ":=") and self.toks[self.i + 1][0] == "kw" \
                    and self.toks[self.i + 1][1] == "range":
                self.i += 2
                x = self.parse_expr()
                if len(lhs) > 2:
                    raise self.err("range clause permits at most two iteration variables", t)
                key = lhs[0]
                val = lhs[1] if len(lhs) > 1 else None
                self.nolit -= 1
                return ("range", key, val, t[1] == ":=", x, self.parse_block(), line)
            self.i = save
            init = self.parse_simple_stmt()
        if self.is_op("{"):
            # `for cond {`
            if init is None or init[0] != "expr":
                raise self.err("for condition must be an expression")
            self.nolit -= 1
            return ("for", None, init[1], None, self.parse_block(), line)
        self.expect_op(";")
        if not self.is_op(";"):
            st = self.parse_simple_stmt()
            if st[0] != "expr":
                raise self.err("for condition must be an expression")
            cond = st[1]
        # the semicolon before `{` may be an explicit one: `for j := 0; j < n; {`
        self.expect_op(";")
        if not self.is_op("{"):
            post = self.parse_simple_stmt()
        self.nolit -= 1
        return ("for", init, cond, post, self.parse_block(), line)

    # -- expressions --------------------------------------------------------
    def parse_expr(self, min_prec: int = 1) -> tuple:
        left = self.parse_unary()
        while True:
            t = self.toks[self.i]
            if t[0] != "op":
                return left
            prec = _PREC.get(t[1])
            if prec is None or prec < min_prec:
                return left
            self.i += 1
            right = self.parse_expr(prec + 1)
            left = ("binary", t[1], left, right, t[2])

    def parse_unary(self) -> tuple:
        t = self.toks[self.i]
        if t[0] == "op":
            if t[1] in _UNARY_OPS:
                self.i += 1
                x = self.parse_unary()
                return ("unary", t[1], x, t[2])
            if t[1] == "<-":
                raise self.err("channel operations are not supported")
        return self.parse_primary()

    def parse_primary(self) -> tuple:
        x = self.parse_operand()
        while True:
            t = self.toks[self.i]
            if t[0] != "op":
                return x
            v = t[1]
            if v == ".":
                nt = self.toks[self.i + 1]
                if nt[0] == "op" and nt[1] == "(":
                    raise self.err("type assertions are not supported")
                if nt[0] != "ident":
                    raise self.err(f"expected selector name, found {self.describe(nt)}", nt)
                self.i += 2
                x = ("sel", x, nt[1], t[2])
            elif v == "[":
                self.i += 1
                saved, self.nolit = self.nolit, 0
                lo = hi = None
                if not self.is_op(":"):
                    lo = self.parse_expr()
                if self.is_op(":"):
                    self.i += 1
                    if not self.is_op("]"):
                        hi = self.parse_expr()
                    if self.is_op(":"):
                        raise self.err("3-index slices are not supported")
                    self.nolit = saved
                    self.expect_op("]")
                    x = ("slice", x, lo, hi, t[2])
                else:
                    self.nolit = saved
                    self.expect_op("]")
                    x = ("index", x, lo, t[2])
            elif v == "(":
                self.i += 1
                saved, self.nolit = self.nolit, 0
                args: List[tuple] = []
                while not self.is_op(")"):
                    args.append(self.parse_expr_or_type())
                    if self.is_op("..."):
                        raise self.err("variadic call arguments are not supported")
                    if self.is_op(","):
                        self.i += 1
                    elif not self.is_op(")"):
                        raise self.err(f"expected ',' or ')', found {self.describe(self.toks[self.i])}")
                self.nolit = saved
                self.expect_op(")")
                x = ("call", x, args, t[2])
            elif v == "{" and _is_literal_type(x) and (self.nolit == 0 or x[0] == "type"):
                # like go/parser: in control clause headers only literals whose type is
                # not a bare (qualified) name are recognised
                ty = _expr_to_type(x)
                x = self.parse_complit_body(ty, t[2])
            else:
                return x

    def parse_expr_or_type(self) -> tuple:
        return self.parse_expr()

    def parse_operand(self) -> tuple:
        t = self.toks[self.i]
        k = t[0]
        if k == "ident":
            self.i += 1
            return ("ident", t[1], t[2])
        if k == "int":
            self.i += 1
            return ("int", t[1], t[2])
        if k == "str" or k == "raw":
            self.i += 1
            try:
                v = decode_go_string_literal(t[1])
            except ValueError as e:
                raise self.err(f"invalid string literal {t[1]}: {e}", t)
            return ("str", v, t[1], t[2])
        if k == "op":
            if t[1] == "(":
                self.i += 1
                saved, self.nolit = self.nolit, 0
                # parenthesised expression or parenthesised type such as (*T)(x)
                x = self.parse_expr()
                self.nolit = saved
                self.expect_op(")")
                return ("paren", x, t[2])
            if t[1] == "[":
                ty = self.parse_type()
                return ("type", ty, t[2])
        if k == "kw":
            if t[1] in ("struct", "interface"):
                ty = self.parse_type()
                return ("type", ty, t[2])
            if t[1] == "func":
                raise self.err("function literals are not supported")
            if t[1] in ("map", "chan"):
                raise self.err(f"{t[1]} types are not supported")
        raise self.err(f"expected expression, found {self.describe(t)}")

    def parse_complit_body(self, ty: Optional[tuple], line: int) -> tuple:
        self.expect_op("{")
        saved, self.nolit = self.nolit, 0
        elems: List[Tuple[Optional[tuple], tuple]] = []
        while not self.is_op("}"):
            if self.is_op("{"):
                v = self.parse_complit_body(None, self.toks[self.i][2])
            else:
                v = self.parse_expr()
            key = None
            if self.is_op(":"):
                self.i += 1
                key = v
                if self.is_op("{"):
                    v = self.parse_complit_body(None, self.toks[self.i][2])
                else:
                    v = self.parse_expr()
            elems.append((key, v))
            if self.is_op(","):
                self.i += 1
            elif not self.is_op("}"):
                raise self.err(
                    f"expected ',' or '}}' in composite literal, found {self.describe(self.toks[self.i])}")
        self.nolit = saved
        self.expect_op("}")
        return ("complit", ty, elems, line)


def _is_literal_type(x: tuple) -> bool:
    k = x[0]
    if k == "ident":
        return True
    if k == "sel":
        return x[1][0] == "ident"
    if k == "type":
        return x[1][0] in ("array", "slice", "struct")
    return False


def _expr_to_type(x: tuple) -> tuple:
    k = x[0]
    if k == "ident":
        return ("name", x[1])
    if k == "sel" and x[1][0] == "ident":
        return ("qual", x[1][1], x[2])
    if k == "type":
        return x[1]
    if k == "paren":
        return _expr_to_type(x[1])
    if k == "unary" and x[1] == "*":
        return ("ptr", _expr_to_type(x[2]))
    raise ValueError("not a type expression")


def _fold_const(e: Optional[tuple], env: Dict[str, Any], iota: int = 0) -> Any:
    """Value of a constant expression built from literals, earlier constants,
    iota, true/false, unary and binary operators (untyped, arbitrary
    precision); None if it cannot be folded."""
    if e is None:
        return None
    k = e[0]
    if k == "int":
        return e[1]
    if k == "str":
        return e[1]
    if k == "paren":
        return _fold_const(e[1], env, iota)
    if k == "ident":
        n = e[1]
        if n == "true":
            return True
        if n == "false":
            return False
        if n == "iota":
            return iota
        return env.get(n)
    if k == "unary":
        v = _fold_const(e[2], env, iota)
        if v is None:
            return None
        if e[1] == "!" and isinstance(v, bool):
            return not v
        if isinstance(v, bool) or not isinstance(v, int):
            return None
        return {"-": -v, "+": v, "^": ~v}.get(e[1])
    if k == "binary":
        a = _fold_const(e[2], env, iota)
        b = _fold_const(e[3], env, iota)
        if a is None or b is None:
            return None
        try:
            return _untyped_binop(e[1], a, b)
        except EvalError:
            return None
    if k == "call" and len(e[2]) == 1 and e[1][0] == "ident":
        # conversion of a constant, e.g. uint16(5): value unchanged if foldable
        return _fold_const(e[2][0], env, iota) if e[1][1] in _INT_TYPES else None
    return None


def _make_gotype(name: str, t: tuple, is_alias: bool, line: int) -> GoType:
    k = t[0]
    if k in ("name", "qual"):
        return GoType(name, "named", t, underlying=type_str(t), is_alias=is_alias, line=line)
    if k == "array":
        length = _fold_const(t[1], {})
        return GoType(name, "array", t, length=length, elem=type_str(t[2]), elem_expr=t[2],
                      is_alias=is_alias, line=line)
    if k == "struct":
        return GoType(name, "struct", t, fields=list(t[1]), is_alias=is_alias, line=line)
    if k == "interface":
        return GoType(name, "interface", t, is_alias=is_alias, line=line)
    return GoType(name, "other", t, underlying=type_str(t), is_alias=is_alias, line=line)


def parse_file(text: str) -> GoFile:
    """Parse one Go source file of the supported subset into a GoFile."""
    return _Parser(text).parse_file()


# ---------------------------------------------------------------------------
# Integer semantics shared by constant folding and the evaluator
# ---------------------------------------------------------------------------

# name -> (bits, signed)
_INT_TYPES: Dict[str, Tuple[int, bool]] = {
    "int8": (8, True), "int16": (16, True), "int32": (32, True), "int64": (64, True),
    "uint8": (8, False), "uint16": (16, False), "uint32": (32, False), "uint64": (64, False),
    "byte": (8, False), "int": (64, True), "uint": (64, False), "uintptr": (64, False),
    "rune": (32, True),
}

_MAX_CONST_SHIFT = 4096  # guard against absurd constant shifts


def _trunc_div(a: int, b: int) -> int:
    if b == 0:
        raise EvalError("integer divide by zero")
    q = abs(a) // abs(b)
    return q if (a >= 0) == (b >= 0) else -q


def _trunc_rem(a: int, b: int) -> int:
    if b == 0:
        raise EvalError("integer divide by zero")
    r = abs(a) % abs(b)
    return r if a >= 0 else -r


def _untyped_binop(op: str, a: Any, b: Any) -> Any:
    """Binary operation on untyped constants (arbitrary precision)."""
    ab, bb = isinstance(a, bool), isinstance(b, bool)
    if isinstance(a, str) or isinstance(b, str):
        if not (isinstance(a, str) and isinstance(b, str)):
            raise EvalError(f"mismatched constant kinds in {op}")
        if op == "+":
            return a + b
        if op in ("==", "!=", "<", "<=", ">", ">="):
            return _compare(op, a, b)
        raise EvalError(f"operator {op} not defined on string constants")
    if ab or bb:
        if not (ab and bb):
            raise EvalError(f"mismatched constant kinds in {op}")
        if op == "&&":
            return a and b
        if op == "||":
            return a or b
        if op == "==":
            return a == b
        if op == "!=":
            return a != b
        raise EvalError(f"operator {op} not defined on boolean constants")
    if op == "+":
        return a + b
    if op == "-":
        return a - b
    if op == "*":
        return a * b
    if op == "/":
        return _trunc_div(a, b)
    if op == "%":
        return _trunc_rem(a, b)
    if op == "&":
        return a & b
    if op == "|":
        return a | b
    if op == "^":
        return a ^ b
    if op == "&^":
        return a & ~b
    if op == "<<" or op == ">>":
        if b < 0:
            raise EvalError(f"invalid shift count {b} (negative)")
        if b > _MAX_CONST_SHIFT:
            raise EvalError(f"constant shift count {b} too large")
        return a << b if op == "<<" else a >> b
    if op in ("==", "!=", "<", "<=", ">", ">="):
        return _compare(op, a, b)
    raise EvalError(f"operator {op} not defined on integer constants")


def _compare(op: str, a: Any, b: Any) -> bool:
    if op == "==":
        return a == b
    if op == "!=":
        return a != b
    if op == "<":
        return a < b
    if op == "<=":
        return a <= b
    if op == ">":
        return a > b
    return a >= b


# ---------------------------------------------------------------------------
# B. Structural extraction for standard mode
# ---------------------------------------------------------------------------

def _unparen(e: tuple) -> tuple:
    while e[0] == "paren":
        e = e[1]
    return e


def _const_int(e: tuple) -> Optional[int]:
    v = _fold_const(e, {})
    if isinstance(v, bool) or not isinstance(v, int):
        return None
    return v


def size_constants(gofile: GoFile) -> Dict[str, int]:
    """``BYTES_LENGTH_*`` constants -> value."""
    return {c.name: c.value for c in gofile.consts if c.name.startswith("BYTES_LENGTH_")}


def size_methods(gofile: GoFile) -> Dict[str, int]:
    """struct name -> value returned by ``func (m *T) Size() uint32``."""
    out: Dict[str, int] = {}
    for f in gofile.funcs:
        if f.name != "Size" or f.recv_type is None:
            continue
        if len(f.body) != 1 or f.body[0][0] != "return" or len(f.body[0][1]) != 1:
            raise GoParseError(f"unexpected body of {f.qualname}: "
                               + "; ".join(map(stmt_str, f.body)), f.line)
        v = _const_int(f.body[0][1][0])
        if v is None:
            raise GoParseError(f"{f.qualname} does not return an integer literal", f.line)
        out[f.recv_type] = v
    return out


def _qualified_call(e: tuple) -> Optional[Tuple[str, str, List[tuple]]]:
    """``pkg.Fn(args)`` -> (pkg, Fn, args)."""
    if e[0] == "call" and e[1][0] == "sel" and e[1][1][0] == "ident":
        return e[1][1][1], e[1][2], e[2]
    return None


def _bool_lit(e: tuple) -> Optional[bool]:
    e = _unparen(e)
    if e[0] == "ident" and e[1] in ("true", "false"):
        return e[1] == "true"
    return None


def _type_name_of(e: tuple) -> Optional[str]:
    """Identifier or pkg.Identifier expression -> dotted name."""
    if e[0] == "ident":
        return e[1]
    if e[0] == "sel" and e[1][0] == "ident":
        return f"{e[1][1]}.{e[2]}"
    return None


def _processor_expr(e: tuple, bp_alias: str = "bp") -> dict:
    """Translate one processor constructor expression into the tree encoding."""
    line = e[-1]
    src = expr_str(e)
    qc = _qualified_call(e)
    if qc and qc[0] == bp_alias:
        _, fn, args = qc
        if fn == "NewBool" and not args:
            return {"kind": "bool"}
        if fn == "NewByte" and not args:
            return {"kind": "byte"}
        if fn in ("NewUint", "NewInt") and len(args) == 1:
            n = _const_int(args[0])
            if n is None:
                raise GoParseError(f"non-constant nbits in {src}", line)
            return {"kind": "uint" if fn == "NewUint" else "int", "nbits": n}
        if fn == "NewArray" and len(args) == 3:
            ext, cap = _bool_lit(args[0]), _const_int(args[1])
            if ext is None or cap is None:
                raise GoParseError(f"unexpected NewArray arguments in {src}", line)
            return {"kind": "array", "extensible": ext, "cap": cap,
                    "elem": _processor_expr(args[2], bp_alias)}
        if fn == "NewEnumProcessor" and len(args) == 1:
            inner = _processor_expr(args[0], bp_alias)
            if inner.get("kind") != "uint":
                raise GoParseError(f"NewEnumProcessor argument is not NewUint(n) in {src}", line)
            return {"kind": "enum", "nbits": inner["nbits"]}
        if fn == "NewAliasProcessor" and len(args) == 1:
            return {"kind": "alias", "to": _processor_expr(args[0], bp_alias)}
        raise GoParseError(f"unknown processor constructor {src}", line)
    # (X).BpProcessor()
    if e[0] == "call" and not e[2] and e[1][0] == "sel" and e[1][2] == "BpProcessor":
        x = _unparen(e[1][1])
        if x[0] == "unary" and x[1] == "&" and x[2][0] == "complit" and not x[2][2]:
            return {"kind": "ref", "name": type_str(x[2][1]), "form": "&{}"}
        if x[0] == "complit" and not x[2]:
            return {"kind": "ref", "name": type_str(x[1]), "form": "{}"}
        if x[0] == "call" and len(x[2]) == 1:
            name = _type_name_of(x[1])
            a = x[2][0]
            if name is not None:
                if a[0] == "int" and a[1] == 0:
                    return {"kind": "ref", "name": name, "form": "(0)"}
                if a[0] == "ident" and a[1] == "false":
                    return {"kind": "ref", "name": name, "form": "(false)"}
    raise GoParseError(f"unrecognised processor expression {src}", line)


def _bp_alias(gofile: GoFile) -> str:
    for alias, path in gofile.imports:
        if path == "github.com/hit9/bitproto/lib/go":
            return alias or "bitproto"
    return "bp"


def processor_tree(gofile: GoFile, type_name: str) -> dict:
    """Tree parsed from ``func (m *T) BpProcessor()`` / ``func (m T) BpProcessor()``."""
    fn = gofile.func("BpProcessor", type_name)
    if fn is None:
        raise KeyError(f"no method {type_name}.BpProcessor")
    bp = _bp_alias(gofile)
    body = fn.body
    if len(body) == 1 and body[0][0] == "return" and len(body[0][1]) == 1:
        qc0 = _qualified_call(body[0][1][0])
        if qc0 and qc0[0] == bp and qc0[1] == "NewMessageProcessor" and len(qc0[2]) == 3:
            # a message without fields written in one statement: `nil` or an empty literal for the field list is the same tree
            third = qc0[2][2]
            empty = (third[0] == "ident" and third[1] == "nil") or (third[0] == "complit" and not third[2])
            ext, nbits = _bool_lit(qc0[2][0]), _const_int(qc0[2][1])
            if empty and ext is not None and nbits is not None:
                return {"kind": "message", "extensible": ext, "nbits": nbits, "fields": []}
        return _processor_expr(body[0][1][0], bp)
    # message form
    if (len(body) == 2 and body[0][0] == "assign" and body[0][1] == ":="
            and len(body[0][2]) == 1 and len(body[0][3]) == 1
            and body[1][0] == "return" and len(body[1][1]) == 1):
        var = body[0][2][0][1]
        lit = body[0][3][0]
        want = ("slice", ("ptr", ("qual", bp, "MessageFieldProcessor")))
        if lit[0] != "complit" or lit[1] != want:
            raise GoParseError(f"unexpected field descriptor literal in {fn.qualname}: "
                               + expr_str(lit), fn.line)
        fields = []
        for key, v in lit[2]:
            qc = _qualified_call(v)
            if key is not None or not qc or qc[0] != bp or qc[1] != "NewMessageFieldProcessor" \
                    or len(qc[2]) != 2:
                raise GoParseError(f"unexpected field descriptor {expr_str(v)}", v[-1])
            num = _const_int(qc[2][0])
            if num is None:
                raise GoParseError(f"non-constant field number in {expr_str(v)}", v[-1])
            fields.append({"number": num, "processor": _processor_expr(qc[2][1], bp)})
        ret = body[1][1][0]
        qc = _qualified_call(ret)
        if not qc or qc[0] != bp or qc[1] != "NewMessageProcessor" or len(qc[2]) != 3:
            raise GoParseError(f"unexpected return in {fn.qualname}: {expr_str(ret)}", ret[-1])
        ext, nbits = _bool_lit(qc[2][0]), _const_int(qc[2][1])
        third = qc[2][2]
        if ext is None or nbits is None or third[0] != "ident" or third[1] != var:
            raise GoParseError(f"unexpected NewMessageProcessor arguments: {expr_str(ret)}", ret[-1])
        return {"kind": "message", "extensible": ext, "nbits": nbits, "fields": fields}
    raise GoParseError(f"unexpected body shape of {fn.qualname}", fn.line)


def _data_ref(e: tuple, recv: str = "m", di: str = "di") -> Optional[Tuple[str, List[int]]]:
    """``m.Field[di.I(0)][di.I(1)]`` -> ('Field', [0, 1]); None if not of that shape."""
    idx: List[int] = []
    while e[0] == "index":
        i = e[2]
        if not (i[0] == "call" and len(i[2]) == 1 and i[1][0] == "sel" and i[1][2] == "I"
                and i[1][1][0] == "ident" and i[1][1][1] == di):
            return None
        k = _const_int(i[2][0])
        if k is None:
            return None
        idx.append(k)
        e = e[1]
    if e[0] == "sel" and e[1][0] == "ident" and e[1][1] == recv:
        idx.reverse()
        return e[2], idx
    return None


def _is_ident(e: tuple, name: str) -> bool:
    return e[0] == "ident" and e[1] == name


def _single_call(e: tuple) -> Optional[Tuple[str, tuple]]:
    """``Name(x)`` / ``pkg.Name(x)`` with exactly one argument -> (dotted name, x)."""
    if e[0] == "call" and len(e[2]) == 1:
        n = _type_name_of(e[1])
        if n is not None:
            return n, e[2][0]
    return None


def _case_setbyte(body: List[tuple], bp: str, info: dict) -> bool:
    if len(body) != 1 or body[0][0] != "assign" or len(body[0][2]) != 1 or len(body[0][3]) != 1:
        return False
    op, lhs, rhs = body[0][1], body[0][2][0], body[0][3][0]
    if op not in ("=", "|="):
        return False
    ref = _data_ref(lhs)
    if ref is None:
        return False
    info["field"], info["indices"] = ref
    info["depth"] = len(ref[1])
    info["assign"] = op
    x = _unparen(rhs)
    shifted = False
    if x[0] == "binary" and x[1] == "<<":
        if not _is_ident(x[3], "lshift"):
            return False
        shifted = True
        x = _unparen(x[2])
    conv = None
    byte2bool = False

    def is_b2b(y: tuple) -> bool:
        c = _single_call(y)
        return c is not None and c[0] == f"{bp}.Byte2bool" and _is_ident(c[1], "b")

    if is_b2b(x):
        byte2bool = True
    else:
        c = _single_call(x)
        if c is None:
            return False
        conv, inner = c
        inner = _unparen(inner)
        if _is_ident(inner, "b"):
            pass
        elif is_b2b(inner):
            byte2bool = True
        else:
            return False
    info.update(conv=conv, byte2bool=byte2bool, shifted=shifted)
    return True


def _case_getbyte(body: List[tuple], bp: str, info: dict) -> bool:
    if len(body) != 1 or body[0][0] != "return" or len(body[0][1]) != 1:
        return False
    x = _unparen(body[0][1][0])
    bool2byte, inner_conv, conv, shifted = False, None, None, False
    if x[0] == "binary" and x[1] == ">>" and _is_ident(x[3], "rshift"):
        # bp.Bool2byte(data) >> rshift
        shifted = True
        c = _single_call(_unparen(x[2]))
        if c is None or c[0] != f"{bp}.Bool2byte":
            return False
        bool2byte = True
        data = c[1]
        ref = _data_ref(data)
        if ref is None:
            c2 = _single_call(data)
            if c2 is None:
                return False
            inner_conv = c2[0]
            ref = _data_ref(c2[1])
            if ref is None:
                return False
    else:
        c = _single_call(x)
        if c is None:
            return False
        conv = c[0]
        y = _unparen(c[1])
        if y[0] == "binary" and y[1] == ">>" and _is_ident(y[3], "rshift"):
            shifted = True
            y = y[2]
        ref = _data_ref(y)
        if ref is None:
            return False
    info["field"], info["indices"] = ref
    info["depth"] = len(ref[1])
    info.update(bool2byte=bool2byte, inner_conv=inner_conv, conv=conv, shifted=shifted)
    return True


def _case_processint(body: List[tuple], bp: str, info: dict) -> bool:
    if len(body) != 2:
        return False
    a, b = body
    for st, op in ((a, "<<="), (b, ">>=")):
        if st[0] != "assign" or st[1] != op or len(st[2]) != 1 or len(st[3]) != 1:
            return False
    ref = _data_ref(a[2][0])
    shl, shr = _const_int(a[3][0]), _const_int(b[3][0])
    if ref is None or shl is None or shr is None:
        return False
    info["field"], info["indices"] = ref
    info["depth"] = len(ref[1])
    info.update(shl=shl, shr=shr, same_target=expr_str(a[2][0]) == expr_str(b[2][0]))
    return True


def _case_getaccessor(body: List[tuple], bp: str, info: dict) -> bool:
    if len(body) != 1 or body[0][0] != "return" or len(body[0][1]) != 1:
        return False
    x = body[0][1][0]
    addr = False
    if x[0] == "unary" and x[1] == "&":
        addr = True
        x = x[2]
    ref = _data_ref(_unparen(x))
    if ref is None:
        return False
    info["field"], info["indices"] = ref
    info["depth"] = len(ref[1])
    info["addr_of"] = addr
    return True


_CASE_PARSERS = {
    "BpSetByte": _case_setbyte, "BpGetByte": _case_getbyte,
    "BpProcessInt": _case_processint, "BpGetAccessor": _case_getaccessor,
}
_DEFAULT_SHAPES = {
    "BpSetByte": ("return",), "BpProcessInt": ("return",),
    "BpGetByte": ("return byte(0)",), "BpGetAccessor": ("return nil",),
}


def accessor_tables(gofile: GoFile, type_name: str) -> dict:
    """Case tables of BpSetByte / BpGetByte / BpProcessInt / BpGetAccessor.

    Result: ``{table: [case dict, ...], ..., 'default': {table: bool|None},
    'default_body': {table: text}, 'problems': [text, ...]}``.  A case dict has
    'number' (int, or None for a non-constant case expression), 'line', and
    either the parsed keys described in the module documentation or
    ``'unparsed': source text``.  ``default[table]`` is None if the method is
    missing or its body is not a single ``switch di.F()``.
    """
    bp = _bp_alias(gofile)
    out: dict = {"default": {}, "default_body": {}, "problems": []}
    for table, parse_case in _CASE_PARSERS.items():
        cases: List[dict] = []
        out[table] = cases
        fn = gofile.func(table, type_name)
        if fn is None:
            out["default"][table] = None
            out["problems"].append(f"{type_name}.{table}: method missing")
            continue
        body = list(fn.body)
        # Equivalent ways of saying "no case applies" are all fine: an empty body (no field needs a case), a switch without a
        # default branch, a switch followed by a plain `return ...` (the property speaks about the cases, not about this layout).
        if not body:
            out["default"][table] = False
            continue
        trailing = None
        if len(body) == 2 and body[0][0] == "switch" and body[1][0] == "return":
            trailing = stmt_str(body[1])
            body = body[:1]
            if trailing not in _DEFAULT_SHAPES[table]:
                out["problems"].append(f"{type_name}.{table}: unexpected statement after the switch `{trailing}`")
        sw = body[0] if len(body) == 1 and body[0][0] == "switch" else None
        tag_ok = False
        if sw is not None and sw[1] is None and sw[2] is not None:
            tg = sw[2]
            tag_ok = (tg[0] == "call" and not tg[2] and tg[1][0] == "sel" and tg[1][2] == "F"
                      and _is_ident(tg[1][1], "di"))
        if sw is None or not tag_ok:
            out["default"][table] = None
            out["problems"].append(f"{type_name}.{table}: body is not a single `switch di.F()`")
            cases.append({"number": None, "line": fn.line,
                          "unparsed": gofile.source(fn.src)})
            continue
        has_default = False
        for exprs, cbody, line, span in sw[3]:
            src = gofile.source(span).strip()
            if exprs is None:
                has_default = True
                norm = "; ".join(map(stmt_str, cbody))
                out["default_body"][table] = norm
                if norm not in _DEFAULT_SHAPES[table]:
                    out["problems"].append(
                        f"{type_name}.{table}: unexpected default branch `{norm}` (line {line})")
                continue
            for ce in exprs:
                info: dict = {"number": _const_int(ce), "line": line}
                scratch = dict(info)
                if info["number"] is not None and parse_case(cbody, bp, scratch):
                    info = scratch
                else:
                    info["unparsed"] = src if info["number"] is not None else \
                        f"case {expr_str(ce)}: {src}"
                cases.append(info)
        out["default"][table] = has_default
    return out


# ---------------------------------------------------------------------------
# C. Typed evaluator
# ---------------------------------------------------------------------------

class _RT:
    """A resolved Go type.  Identity of the object is identity of the type."""

    __slots__ = ("key", "kind", "bits", "signed", "mask", "half", "lo", "hi", "elem",
                 "length", "fields", "named", "ukey")

    def __init__(self, key: str, kind: str) -> None:
        self.key = key          # printable unique name
        self.kind = kind        # int | bool | string | array | slice | struct | ptr | opaque
        self.bits = 0
        self.signed = False
        self.mask = self.half = self.lo = self.hi = 0
        self.elem: Optional["_RT"] = None
        self.length = 0
        self.fields: Dict[str, "_RT"] = {}
        self.named = False
        self.ukey = key         # key of the underlying type

    def set_int(self, bits: int, signed: bool) -> "_RT":
        self.kind, self.bits, self.signed = "int", bits, signed
        self.mask = (1 << bits) - 1
        self.half = 1 << (bits - 1)
        self.lo = -self.half if signed else 0
        self.hi = self.half - 1 if signed else self.mask
        return self

    def copy_from(self, u: "_RT") -> None:
        for a in ("kind", "bits", "signed", "mask", "half", "lo", "hi", "elem", "length",
                  "fields", "ukey"):
            setattr(self, a, getattr(u, a))

    def __repr__(self) -> str:
        return f"<go type {self.key}>"


class _Untyped:
    def __init__(self, name: str, kind: str) -> None:
        self.key = "untyped " + name
        self.kind = kind
        self.named = False
        self.ukey = self.key

    def __repr__(self) -> str:
        return f"<{self.key}>"


U_INT = _Untyped("int", "int")
U_BOOL = _Untyped("bool", "bool")
U_STR = _Untyped("string", "string")
U_NIL = _Untyped("nil", "nil")

# A compiled expression is a triple (type, constant value, closure):
#   untyped constant      : (U_INT|U_BOOL|U_STR|U_NIL, value, None)
#   untyped bool variable : (U_BOOL, None, fn)        e.g. the result of `a < b`
#   typed value           : (_RT, None, fn)
_CE = Tuple[Any, Any, Optional[Callable[[list], Any]]]

_BREAK = ("break",)
_CONTINUE = ("continue",)


def _clone(v: Any) -> Any:
    if isinstance(v, list):
        return [_clone(x) for x in v]
    if isinstance(v, dict):
        return {k: _clone(x) for k, x in v.items()}
    return v


def _wrap_fn(rt: _RT) -> Callable[[int], int]:
    mask, half = rt.mask, rt.half
    if rt.signed:
        return lambda v: ((v + half) & mask) - half
    return lambda v: v & mask


def _value_binop(op: str, rt: _RT, line: int) -> Callable[[Any, Any], Any]:
    """f(a, b) for two in-range values of integer/bool/string type rt (for
    shifts b is the already validated, non-negative count)."""
    kind = rt.kind
    if kind == "string":
        if op == "+":
            return lambda a, b: a + b
        raise EvalError(f"line {line}: operator {op} not defined on {rt.key}")
    if kind == "bool":
        raise EvalError(f"line {line}: operator {op} not defined on {rt.key}")
    if kind != "int":
        raise EvalError(f"line {line}: operator {op} not defined on {rt.key}")
    mask, half, bits, signed = rt.mask, rt.half, rt.bits, rt.signed
    if op == "&":
        return lambda a, b: a & b
    if op == "|":
        return lambda a, b: a | b
    if op == "^":
        return lambda a, b: a ^ b
    if op == "&^":
        return lambda a, b: a & ~b
    if op == ">>":
        return lambda a, b: a >> b
    if signed:
        if op == "+":
            return lambda a, b: ((a + b + half) & mask) - half
        if op == "-":
            return lambda a, b: ((a - b + half) & mask) - half
        if op == "*":
            return lambda a, b: ((a * b + half) & mask) - half
        if op == "<<":
            return lambda a, b: (((a << (b if b < bits else bits)) + half) & mask) - half
        if op == "/":
            return lambda a, b: ((_trunc_div(a, b) + half) & mask) - half
        if op == "%":
            return _trunc_rem
    else:
        if op == "+":
            return lambda a, b: (a + b) & mask
        if op == "-":
            return lambda a, b: (a - b) & mask
        if op == "*":
            return lambda a, b: (a * b) & mask
        if op == "<<":
            return lambda a, b: (a << (b if b < bits else bits)) & mask
        if op == "/":
            return _trunc_div
        if op == "%":
            return _trunc_rem
    raise EvalError(f"line {line}: unsupported operator {op}")


class _CompiledFunc:
    __slots__ = ("name", "params", "result", "nslots", "body", "ready", "copy_params")

    def __init__(self, name: str) -> None:
        self.name = name
        self.params: List[_RT] = []
        self.result: Optional[_RT] = None
        self.nslots = 0
        self.body: Callable[[list], Any] = lambda env: None
        self.ready = False
        self.copy_params: List[int] = []

    def invoke(self, args: List[Any]) -> Any:
        env = [None] * self.nslots
        env[:len(args)] = args
        for i in self.copy_params:
            env[i] = _clone(env[i])
        r = self.body(env)
        if r is None:
            if self.result is not None:
                raise EvalError(f"{self.name}: missing return")
            return None
        if r is _BREAK or r is _CONTINUE:
            raise EvalError(f"{self.name}: break/continue outside loop")
        return r[0]


class _Pkg:
    """One package (file) known to the evaluator."""

    def __init__(self, alias: str, gofile: GoFile) -> None:
        self.alias = alias
        self.gofile = gofile
        self.funcs: Dict[str, GoFunc] = {}
        self.methods: Dict[Tuple[str, str], GoFunc] = {}
        for f in gofile.funcs:
            if f.recv_type is None:
                self.funcs.setdefault(f.name, f)
            else:
                self.methods.setdefault((f.recv_type, f.name), f)
        self.consts: Dict[str, GoConst] = {}
        for c in gofile.consts:
            self.consts.setdefault(c.name, c)
        self.vars = {v.name for v in gofile.vars}
        self.import_aliases: Dict[str, str] = {}
        for a, p in gofile.imports:
            self.import_aliases[a or p.rsplit("/", 1)[-1]] = p


class GoEval:
    """Evaluator for functions of parsed Go files with Go's typed integer
    semantics (see the module documentation for the exact rules).

    ``GoEval(main_file, imports={'alias': gofile, ...})``: *imports* maps the
    import alias (or package name) used in the Go text to the parsed file of
    that package.  Aliases form one flat namespace: a qualified name inside an
    imported file is looked up under the same alias table.
    """

    def __init__(self, main_file: GoFile, imports: Optional[Dict[str, GoFile]] = None) -> None:
        self._pkgs: Dict[str, _Pkg] = {"": _Pkg("", main_file)}
        for alias, gf in (imports or {}).items():
            self._pkgs[alias] = _Pkg(alias, gf)
        self._types: Dict[str, _RT] = {}
        self._compiled: Dict[Tuple[str, str], _CompiledFunc] = {}
        for name, (bits, signed) in _INT_TYPES.items():
            if name in ("byte", "rune"):
                continue
            t = _RT(name, "int").set_int(bits, signed)
            t.named = True
            self._types[name] = t
        self._types["byte"] = self._types["uint8"]
        self._types["rune"] = self._types["int32"]
        for name in ("bool", "string"):
            t = _RT(name, name)
            t.named = True
            self._types[name] = t
        self.T_INT = self._types["int"]
        self.T_BOOL = self._types["bool"]
        self.T_STRING = self._types["string"]

    # -- types --------------------------------------------------------------
    def _intern(self, key: str, make: Callable[[], _RT]) -> _RT:
        t = self._types.get(key)
        if t is None:
            t = make()
            self._types[key] = t
        return t

    def _named_type(self, pkg: str, name: str) -> Optional[_RT]:
        """Declared named type of a package (None if not declared there)."""
        p = self._pkgs.get(pkg)
        if p is None:
            raise EvalError(f"unknown package {pkg!r} (not given in imports)")
        gt = p.gofile.types.get(name)
        if gt is None:
            return None
        key = f"{pkg}.{name}" if pkg else name
        key = "#" + key if key in _INT_TYPES or key in ("bool", "string") else key
        t = self._types.get(key)
        if t is not None:
            if t.kind == "pending":
                raise EvalError(f"invalid recursive type {key}")
            return t
        if gt.is_alias:
            t = self.resolve_type(gt.expr, pkg)
            self._types[key] = t
            return t
        t = _RT(key, "pending")
        self._types[key] = t
        try:
            u = self.resolve_type(gt.expr, pkg)
        except Exception:
            del self._types[key]
            raise
        t.copy_from(u)
        t.named = True
        return t

    def resolve_type(self, texpr: Any, pkg: str = "") -> _RT:
        """Type expression (tuple or text such as 'Drone', 'shared.Color') -> type."""
        if isinstance(texpr, str):
            try:
                texpr = _Parser("package p; type x " + texpr).parse_file().type_list[0].expr
            except GoParseError as ex:
                raise EvalError(f"bad type expression {texpr!r}: {ex.message}")
        k = texpr[0]
        if k == "name":
            name = texpr[1]
            t = self._named_type(pkg, name)
            if t is not None:
                return t
            t = self._types.get(name) if name in _INT_TYPES or name in ("bool", "string") else None
            if t is None:
                raise EvalError(f"undefined type {name}" + (f" in package {pkg}" if pkg else ""))
            return t
        if k == "qual":
            p = self._pkgs.get(pkg)
            if texpr[1] not in self._pkgs:
                raise EvalError(f"type {texpr[1]}.{texpr[2]}: package {texpr[1]!r} not given in imports")
            if p is not None and texpr[1] not in p.import_aliases and pkg == "":
                raise EvalError(f"type {texpr[1]}.{texpr[2]}: {texpr[1]!r} is not imported")
            t = self._named_type(texpr[1], texpr[2])
            if t is None:
                raise EvalError(f"undefined type {texpr[1]}.{texpr[2]}")
            return t
        if k == "array":
            env = {n: c.value for n, c in self._pkgs[pkg].consts.items()}
            n = _fold_const(texpr[1], env)
            if isinstance(n, bool) or not isinstance(n, int) or n < 0:
                raise EvalError(f"invalid array length {expr_str(texpr[1])}")
            elem = self.resolve_type(texpr[2], pkg)
            key = f"[{n}]{elem.key}"

            def mk_a() -> _RT:
                t = _RT(key, "array")
                t.elem, t.length = elem, n
                return t
            return self._intern(key, mk_a)
        if k in ("slice", "ptr"):
            elem = self.resolve_type(texpr[1], pkg)
            key = ("[]" if k == "slice" else "*") + elem.key

            def mk_s() -> _RT:
                t = _RT(key, k)
                t.elem = elem
                return t
            return self._intern(key, mk_s)
        if k == "struct":
            fields: Dict[str, _RT] = {}
            for f in texpr[1]:
                if f.name in fields:
                    raise EvalError(f"duplicate field {f.name}")
                fields[f.name] = self.resolve_type(f.type, pkg)
            key = "struct{" + "; ".join(f"{n} {t.key}" for n, t in fields.items()) + "}"

            def mk_st() -> _RT:
                t = _RT(key, "struct")
                t.fields = fields
                return t
            return self._intern(key, mk_st)
        key = type_str(texpr)
        return self._intern("opaque " + key, lambda: _RT("opaque " + key, "opaque"))

    def _zero(self, t: _RT) -> Any:
        k = t.kind
        if k == "int":
            return 0
        if k == "bool":
            return False
        if k == "string":
            return ""
        if k == "array":
            return [self._zero(t.elem) for _ in range(t.length)]
        if k == "struct":
            return {n: self._zero(ft) for n, ft in t.fields.items()}
        return None

    def zero_value(self, type_name: Any) -> Any:
        """Zero value of a type: structs as ``{GoFieldName: value}``, arrays as
        lists, integers as int, bools as bool."""
        return self._zero(self.resolve_type(type_name))

    def check_value(self, type_name: Any, value: Any) -> None:
        """Raise EvalError unless *value* is a well-formed value of the type."""
        self._check(self.resolve_type(type_name) if not isinstance(type_name, _RT) else type_name,
                    value, "value")

    def _check(self, t: _RT, v: Any, path: str) -> None:
        k = t.kind
        if k == "int":
            if isinstance(v, bool) or not isinstance(v, int):
                raise EvalError(f"{path}: expected integer for {t.key}, got {v!r}")
            if not t.lo <= v <= t.hi:
                raise EvalError(f"{path}: {v} out of range of {t.key}")
        elif k == "bool":
            if not isinstance(v, bool):
                raise EvalError(f"{path}: expected bool for {t.key}, got {v!r}")
        elif k == "string":
            if not isinstance(v, str):
                raise EvalError(f"{path}: expected str for {t.key}, got {v!r}")
        elif k == "array":
            if not isinstance(v, list) or len(v) != t.length:
                raise EvalError(f"{path}: expected list of length {t.length} for {t.key}")
            for i, x in enumerate(v):
                self._check(t.elem, x, f"{path}[{i}]")
        elif k == "slice":
            if v is None:
                return
            if not isinstance(v, list):
                raise EvalError(f"{path}: expected list for {t.key}")
            for i, x in enumerate(v):
                self._check(t.elem, x, f"{path}[{i}]")
        elif k == "struct":
            if not isinstance(v, dict) or set(v) != set(t.fields):
                raise EvalError(f"{path}: expected dict with keys {sorted(t.fields)} for {t.key}")
            for n, ft in t.fields.items():
                self._check(ft, v[n], f"{path}.{n}")
        elif k == "ptr":
            if v is not None:
                self._check(t.elem, v, path)

    # -- function access ----------------------------------------------------
    def _get_compiled(self, pkg: str, recv: Optional[str], name: str) -> _CompiledFunc:
        key = (pkg, f"{recv}.{name}" if recv else name)
        cf = self._compiled.get(key)
        if cf is not None:
            return cf
        p = self._pkgs[pkg]
        fn = p.methods.get((recv, name)) if recv else p.funcs.get(name)
        if fn is None:
            raise EvalError(f"no function {key[1]}" + (f" in package {pkg}" if pkg else ""))
        cf = _CompiledFunc((pkg + "." if pkg else "") + key[1])
        self._compiled[key] = cf
        try:
            _FuncCompiler(self, pkg, fn, cf).compile()
        except Exception:
            del self._compiled[key]
            raise
        return cf

    def has_func(self, name: str, recv_type: Optional[str] = None) -> bool:
        p = self._pkgs[""]
        return ((recv_type, name) in p.methods) if recv_type else (name in p.funcs)

    def call(self, name: str, *args: Any) -> Any:
        """Call a receiver-less function of the main file with Python values.
        Integer arguments are wrapped to the parameter type (like an explicit
        Go conversion); other arguments are validated."""
        cf = self._get_compiled("", None, name)
        if len(args) != len(cf.params):
            raise EvalError(f"{name}: expected {len(cf.params)} arguments, got {len(args)}")
        vals = []
        for i, (a, t) in enumerate(zip(args, cf.params)):
            if t.kind == "int" and isinstance(a, int) and not isinstance(a, bool):
                a = _wrap_fn(t)(a)
            self._check(t, a, f"{name} argument {i}")
            vals.append(a)
        return cf.invoke(vals)

    def call_method(self, type_name: str, method: str, recv: Any, *args: Any) -> Any:
        """Call a method of the main file; a pointer receiver gets *recv* itself
        (mutations are visible to the caller)."""
        cf = self._get_compiled("", type_name, method)
        if len(args) + 1 != len(cf.params):
            raise EvalError(f"{type_name}.{method}: expected {len(cf.params) - 1} arguments, "
                            f"got {len(args)}")
        self._check(cf.params[0], recv, "receiver")
        for i, (a, t) in enumerate(zip(args, cf.params[1:])):
            self._check(t, a, f"{type_name}.{method} argument {i}")
        return cf.invoke([recv, *args])

    def run_encode(self, type_name: str, value: Any) -> bytes:
        """Execute ``func (m *T) Encode() []byte`` on *value* (not modified)."""
        t = self.resolve_type(("name", type_name))
        self._check(t, value, type_name)
        cf = self._get_compiled("", type_name, "Encode")
        if cf.result is None or cf.result.kind != "slice" or cf.result.elem is not self._types["uint8"]:
            raise EvalError(f"{type_name}.Encode does not return []byte")
        if len(cf.params) != 1:
            raise EvalError(f"{type_name}.Encode takes unexpected parameters")
        r = cf.invoke([_clone(value)])
        if r is None:
            raise EvalError(f"{type_name}.Encode returned nil")
        return bytes(r)

    def run_decode(self, type_name: str, data: bytes, value: Any = None) -> Any:
        """Execute ``func (m *T) Decode(s []byte)`` on a zero value (or on a copy
        of *value*) and return the resulting value."""
        t = self.resolve_type(("name", type_name))
        if value is None:
            value = self._zero(t)
        else:
            self._check(t, value, type_name)
            value = _clone(value)
        cf = self._get_compiled("", type_name, "Decode")
        if len(cf.params) != 2 or cf.params[1].kind != "slice" \
                or cf.params[1].elem is not self._types["uint8"]:
            raise EvalError(f"{type_name}.Decode does not take a single []byte parameter")
        if cf.params[0].kind != "ptr":
            raise EvalError(f"{type_name}.Decode has a value receiver; decoding would be lost")
        cf.invoke([value, list(bytes(data))])
        return value


class _FuncCompiler:
    """Compiles one parsed function into closures with static Go typing."""

    def __init__(self, ev: GoEval, pkg: str, fn: GoFunc, out: _CompiledFunc) -> None:
        self.ev = ev
        self.pkg = pkg
        self.p = ev._pkgs[pkg]
        self.fn = fn
        self.out = out
        self.scopes: List[Dict[str, Tuple[int, _RT]]] = [{}]
        self.nslots = 0
        self.loop_depth = 0

    # -- helpers ------------------------------------------------------------
    def err(self, node: Any, msg: str) -> EvalError:
        line = node[-1] if isinstance(node, tuple) and isinstance(node[-1], int) else self.fn.line
        return EvalError(f"{self.out.name}: line {line}: {msg}")

    def declare(self, name: str, t: _RT) -> int:
        slot = self.nslots
        self.nslots += 1
        if name != "_":
            self.scopes[-1][name] = (slot, t)
        return slot

    def lookup_local(self, name: str) -> Optional[Tuple[int, _RT]]:
        for sc in reversed(self.scopes):
            if name in sc:
                return sc[name]
        return None

    def compile(self) -> None:
        fn, ev, out = self.fn, self.ev, self.out
        if fn.recv_type is not None:
            rt = ev.resolve_type(("name", fn.recv_type), self.pkg)
            if fn.recv_ptr:
                rt = ev.resolve_type(("ptr", ("name", fn.recv_type)), self.pkg)
            out.params.append(rt)
            slot = self.declare(fn.recv_name or "_", rt)
            if rt.kind in ("array", "struct"):
                out.copy_params.append(slot)
        for (name, _), texpr in zip(fn.params, fn.param_types):
            t = ev.resolve_type(texpr, self.pkg)
            out.params.append(t)
            slot = self.declare(name or "_", t)
            if t.kind in ("array", "struct"):
                out.copy_params.append(slot)
        if fn.result_type is not None:
            if fn.result_type[0] == "func":
                raise self.err(None, "multiple results are not supported")
            out.result = ev.resolve_type(fn.result_type, self.pkg)
        out.ready = True  # signature known: recursive calls may refer to it
        body = self.block(fn.body, new_scope=True)
        out.nslots = self.nslots
        out.body = body

    # -- constants / conversions of compiled expressions ---------------------
    @staticmethod
    def const_fn(v: Any) -> Callable[[list], Any]:
        return lambda env: v

    def to_type(self, c: _CE, t: _RT, node: Any, what: str) -> Callable[[list], Any]:
        """Closure producing the value of c as type t under Go's assignability."""
        ct, cv, cf = c
        if ct is U_INT:
            if t.kind != "int":
                raise self.err(node, f"cannot use untyped int constant {cv} as {t.key} in {what}")
            if not t.lo <= cv <= t.hi:
                raise self.err(node, f"constant {cv} overflows {t.key} in {what}")
            return self.const_fn(cv)
        if ct is U_BOOL:
            if t.kind != "bool":
                raise self.err(node, f"cannot use untyped bool as {t.key} in {what}")
            return cf if cf is not None else self.const_fn(cv)
        if ct is U_STR:
            if t.kind != "string":
                raise self.err(node, f"cannot use untyped string constant as {t.key} in {what}")
            return self.const_fn(cv)
        if ct is U_NIL:
            if t.kind not in ("ptr", "slice", "opaque"):
                raise self.err(node, f"cannot use nil as {t.key} in {what}")
            return self.const_fn(None)
        if ct is t or (ct.ukey == t.ukey and not (ct.named and t.named) and ct.kind != "opaque"):
            if t.kind in ("array", "struct"):
                return lambda env: _clone(cf(env))
            return cf
        raise self.err(node, f"cannot use value of type {ct.key} as {t.key} in {what}")

    def default_typed(self, c: _CE, node: Any) -> Tuple[_RT, Callable[[list], Any]]:
        """Typed form of c; untyped constants get their default type."""
        ct = c[0]
        if ct is U_INT:
            return self.ev.T_INT, self.to_type(c, self.ev.T_INT, node, "expression")
        if ct is U_BOOL:
            return self.ev.T_BOOL, self.to_type(c, self.ev.T_BOOL, node, "expression")
        if ct is U_STR:
            return self.ev.T_STRING, self.to_type(c, self.ev.T_STRING, node, "expression")
        if ct is U_NIL:
            raise self.err(node, "use of untyped nil")
        return ct, c[2]

    # -- expressions --------------------------------------------------------
    def expr(self, e: tuple) -> _CE:
        k = e[0]
        m = getattr(self, "x_" + k, None)
        if m is None:
            raise self.err(e, f"expression not supported by the evaluator: {expr_str(e)}")
        return m(e)

    def x_paren(self, e: tuple) -> _CE:
        return self.expr(e[1])

    def x_int(self, e: tuple) -> _CE:
        return (U_INT, e[1], None)

    def x_str(self, e: tuple) -> _CE:
        return (U_STR, e[1], None)

    def x_ident(self, e: tuple) -> _CE:
        name = e[1]
        loc = self.lookup_local(name)
        if loc is not None:
            slot, t = loc
            return (t, None, lambda env: env[slot])
        c = self.p.consts.get(name)
        if c is not None:
            return self.const_value(c, e)
        if name in self.p.funcs or name in self.p.gofile.types or name in self.p.vars:
            raise self.err(e, f"{name} is not usable as a value in the evaluator")
        if name == "true":
            return (U_BOOL, True, None)
        if name == "false":
            return (U_BOOL, False, None)
        if name == "nil":
            return (U_NIL, None, None)
        raise self.err(e, f"undefined: {name}")

    def const_value(self, c: GoConst, node: Any) -> _CE:
        v = c.value
        if v is None:
            raise self.err(node, f"constant {c.name} has no foldable value")
        u = U_BOOL if isinstance(v, bool) else U_INT if isinstance(v, int) else U_STR
        if c.type is None:
            return (u, v, None)
        t = self.ev.resolve_type(c.type, self.pkg)
        return (t, None, self.to_type((u, v, None), t, node, f"constant {c.name}"))

    def as_type(self, e: tuple) -> Optional[_RT]:
        """The type denoted by expression e, or None if e is not a type."""
        e = _unparen(e)
        k = e[0]
        if k == "type":
            return self.ev.resolve_type(e[1], self.pkg)
        if k == "ident":
            name = e[1]
            if self.lookup_local(name) is not None:
                return None
            if name in self.p.gofile.types:
                return self.ev.resolve_type(("name", name), self.pkg)
            if name in self.p.funcs or name in self.p.consts or name in self.p.vars:
                return None
            if name in _INT_TYPES or name in ("bool", "string"):
                return self.ev.resolve_type(("name", name), self.pkg)
            return None
        if k == "sel" and e[1][0] == "ident" and self.lookup_local(e[1][1]) is None \
                and e[1][1] in self.p.import_aliases:
            alias = e[1][1]
            if alias not in self.ev._pkgs:
                raise self.err(e, f"package {alias!r} not given in imports")
            if e[2] in self.ev._pkgs[alias].gofile.types:
                return self.ev.resolve_type(("qual", alias, e[2]), self.pkg)
        return None

    def x_type(self, e: tuple) -> _CE:
        raise self.err(e, f"type {type_str(e[1])} is not an expression")

    def x_sel(self, e: tuple) -> _CE:
        base = e[1]
        if base[0] == "ident" and self.lookup_local(base[1]) is None \
                and base[1] in self.p.import_aliases:
            alias = base[1]
            pk = self.ev._pkgs.get(alias)
            if pk is None:
                raise self.err(e, f"package {alias!r} not given in imports")
            c = pk.consts.get(e[2])
            if c is None:
                raise self.err(e, f"{alias}.{e[2]} is not a constant (only constants, types and "
                                  "functions of imported packages are supported)")
            sub = _FuncCompiler(self.ev, alias, self.fn, self.out)
            return sub.const_value(c, e)
        bt, _, bf = self.expr(base)
        if isinstance(bt, _Untyped):
            raise self.err(e, f"selector on untyped constant")
        st = bt.elem if bt.kind == "ptr" else bt
        if st is None or st.kind != "struct":
            raise self.err(e, f"{expr_str(base)} (type {bt.key}) has no field {e[2]}")
        name = e[2]
        ft = st.fields.get(name)
        if ft is None:
            raise self.err(e, f"{expr_str(base)} (type {bt.key}) has no field or method {name}")
        if bt.kind == "ptr":
            def get_p(env: list) -> Any:
                b = bf(env)
                if b is None:
                    raise EvalError("nil pointer dereference")
                return b[name]
            return (ft, None, get_p)
        return (ft, None, lambda env: bf(env)[name])

    def index_parts(self, e: tuple) -> Tuple[_RT, Callable, Optional[int], Optional[Callable]]:
        """(element type, container closure, constant index | None, index closure | None)."""
        bt, _, bf = self.expr(e[1])
        if isinstance(bt, _Untyped) or bt.kind not in ("array", "slice"):
            raise self.err(e, f"cannot index {expr_str(e[1])} (type {bt.key})")
        it, iv, ifn = self.expr(e[2])
        if it is U_INT:
            if iv < 0:
                raise self.err(e, f"invalid index {iv} (must be non-negative)")
            if bt.kind == "array" and iv >= bt.length:
                raise self.err(e, f"invalid index {iv} (out of bounds for {bt.length}-element array)")
            return bt.elem, bf, iv, None
        if isinstance(it, _Untyped) or it.kind != "int":
            raise self.err(e, f"index {expr_str(e[2])} must be an integer")
        return bt.elem, bf, None, ifn

    def x_index(self, e: tuple) -> _CE:
        et, bf, ci, ifn = self.index_parts(e)
        src = expr_str(e)
        if ci is not None:
            def get_c(env: list) -> Any:
                a = bf(env)
                try:
                    return a[ci]
                except (IndexError, TypeError):
                    raise EvalError(f"{src}: index out of range [{ci}] with length "
                                    f"{len(a) if a is not None else 0}")
            return (et, None, get_c)

        def get_v(env: list) -> Any:
            a = bf(env)
            i = ifn(env)
            n = len(a) if a is not None else 0
            if not 0 <= i < n:
                raise EvalError(f"{src}: index out of range [{i}] with length {n}")
            return a[i]
        return (et, None, get_v)

    def x_unary(self, e: tuple) -> _CE:
        op = e[1]
        if op in ("&", "*"):
            raise self.err(e, f"unary {op} is not supported by the evaluator")
        t, v, f = self.expr(e[2])
        if op == "!":
            if t.kind != "bool":
                raise self.err(e, f"operator ! not defined on {t.key}")
            if f is None:
                return (t, not v, None)
            return (t, None, lambda env: not f(env))
        if t.kind != "int":
            raise self.err(e, f"operator {op} not defined on {t.key}")
        if f is None:
            return (U_INT, {"-": -v, "+": v, "^": ~v}[op], None)
        if op == "+":
            return (t, None, f)
        w = _wrap_fn(t)
        if op == "-":
            return (t, None, lambda env: w(-f(env)))
        if t.signed:
            return (t, None, lambda env: ~f(env))
        mask = t.mask
        return (t, None, lambda env: f(env) ^ mask)

    def x_binary(self, e: tuple) -> _CE:
        return self.binary_ce(e, e[1], self.expr(e[2]), self.expr(e[3]))

    def binary_ce(self, e: tuple, op: str, L: _CE, R: _CE) -> _CE:
        """Binary operation on two compiled operands (e is used for messages)."""
        line = e[-1]
        if L[0] is _VOID or R[0] is _VOID:
            raise self.err(e, f"value of a call without result used in {expr_str(e)}")
        if op in ("<<", ">>"):
            return self.shift(e, op, L, R)
        lt, lv, lf = L
        rt, rv, rf = R
        if lt is U_NIL or rt is U_NIL:
            raise self.err(e, "operations on nil are not supported")
        # both untyped constants: fold
        if lf is None and rf is None:
            try:
                v = _untyped_binop(op, lv, rv)
            except EvalError as ex:
                raise self.err(e, str(ex))
            return (U_BOOL if isinstance(v, bool) else U_INT if isinstance(v, int) else U_STR,
                    v, None)
        if op in ("&&", "||"):
            if lt.kind != "bool" or rt.kind != "bool":
                raise self.err(e, f"operator {op} needs boolean operands, got {lt.key} and {rt.key}")
            typed = [t for t in (lt, rt) if not isinstance(t, _Untyped)]
            if len(typed) == 2 and typed[0] is not typed[1]:
                raise self.err(e, f"mismatched types {lt.key} and {rt.key} in {expr_str(e)}")
            res_t = typed[0] if typed else U_BOOL
            a = lf if lf is not None else self.const_fn(lv)
            b = rf if rf is not None else self.const_fn(rv)
            if op == "&&":
                return (res_t, None, lambda env: a(env) and b(env))
            return (res_t, None, lambda env: a(env) or b(env))
        # operand type unification
        lu, ru = isinstance(lt, _Untyped), isinstance(rt, _Untyped)
        if lu and ru:
            # untyped non-constant bool with untyped bool
            if lt is U_BOOL and rt is U_BOOL and op in ("==", "!="):
                a = lf if lf is not None else self.const_fn(lv)
                b = rf if rf is not None else self.const_fn(rv)
                if op == "==":
                    return (U_BOOL, None, lambda env: a(env) == b(env))
                return (U_BOOL, None, lambda env: a(env) != b(env))
            raise self.err(e, f"invalid operation {expr_str(e)}")
        if lu:
            t = rt
            rconst = None
            a = self.to_type(L, t, e, expr_str(e))
            b = rf
        elif ru:
            t = lt
            a = lf
            b = self.to_type(R, t, e, expr_str(e))
            rconst = rv if rf is None else None
        else:
            if lt is not rt:
                raise self.err(e, f"invalid operation: {expr_str(e)} (mismatched types "
                                  f"{lt.key} and {rt.key})")
            t, a, b, rconst = lt, lf, rf, None
        if op in ("==", "!=", "<", "<=", ">", ">="):
            if t.kind not in ("int", "bool", "string"):
                raise self.err(e, f"comparison of {t.key} values is not supported")
            if t.kind == "bool" and op not in ("==", "!="):
                raise self.err(e, f"operator {op} not defined on {t.key}")
            if rconst is not None:
                c = rconst
                f = {"==": lambda env: a(env) == c, "!=": lambda env: a(env) != c,
                     "<": lambda env: a(env) < c, "<=": lambda env: a(env) <= c,
                     ">": lambda env: a(env) > c, ">=": lambda env: a(env) >= c}[op]
            else:
                f = {"==": lambda env: a(env) == b(env), "!=": lambda env: a(env) != b(env),
                     "<": lambda env: a(env) < b(env), "<=": lambda env: a(env) <= b(env),
                     ">": lambda env: a(env) > b(env), ">=": lambda env: a(env) >= b(env)}[op]
            return (U_BOOL, None, f)
        try:
            vf = _value_binop(op, t, line)
        except EvalError as ex:
            raise self.err(e, str(ex).split(": ", 1)[-1] + f" in {expr_str(e)}")
        if rconst is not None and t.kind == "int":
            c = rconst
            if op == "&":
                return (t, None, lambda env: a(env) & c)
            if op == "|":
                return (t, None, lambda env: a(env) | c)
            if op in ("/", "%") and c == 0:
                raise self.err(e, "division by zero")
            return (t, None, lambda env: vf(a(env), c))
        return (t, None, lambda env: vf(a(env), b(env)))

    def shift(self, e: tuple, op: str, L: _CE, R: _CE) -> _CE:
        lt, lv, lf = L
        rt, rv, rf = R
        if rt.kind != "int":
            raise self.err(e, f"shift count {expr_str(e[3])} (type {rt.key}) must be an integer")
        if lt.kind != "int":
            raise self.err(e, f"shifted operand {expr_str(e[2])} (type {lt.key}) must be an integer")
        if rf is None:  # constant count
            if rv < 0:
                raise self.err(e, f"invalid shift count {rv} (negative)")
            if lf is None:
                try:
                    return (U_INT, _untyped_binop(op, lv, rv), None)
                except EvalError as ex:
                    raise self.err(e, str(ex))
            n = rv
            if op == ">>":
                return (lt, None, lambda env: lf(env) >> n)
            if n >= lt.bits:
                return (lt, None, lambda env: (lf(env), 0)[1])
            mask, half = lt.mask, lt.half
            if lt.signed:
                return (lt, None, lambda env: (((lf(env) << n) + half) & mask) - half)
            return (lt, None, lambda env: (lf(env) << n) & mask)
        # non-constant count
        if lf is None:
            # Go: the constant takes the type it would have without the shift;
            # simplification: int (see module documentation).
            lt = self.ev.T_INT
            lf = self.to_type(L, lt, e, expr_str(e))
        vf = _value_binop(op, lt, e[-1])
        src = expr_str(e)
        if rt.signed:
            def sh(env: list) -> Any:
                n = rf(env)
                if n < 0:
                    raise EvalError(f"{src}: negative shift amount {n} (run-time panic)")
                return vf(lf(env), n)
            return (lt, None, sh)
        return (lt, None, lambda env: vf(lf(env), rf(env)))

    def x_call(self, e: tuple) -> _CE:
        fexpr, args = e[1], e[2]
        # conversion?
        t = self.as_type(fexpr)
        if t is not None:
            if len(args) != 1:
                raise self.err(e, f"conversion to {t.key} needs exactly one argument")
            return self.conversion(e, t, self.expr(args[0]))
        f0 = _unparen(fexpr)
        if f0[0] == "ident" and self.lookup_local(f0[1]) is None:
            name = f0[1]
            if name in self.p.funcs:
                return self.call_func(e, self.pkg, name, args)
            if name == "make":
                return self.builtin_make(e, args)
            if name == "len":
                return self.builtin_len(e, args)
            raise self.err(e, f"undefined function {name}")
        if f0[0] == "sel" and f0[1][0] == "ident" and self.lookup_local(f0[1][1]) is None \
                and f0[1][1] in self.p.import_aliases:
            alias = f0[1][1]
            pk = self.ev._pkgs.get(alias)
            if pk is None:
                raise self.err(e, f"package {alias!r} not given in imports")
            if f0[2] not in pk.funcs:
                raise self.err(e, f"undefined: {alias}.{f0[2]}")
            return self.call_func(e, alias, f0[2], args)
        raise self.err(e, f"call not supported by the evaluator: {expr_str(e)}")

    def call_func(self, e: tuple, pkg: str, name: str, args: List[tuple]) -> _CE:
        cf = self.ev._get_compiled(pkg, None, name)
        if not cf.ready:
            raise self.err(e, f"cannot resolve signature of {name}")
        if len(args) != len(cf.params):
            raise self.err(e, f"wrong number of arguments in call to {name}: "
                              f"have {len(args)}, want {len(cf.params)}")
        afs = [self.to_type(self.expr(a), pt, a, f"argument to {name}")
               for a, pt in zip(args, cf.params)]
        invoke = cf.invoke
        if len(afs) == 1:
            a0 = afs[0]
            fn = lambda env: invoke([a0(env)])  # noqa: E731
        elif len(afs) == 2:
            a0, a1 = afs
            fn = lambda env: invoke([a0(env), a1(env)])  # noqa: E731
        else:
            fn = lambda env: invoke([a(env) for a in afs])  # noqa: E731
        if cf.result is None:
            return (_VOID, None, fn)
        return (cf.result, None, fn)

    def builtin_make(self, e: tuple, args: List[tuple]) -> _CE:
        if not 2 <= len(args) <= 3:
            raise self.err(e, "make needs a type and a length")
        t = self.as_type(args[0])
        if t is None or t.kind != "slice":
            raise self.err(e, f"make: only slice types are supported, got {expr_str(args[0])}")
        n = self.expr(args[1])
        if n[0].kind != "int":
            raise self.err(e, "make: length must be an integer")
        if n[2] is None and n[1] < 0:
            raise self.err(e, f"make: negative length {n[1]}")
        nf = n[2] if n[2] is not None else self.const_fn(n[1])
        zero = self.ev._zero
        elem = t.elem
        simple = elem.kind in ("int", "bool", "string")
        z = zero(elem)

        def mk(env: list) -> Any:
            k = nf(env)
            if k < 0:
                raise EvalError("make: len out of range (run-time panic)")
            return [z] * k if simple else [zero(elem) for _ in range(k)]
        return (t, None, mk)

    def builtin_len(self, e: tuple, args: List[tuple]) -> _CE:
        if len(args) != 1:
            raise self.err(e, "len needs one argument")
        t, v, f = self.expr(args[0])
        if t is U_STR:
            return (U_INT, len(v.encode("utf-8", "surrogateescape")), None)
        if isinstance(t, _Untyped) or t.kind not in ("array", "slice", "string"):
            raise self.err(e, f"invalid argument for len: {expr_str(args[0])}")
        if t.kind == "array":
            return (U_INT, t.length, None)
        if t.kind == "string":
            return (self.ev.T_INT, None,
                    lambda env: len(f(env).encode("utf-8", "surrogateescape")))
        return (self.ev.T_INT, None, lambda env: len(f(env) or ()))

    def conversion(self, e: tuple, t: _RT, c: _CE) -> _CE:
        ct, cv, cf = c
        if isinstance(ct, _Untyped):
            return (t, None, self.to_type(c, t, e, f"conversion {expr_str(e)}"))
        if ct is t:
            return (t, None, cf)
        if t.kind == "int" and ct.kind == "int":
            if t.bits > ct.bits and (t.signed or not ct.signed):
                return (t, None, cf)  # value preserving
            if t.bits == ct.bits and t.signed == ct.signed:
                return (t, None, cf)
            mask, half = t.mask, t.half
            if t.signed:
                return (t, None, lambda env: ((cf(env) + half) & mask) - half)
            return (t, None, lambda env: cf(env) & mask)
        if t.kind == ct.kind and t.ukey == ct.ukey and t.kind in ("bool", "string", "array",
                                                                    "struct", "slice", "ptr"):
            return (t, None, cf)
        raise self.err(e, f"cannot convert {expr_str(e[2][0])} (type {ct.key}) to type {t.key}")

    # -- statements ---------------------------------------------------------
    def block(self, stmts: List[tuple], new_scope: bool = True) -> Callable[[list], Any]:
        if new_scope:
            self.scopes.append({})
        try:
            fs = [self.stmt(s) for s in stmts]
        finally:
            if new_scope:
                self.scopes.pop()
        if not fs:
            return lambda env: None
        if len(fs) == 1:
            return fs[0]

        def run(env: list) -> Any:
            for f in fs:
                r = f(env)
                if r is not None:
                    return r
            return None
        return run

    def stmt(self, s: tuple) -> Callable[[list], Any]:
        m = getattr(self, "s_" + s[0], None)
        if m is None:
            raise self.err(s, f"statement not supported by the evaluator: {stmt_str(s)}")
        return m(s)

    def s_block(self, s: tuple) -> Callable:
        return self.block(s[1])

    def s_expr(self, s: tuple) -> Callable:
        e = _unparen(s[1])
        if e[0] != "call":
            raise self.err(s, f"{expr_str(e)} evaluated but not used")
        f = self.expr(e)[2]

        def run(env: list) -> None:
            f(env)
        return run

    def s_return(self, s: tuple) -> Callable:
        res = self.out.result
        if not s[1]:
            if res is not None:
                raise self.err(s, "not enough return values")
            ret = (None,)
            return lambda env: ret
        if res is None:
            raise self.err(s, "too many return values")
        if len(s[1]) != 1:
            raise self.err(s, "multiple return values are not supported")
        f = self.to_type(self.expr(s[1][0]), res, s, "return statement")
        return lambda env: (f(env),)

    def lvalue(self, e: tuple) -> Tuple[_RT, Callable[[list], Tuple[Any, Any]]]:
        """(type, ref) where ref(env) -> (container, key) addressing the variable."""
        e = _unparen(e)
        k = e[0]
        if k == "ident":
            loc = self.lookup_local(e[1])
            if loc is None:
                raise self.err(e, f"cannot assign to {e[1]}")
            slot, t = loc
            return t, lambda env: (env, slot)
        if k == "sel":
            bt, _, bf = self.expr(e[1])
            st = bt.elem if bt.kind == "ptr" else bt
            if isinstance(bt, _Untyped) or st is None or st.kind != "struct":
                raise self.err(e, f"{expr_str(e[1])} has no field {e[2]}")
            name = e[2]
            ft = st.fields.get(name)
            if ft is None:
                raise self.err(e, f"{expr_str(e[1])} (type {bt.key}) has no field {name}")

            def ref_f(env: list) -> Tuple[Any, Any]:
                b = bf(env)
                if b is None:
                    raise EvalError("nil pointer dereference")
                return b, name
            return ft, ref_f
        if k == "index":
            et, bf, ci, ifn = self.index_parts(e)
            src = expr_str(e)
            if ci is not None:
                def ref_c(env: list) -> Tuple[Any, Any]:
                    a = bf(env)
                    if a is None or ci >= len(a):
                        raise EvalError(f"{src}: index out of range [{ci}] with length "
                                        f"{len(a) if a is not None else 0}")
                    return a, ci
                return et, ref_c

            def ref_v(env: list) -> Tuple[Any, Any]:
                a = bf(env)
                i = ifn(env)
                n = len(a) if a is not None else 0
                if not 0 <= i < n:
                    raise EvalError(f"{src}: index out of range [{i}] with length {n}")
                return a, i
            return et, ref_v
        raise self.err(e, f"cannot assign to {expr_str(e)}")

    def s_assign(self, s: tuple) -> Callable:
        op, lhs, rhs = s[1], s[2], s[3]
        if len(lhs) != 1 or len(rhs) != 1:
            raise self.err(s, "multi-value assignment is not supported by the evaluator")
        l, r = lhs[0], rhs[0]
        if op == ":=":
            c = self.expr(r)
            if c[0] is _VOID:
                raise self.err(s, f"{expr_str(r)} (no value) used as value")
            t, f = self.default_typed(c, s)
            if l[1] in self.scopes[-1]:
                raise self.err(s, f"no new variables on left side of := ({l[1]})")
            slot = self.declare(l[1], t)
            if t.kind in ("array", "struct"):
                def decl_copy(env: list) -> None:
                    env[slot] = _clone(f(env))
                return decl_copy

            def decl(env: list) -> None:
                env[slot] = f(env)
            return decl
        lt, ref = self.lvalue(l)
        if op == "=":
            c = self.expr(r)
            if c[0] is _VOID:
                raise self.err(s, f"{expr_str(r)} (no value) used as value")
            f = self.to_type(c, lt, s, "assignment")

            def assign(env: list) -> None:
                c_, k_ = ref(env)
                c_[k_] = f(env)
            return assign
        # x op= y  ==  x = x op y, typed like the binary operation
        bop = op[:-1]
        holder: List[Any] = [None]
        cur: _CE = (lt, None, lambda env: holder[0])
        res = self.binary_ce(("binary", bop, l, r, s[-1]), bop, cur, self.expr(r))
        if res[0] is not lt:
            raise self.err(s, f"cannot assign result of type {res[0].key} to {lt.key}")
        rf = res[2]

        def opassign(env: list) -> None:
            c_, k_ = ref(env)
            holder[0] = c_[k_]
            c_[k_] = rf(env)
        return opassign

    def s_incdec(self, s: tuple) -> Callable:
        one = ("int", 1, s[-1])
        return self.s_assign(("assign", "+=" if s[2] == "++" else "-=", [s[1]], [one], s[-1]))

    def s_var(self, s: tuple) -> Callable:
        name, texpr, init = s[1], s[2], s[3]
        if texpr is not None:
            t = self.ev.resolve_type(texpr, self.pkg)
            if init is not None:
                f = self.to_type(self.expr(init), t, s, "variable declaration")
            else:
                zero, tt = self.ev._zero, t
                f = lambda env: zero(tt)  # noqa: E731
        else:
            t, f = self.default_typed(self.expr(init), s)
        slot = self.declare(name, t)

        def decl(env: list) -> None:
            env[slot] = f(env)
        return decl

    def cond(self, e: tuple, what: str) -> Callable[[list], Any]:
        t, v, f = self.expr(e)
        if t.kind != "bool":
            raise self.err(e, f"non-boolean condition in {what}: {expr_str(e)} (type {t.key})")
        return f if f is not None else self.const_fn(v)

    def s_if(self, s: tuple) -> Callable:
        self.scopes.append({})
        try:
            init = self.stmt(s[1]) if s[1] is not None else None
            c = self.cond(s[2], "if statement")
            then = self.block(s[3])
            els = self.stmt(s[4]) if s[4] is not None else None
        finally:
            self.scopes.pop()

        def run(env: list) -> Any:
            if init is not None:
                init(env)
            if c(env):
                return then(env)
            if els is not None:
                return els(env)
            return None
        return run

    def s_switch(self, s: tuple) -> Callable:
        self.scopes.append({})
        try:
            init = self.stmt(s[1]) if s[1] is not None else None
            tag_slot = None
            tag_f = None
            if s[2] is not None:
                tt, tf = self.default_typed(self.expr(s[2]), s[2])
                tag_slot = self.declare("_", tt)
                tag_f = tf
                tag_ce: _CE = (tt, None, lambda env: env[tag_slot])
            arms: List[Tuple[Optional[List[Callable]], Callable]] = []
            seen: Dict[Any, int] = {}
            for exprs, body, line, _span in s[3]:
                conds: Optional[List[Callable]] = None
                if exprs is not None:
                    conds = []
                    for ce in exprs:
                        if tag_slot is not None:
                            cv = _fold_const(ce, {n: c.value for n, c in self.p.consts.items()})
                            if cv is not None and not isinstance(cv, str):
                                if cv in seen:
                                    raise self.err(ce, f"duplicate case {expr_str(ce)} in switch "
                                                       f"(previous case at line {seen[cv]})")
                                seen[cv] = line
                            node = ("binary", "==", s[2], ce, line)
                            r = self.binary_ce(node, "==", tag_ce, self.expr(ce))
                            conds.append(r[2] if r[2] is not None else self.const_fn(r[1]))
                        else:
                            conds.append(self.cond(ce, "switch case"))
                self.loop_depth += 1  # `break` is allowed inside switch
                try:
                    arms.append((conds, self.block(body)))
                finally:
                    self.loop_depth -= 1
            if sum(1 for c, _ in arms if c is None) > 1:
                raise self.err(s, "multiple defaults in switch")
        finally:
            self.scopes.pop()

        def run(env: list) -> Any:
            if init is not None:
                init(env)
            if tag_f is not None:
                env[tag_slot] = tag_f(env)
            chosen = None
            for conds, body in arms:
                if conds is not None and any(c(env) for c in conds):
                    chosen = body
                    break
            if chosen is None:
                for conds, body in arms:
                    if conds is None:
                        chosen = body
                        break
            if chosen is None:
                return None
            r = chosen(env)
            return None if r is _BREAK else r
        return run

    def s_for(self, s: tuple) -> Callable:
        self.scopes.append({})
        try:
            init = self.stmt(s[1]) if s[1] is not None else None
            c = self.cond(s[2], "for statement") if s[2] is not None else None
            post = self.stmt(s[3]) if s[3] is not None else None
            self.loop_depth += 1
            try:
                body = self.block(s[4])
            finally:
                self.loop_depth -= 1
        finally:
            self.scopes.pop()
        name = self.out.name

        def run(env: list) -> Any:
            if init is not None:
                init(env)
            n = 0
            while c is None or c(env):
                r = body(env)
                if r is not None:
                    if r is _BREAK:
                        break
                    if r is not _CONTINUE:
                        return r
                if post is not None:
                    post(env)
                n += 1
                if n > 10_000_000:
                    raise EvalError(f"{name}: loop iteration limit exceeded")
            return None
        return run

    def s_break(self, s: tuple) -> Callable:
        if self.loop_depth == 0:
            raise self.err(s, "break is not in a loop or switch")
        return lambda env: _BREAK

    def s_continue(self, s: tuple) -> Callable:
        if self.loop_depth == 0:
            raise self.err(s, "continue is not in a loop")
        return lambda env: _CONTINUE


_VOID = _Untyped("no value", "void")


# ---------------------------------------------------------------------------
# D. Runtime helper evaluation (lib/go/bitproto.go)
# ---------------------------------------------------------------------------

RUNTIME_HELPER_NAMES = ("getNbitsToCopy", "getMask", "min", "smartShift", "Bool2byte",
                        "Byte2bool")


class RuntimeHelpers:
    """Pure helper functions of the Go runtime library, evaluated from their
    parsed bodies.  ``call('smartShift', 0x81, -1)`` etc.  Integer arguments
    are wrapped to the parameter type (``byte`` parameters wrap modulo 256),
    ``int`` is 64 bit."""

    def __init__(self, gofile: GoFile) -> None:
        self.gofile = gofile
        self.eval = GoEval(gofile)
        missing = [n for n in RUNTIME_HELPER_NAMES if gofile.func(n) is None]
        if missing:
            raise GoParseError("runtime library lacks helper functions: " + ", ".join(missing), 0)

    def names(self) -> List[str]:
        return list(RUNTIME_HELPER_NAMES)

    def signature(self, name: str) -> Tuple[List[Tuple[str, str]], Optional[str]]:
        f = self.gofile.func(name)
        if f is None:
            raise KeyError(name)
        return list(f.params), f.result

    def call(self, name: str, *args: Any) -> Any:
        return self.eval.call(name, *args)


def load_runtime_helpers(path: str = "/repo/lib/go/bitproto.go") -> RuntimeHelpers:
    with open(path, "r", encoding="utf-8") as fh:
        return RuntimeHelpers(parse_file(fh.read()))


# ---------------------------------------------------------------------------
# E. Static checks
# ---------------------------------------------------------------------------

_PREDECLARED = frozenset(
    "bool byte complex64 complex128 error float32 float64 int int8 int16 int32 int64 rune "
    "string uint uint8 uint16 uint32 uint64 uintptr any comparable true false iota nil append "
    "cap clear close complex copy delete imag len make max min new panic print println real "
    "recover".split()
)
_PREDECLARED_TYPES = frozenset(
    "bool byte complex64 complex128 error float32 float64 int int8 int16 int32 int64 rune "
    "string uint uint8 uint16 uint32 uint64 uintptr any comparable".split()
)


def _import_name(alias: Optional[str], path: str) -> str:
    return alias if alias else path.rsplit("/", 1)[-1]


class _Checker:
    def __init__(self, gf: GoFile, imported: Optional[Dict[str, GoFile]]) -> None:
        self.gf = gf
        self.imported = imported or {}
        self.problems: List[str] = []
        self.pkg_names: Dict[str, str] = {}
        self.used_pkgs: set = set()
        self.top = set(gf.top_level_names)
        self.method_set: Dict[str, set] = {}
        for f in gf.funcs:
            if f.recv_type:
                self.method_set.setdefault(f.recv_type, set()).add(f.name)
        # name -> [static type (pkg, type expr) | None, used, line, kind]
        self.scopes: List[Dict[str, list]] = []
        self.func_name = ""

    def add(self, line: int, msg: str) -> None:
        self.problems.append(f"line {line}: {msg}")

    # -- top level ----------------------------------------------------------
    def run(self) -> List[str]:
        gf = self.gf
        seen_other = False
        for kind, _name, line in gf.decl_order:
            if kind == "import":
                if seen_other:
                    self.add(line, "import declaration after other declarations "
                                   "(Go: imports must appear before other declarations)")
            else:
                seen_other = True
        for (alias, path), line in zip(gf.imports, gf.import_lines):
            if alias == "_":
                continue
            name = _import_name(alias, path)
            if name in self.pkg_names:
                self.add(line, f"{name} redeclared in this block (imported twice)")
            self.pkg_names[name] = path
            if name in self.top:
                self.add(line, f"{name} already declared through import of package \"{path}\"")
        seen: Dict[str, int] = {}
        for kind, name, line in gf.decl_order:
            if kind in ("import", "method") or name == "_":
                continue
            if name in ("init", "main") and kind == "func":
                continue
            if name in seen:
                self.add(line, f"{name} redeclared in this block (previous declaration at line "
                               f"{seen[name]})")
            else:
                seen[name] = line
        seen_m: Dict[str, int] = {}
        for kind, name, line in gf.decl_order:
            if kind != "method":
                continue
            if name in seen_m:
                self.add(line, f"method {name} already declared at line {seen_m[name]}")
            else:
                seen_m[name] = line
            recv = name.split(".", 1)[0]
            if recv not in gf.types:
                self.add(line, f"method {name}: receiver type {recv} is not declared in this file")
        for gt in gf.type_list:
            self.check_type_expr(gt.expr, gt.line)
            if gt.kind == "struct":
                for f in gt.fields:
                    if f.name != "_" and f.name in self.method_set.get(gt.name, ()):
                        self.add(f.line, f"field and method with the same name {f.name} "
                                         f"in type {gt.name}")
        for c in gf.consts:
            if c.type is not None:
                self.check_type_name_text(c.type, c.line)
            if c.expr is not None:
                self.scopes = [{}]
                self.walk_expr(c.expr)
        for v in gf.vars:
            if v.type is not None:
                self.check_type_name_text(v.type, v.line)
            if v.expr is not None:
                self.scopes = [{}]
                self.walk_expr(v.expr)
        for f in gf.funcs:
            self.check_func(f)
        for (alias, path), line in zip(gf.imports, gf.import_lines):
            name = _import_name(alias, path)
            if alias != "_" and name not in self.used_pkgs:
                self.add(line, f"\"{path}\" imported" + (f" as {alias}" if alias else "")
                         + " and not used")
        return self.problems

    def check_type_name_text(self, text: str, line: int) -> None:
        try:
            t = _Parser("package p; type x " + text).parse_file().type_list[0].expr
        except GoParseError:
            return
        self.check_type_expr(t, line)

    def check_type_expr(self, t: Any, line: int) -> None:
        k = t[0]
        if k == "name":
            n = t[1]
            if self.lookup(n) is not None:
                self.add(line, f"{n} is not a type")
            elif n in self.gf.types:
                pass
            elif n in self.top:
                self.add(line, f"{n} is not a type")
            elif n not in _PREDECLARED_TYPES:
                self.add(line, f"undefined: {n}")
        elif k == "qual":
            self.check_qualified(t[1], t[2], line, want_type=True)
        elif k in ("ptr", "slice"):
            self.check_type_expr(t[1], line)
        elif k == "array":
            saved, self.scopes = self.scopes, [{}]
            self.walk_expr(t[1])
            self.scopes = saved
            n = _fold_const(t[1], {c.name: c.value for c in self.gf.consts})
            if isinstance(n, bool) or not isinstance(n, int) or n < 0:
                self.add(line, f"invalid array length {expr_str(t[1])}")
            self.check_type_expr(t[2], line)
        elif k == "struct":
            names: Dict[str, int] = {}
            for f in t[1]:
                if f.name != "_":
                    if f.name in names:
                        self.add(f.line, f"duplicate field {f.name} (previous at line "
                                         f"{names[f.name]})")
                    names[f.name] = f.line
                self.check_type_expr(f.type, f.line)
        # interface / func types: not descended into

    def check_qualified(self, pkg: str, name: str, line: int, want_type: bool = False) -> None:
        if pkg not in self.pkg_names:
            self.add(line, f"undefined: {pkg} (in {pkg}.{name})")
            return
        self.used_pkgs.add(pkg)
        if not (name[:1].isupper()):
            self.add(line, f"{pkg}.{name} refers to an unexported name")
        imp = self.imported.get(pkg)
        if imp is not None:
            if name not in imp.top_level_names:
                self.add(line, f"undefined: {pkg}.{name}")
            elif want_type and name not in imp.types:
                self.add(line, f"{pkg}.{name} is not a type")

    # -- scopes -------------------------------------------------------------
    def lookup(self, name: str) -> Optional[list]:
        for sc in reversed(self.scopes):
            if name in sc:
                return sc[name]
        return None

    def declare(self, name: str, texpr: Any, line: int, kind: str = "var") -> None:
        if name == "_" or not name:
            return
        sc = self.scopes[-1]
        if name in sc:
            self.add(line, f"{name} redeclared in this block")
        sc[name] = [texpr, kind != "var", line, kind]

    def push(self) -> None:
        self.scopes.append({})

    def pop(self) -> None:
        sc = self.scopes.pop()
        for name, (_t, used, line, kind) in sc.items():
            if not used and kind == "var":
                self.add(line, f"declared and not used: {name} (in {self.func_name})")

    # -- functions ----------------------------------------------------------
    def check_func(self, f: GoFunc) -> None:
        self.func_name = f.qualname
        self.scopes = [{}]
        if f.recv_type is not None:
            rt: Any = ("name", f.recv_type)
            if f.recv_ptr:
                rt = ("ptr", rt)
            self.declare(f.recv_name or "_", ("", rt), f.line, "param")
        names = set()
        for (n, _), t in zip(f.params, f.param_types):
            self.check_type_expr(t, f.line)
            if n and n != "_":
                if n in names or (f.recv_name and n == f.recv_name):
                    self.add(f.line, f"duplicate argument {n} in {f.qualname}")
                names.add(n)
        for (n, _), t in zip(f.params, f.param_types):
            if n and n != "_" and n not in self.scopes[-1]:
                self.declare(n, ("", t), f.line, "param")
        if f.result_type is not None and f.result_type[0] != "func":
            self.check_type_expr(f.result_type, f.line)
        # parameters live in the same block as the function body
        for s in f.body:
            self.walk_stmt(s)
        self.pop()
        self.scopes = []

    def walk_block(self, stmts: List[tuple]) -> None:
        self.push()
        for s in stmts:
            self.walk_stmt(s)
        self.pop()

    def walk_stmt(self, s: tuple) -> None:
        k = s[0]
        if k == "expr":
            self.walk_expr(s[1])
        elif k == "assign":
            op, lhs, rhs = s[1], s[2], s[3]
            for r in rhs:
                self.walk_expr(r)
            if op == ":=":
                new = 0
                for x in lhs:
                    n = x[1]
                    if n == "_":
                        continue
                    if n in self.scopes[-1]:
                        continue
                    new += 1
                    t = self.static_type(rhs[0]) if len(lhs) == 1 and len(rhs) == 1 else None
                    self.declare(n, t, s[-1])
                if new == 0:
                    self.add(s[-1], "no new variables on left side of :=")
            else:
                for x in lhs:
                    if x[0] == "ident":
                        if x[1] == "_":
                            continue
                        ent = self.lookup(x[1])
                        if ent is None:
                            self.walk_expr(x)  # reports undefined / resolves globals
                    else:
                        self.walk_expr(x)
        elif k == "incdec":
            if s[1][0] != "ident" or self.lookup(s[1][1]) is None:
                self.walk_expr(s[1])
        elif k == "return":
            for x in s[1]:
                self.walk_expr(x)
        elif k == "if":
            self.push()
            if s[1] is not None:
                self.walk_stmt(s[1])
            self.walk_expr(s[2])
            self.walk_block(s[3])
            if s[4] is not None:
                self.walk_stmt(s[4])
            self.pop()
        elif k == "switch":
            self.push()
            if s[1] is not None:
                self.walk_stmt(s[1])
            if s[2] is not None:
                self.walk_expr(s[2])
            seen: Dict[Any, int] = {}
            ndefault = 0
            consts = {c.name: c.value for c in self.gf.consts}
            for exprs, body, line, _span in s[3]:
                if exprs is None:
                    ndefault += 1
                    if ndefault > 1:
                        self.add(line, "multiple defaults in switch")
                else:
                    for ce in exprs:
                        self.walk_expr(ce)
                        v = _fold_const(ce, consts) if s[2] is not None else None
                        if v is not None:
                            key = (type(v).__name__, v)
                            if key in seen:
                                self.add(line, f"duplicate case {expr_str(ce)} in switch "
                                               f"(previous case at line {seen[key]})")
                            else:
                                seen[key] = line
                self.walk_block(body)
            self.pop()
        elif k == "for":
            self.push()
            if s[1] is not None:
                self.walk_stmt(s[1])
            if s[2] is not None:
                self.walk_expr(s[2])
            if s[3] is not None:
                self.walk_stmt(s[3])
            self.walk_block(s[4])
            self.pop()
        elif k == "range":
            self.walk_expr(s[4])
            self.push()
            for x in (s[1], s[2]):
                if x is None:
                    continue
                if s[3]:
                    if x[0] == "ident":
                        self.declare(x[1], None, s[-1])
                elif not (x[0] == "ident" and x[1] == "_"):
                    self.walk_expr(x)
            self.walk_block(s[5])
            self.pop()
        elif k == "block":
            self.walk_block(s[1])
        elif k in ("defer", "go"):
            self.walk_expr(s[1])
        elif k in ("var", "const"):
            if s[2] is not None:
                self.check_type_expr(s[2], s[-1])
            if s[3] is not None:
                self.walk_expr(s[3])
            self.declare(s[1], ("", s[2]) if s[2] is not None else None, s[-1],
                         "var" if k == "var" else "const")
        # break / continue: nothing

    # -- expressions --------------------------------------------------------
    def walk_expr(self, e: tuple) -> None:
        k = e[0]
        if k == "ident":
            n = e[1]
            ent = self.lookup(n)
            if ent is not None:
                ent[1] = True
                return
            if n == "_":
                self.add(e[-1], "cannot use _ as value")
            elif n in self.top or n in _PREDECLARED:
                return
            elif n in self.pkg_names:
                self.add(e[-1], f"use of package {n} without selector")
            else:
                self.add(e[-1], f"undefined: {n}")
        elif k in ("int", "str"):
            return
        elif k == "sel":
            base = e[1]
            if base[0] == "ident" and self.lookup(base[1]) is None and base[1] not in self.top \
                    and (base[1] in self.pkg_names or base[1] not in _PREDECLARED):
                if base[1] in self.pkg_names:
                    self.check_qualified(base[1], e[2], e[-1])
                else:
                    self.add(e[-1], f"undefined: {base[1]} (in {base[1]}.{e[2]})")
                return
            self.walk_expr(base)
            bt = self.static_type(base)
            if bt is not None:
                self.check_member(bt, e[2], e)
        elif k == "index":
            self.walk_expr(e[1])
            self.walk_expr(e[2])
        elif k == "slice":
            for x in (e[1], e[2], e[3]):
                if x is not None:
                    self.walk_expr(x)
        elif k == "call":
            self.walk_expr(e[1])
            for a in e[2]:
                self.walk_expr(a)
        elif k == "unary":
            self.walk_expr(e[2])
        elif k == "binary":
            self.walk_expr(e[2])
            self.walk_expr(e[3])
        elif k == "paren":
            self.walk_expr(e[1])
        elif k == "type":
            self.check_type_expr(e[1], e[-1])
        elif k == "complit":
            is_seq = e[1] is not None and e[1][0] in ("array", "slice")
            if e[1] is not None:
                self.check_type_expr(e[1], e[-1])
            for key, v in e[2]:
                if key is not None and (is_seq or key[0] != "ident"):
                    self.walk_expr(key)
                self.walk_expr(v)

    # -- light static typing for selector chains ------------------------------
    # A static type is (pkg, type expression) with pkg '' for this file.
    def static_type(self, e: tuple) -> Optional[Tuple[str, tuple]]:
        k = e[0]
        if k == "paren":
            return self.static_type(e[1])
        if k == "ident":
            ent = self.lookup(e[1])
            if ent is not None:
                return ent[0]
            return None
        if k == "sel":
            bt = self.static_type(e[1])
            if bt is None:
                return None
            st = self.struct_of(bt)
            if st is None:
                return None
            pkg, gt = st
            for f in gt.fields:
                if f.name == e[2]:
                    return (pkg, f.type)
            return None
        if k == "index":
            bt = self.static_type(e[1])
            if bt is None:
                return None
            r = self.resolve_named(bt)
            if r is None:
                return None
            pkg, t = r
            if t[0] in ("array", "slice"):
                return (pkg, t[-1])
            return None
        if k == "unary" and e[1] == "&":
            bt = self.static_type(e[2])
            return (bt[0], ("ptr", bt[1])) if bt is not None else None
        if k == "complit" and e[1] is not None:
            return ("", e[1])
        return None

    def file_of(self, pkg: str) -> Optional[GoFile]:
        return self.gf if pkg == "" else self.imported.get(pkg)

    def resolve_named(self, st: Tuple[str, tuple], depth: int = 0) -> Optional[Tuple[str, tuple]]:
        """Follow type names to the underlying type expression."""
        pkg, t = st
        if depth > 20:
            return None
        if t[0] == "name":
            gf = self.file_of(pkg)
            if gf is None or t[1] not in gf.types:
                return None
            return self.resolve_named((pkg, gf.types[t[1]].expr), depth + 1)
        if t[0] == "qual":
            if pkg != "" or t[1] not in self.imported:
                return None
            return self.resolve_named((t[1], ("name", t[2])), depth + 1)
        return (pkg, t)

    def named_of(self, st: Tuple[str, tuple]) -> Optional[Tuple[str, str]]:
        pkg, t = st
        if t[0] == "ptr":
            t = t[1]
        if t[0] == "name":
            return (pkg, t[1])
        if t[0] == "qual" and pkg == "":
            return (t[1], t[2])
        return None

    def struct_of(self, st: Tuple[str, tuple]) -> Optional[Tuple[str, GoType]]:
        pkg, t = st
        if t[0] == "ptr":
            t = t[1]
        nm = self.named_of((pkg, t))
        if nm is None:
            return None
        gf = self.file_of(nm[0])
        if gf is None:
            return None
        gt = gf.types.get(nm[1])
        hops = 0
        while gt is not None and gt.kind == "named" and hops < 20:
            # `type A B`: fields come from B (methods do not)
            r = self.named_of((nm[0], gt.expr))
            if r is None:
                return None
            gf2 = self.file_of(r[0])
            gt = gf2.types.get(r[1]) if gf2 else None
            nm = r
            hops += 1
        if gt is None or gt.kind != "struct":
            return None
        return (nm[0], gt)

    def check_member(self, bt: Tuple[str, tuple], name: str, e: tuple) -> None:
        nm = self.named_of(bt)
        if nm is None:
            return
        gf = self.file_of(nm[0])
        if gf is None or nm[1] not in gf.types:
            return
        gt = gf.types[nm[1]]
        methods = {f.name for f in gf.funcs if f.recv_type == nm[1]}
        if name in methods:
            return
        st = self.struct_of(bt)
        if st is not None:
            if any(f.name == name for f in st[1].fields):
                if nm[0] != "" and not name[:1].isupper():
                    self.add(e[-1], f"{expr_str(e)}: field {name} of {nm[0]}.{nm[1]} is unexported")
                return
        elif gt.kind == "interface":
            if any(n == name for n, _ in gt.expr[1]) or any(n is None for n, _ in gt.expr[1]):
                return
        elif gt.kind not in ("named", "array", "struct"):
            return
        self.add(e[-1], f"{expr_str(e)} undefined (type {type_str(bt[1])} has no field or method "
                        f"{name})")


def _bracket_problems(toks: List[Token]) -> List[str]:
    pairs = {")": "(", "]": "[", "}": "{"}
    stack: List[Tuple[str, int]] = []
    out: List[str] = []
    for t in toks:
        if t[0] != "op":
            continue
        v = t[1]
        if v in "([{" and len(v) == 1:
            stack.append((v, t[2]))
        elif v in pairs:
            if not stack:
                out.append(f"line {t[2]}: unbalanced {v!r} (no matching opening bracket)")
            elif stack[-1][0] != pairs[v]:
                o, ol = stack.pop()
                out.append(f"line {t[2]}: {v!r} closes {o!r} opened at line {ol}")
            else:
                stack.pop()
    for o, ol in stack:
        out.append(f"line {ol}: unbalanced {o!r} (never closed)")
    return out


def static_check(gofile: GoFile, imported: Optional[Dict[str, GoFile]] = None) -> List[str]:
    """Problems that make the Go toolchain reject the file (see module
    documentation); an empty list means none found."""
    return _Checker(gofile, imported).run()


def static_check_text(text: str, imported: Optional[Dict[str, GoFile]] = None) -> List[str]:
    """Like static_check but starting from source text; never raises on broken
    input: lexical, bracket and syntax problems are returned as problems."""
    try:
        toks = tokenize(text)
    except GoParseError as ex:
        return [f"lexical error: {ex}"]
    except Exception as ex:  # pragma: no cover - defensive
        return [f"lexical error: {type(ex).__name__}: {ex}"]
    probs = _bracket_problems(toks)
    if probs:
        return probs
    try:
        gf = parse_file(text)
    except GoParseError as ex:
        return [f"syntax error: {ex}"]
    except RecursionError:
        return ["syntax error: nesting too deep"]
    except Exception as ex:  # pragma: no cover - defensive
        return [f"internal parser error: {type(ex).__name__}: {ex}"]
    try:
        return static_check(gf, imported)
    except Exception as ex:  # pragma: no cover - defensive
        return [f"internal checker error: {type(ex).__name__}: {ex}"]
