"""sut_gotext -- read and evaluate generated Go text without a Go toolchain.

There is no Go toolchain on the verification machine, so Go output of the
bitproto compiler can never be compiled or executed.  This module is the
replacement: a tokenizer, a recursive-descent parser and a small typed
evaluator for exactly the subset of Go that the bitproto Go renderer emits
(standard mode and optimization mode ``-O``) plus what is needed to read
``lib/go/bitproto.go``.  Nothing in here ever calls ``eval``/``exec`` on Go
text.  Everything is stdlib-only Python 3.12.

SUPPORTED GO SUBSET (anything else raises GoParseError with a line number)
---------------------------------------------------------------------------
Lexical: line comments, general comments, identifiers, keywords, decimal /
hex / octal / binary integer literals (with ``_`` separators), interpreted
string literals ``"..."``, raw string literals, the Go operator set, and Go's
automatic semicolon insertion (a newline or EOF after an identifier, a
literal, one of ``break continue fallthrough return ++ -- ) ] }`` terminates
the statement).  Float, imaginary and rune literals are rejected.

Declarations: ``package x``; ``import "p"``, ``import alias "p"``,
``import ( ... )``; ``const N [T] = expr`` and ``const ( ... )`` blocks
(including implicit repetition with ``iota``); ``var x [T] [= expr]`` and
``var ( ... )``; ``type X T``, ``type X = T``, ``type ( ... )``; functions and
methods with value or pointer receivers, grouped parameters (``j, c int``),
``_`` parameters, zero or one unnamed result (or a parenthesised result list,
kept as text).
Types: names, ``pkg.Name``, ``*T``, ``[]T``, ``[n]T``, ``struct { ... }``
(fields with optional tags, several names per field), ``interface { ... }``
(method signatures and embedded names), ``func(...)...``.
Statements: expression statements, ``=``, ``:=`` and every ``op=`` assignment,
``++``/``--``, ``return``, ``if``/``else if``/``else`` (with optional init),
expression ``switch`` (with optional init / tag, ``case a, b:``,
``default:``), ``for`` (infinite, condition, three-clause, ``range``),
``break``, ``continue``, ``defer``, ``go``, blocks, local ``var``/``const``.
Expressions: identifiers, literals, selectors, index, slice ``a[i:j]``,
calls / conversions, composite literals ``T{...}``, ``&T{...}``,
``[]*p.T{..., }`` (not recognised directly in ``if``/``for``/``switch``
headers, exactly like Go), unary ``+ - ! ^ & *``, parentheses and binary
operators with Go precedence
(5: ``* / % << >> & &^``  4: ``+ - | ^``  3: ``== != < <= > >=``  2: ``&&``
1: ``||``), all left associative.
Not supported: generics, labels, goto, select, channels, type switches, type
assertions, function literals, maps, variadics, multi-name const specs.

EVALUATOR SEMANTICS (class GoEval / load_runtime_helpers)
---------------------------------------------------------
Functions are compiled once into Python closures with *static* Go typing:
every expression has a Go type, or is an untyped constant (integer, boolean
or string) of arbitrary precision.  Type errors that the Go compiler would
report are raised as EvalError when the function is compiled (i.e. on the
first call); run-time panics are raised as EvalError when they happen.

* Integer types: int8/16/32/64, uint8/16/32/64, byte (alias of uint8), int and
  uint (64 bit), uintptr (64 bit); bool; string.  Named types (``type X
  uint8``) are distinct types with the representation of their underlying
  type; arrays, slices, structs, pointers to structs.
* Values: integers are Python ints kept in the range of their type, bools are
  Python bools, arrays and slices are Python lists, structs are dicts
  ``{GoFieldName: value}``; a pointer to a struct is the dict itself.
* Conversions ``T(x)``: integer to integer wraps modulo 2**width and
  reinterprets the bit pattern as signed for signed targets; converting an
  untyped constant that is not representable in T is an error (Go: "constant
  overflows"); bool <-> named bool allowed; integer <-> bool rejected.
* ``+ - * & | ^ &^`` wrap to the width of the operand type.  ``/`` and ``%``
  truncate toward zero (``%`` takes the sign of the dividend); division by
  zero is an error.  Unary ``-`` and ``^`` wrap likewise.
* ``x << n`` has the type of x and wraps to its width; ``x >> n`` is
  arithmetic for signed x and logical for unsigned x.  The shift count may be
  of any integer type or an untyped constant; a negative count is an error
  (compile-time for constants, run-time panic otherwise).
* A binary operation between a typed operand and an untyped constant has the
  typed operand's type; the constant must be representable in that type
  (``byte(x) & 256`` is rejected).  A binary operation (other than a shift)
  between two operands of different types is rejected, e.g. ``uint8 | uint16``
  or ``MyEnum | uint8``.  Comparisons yield an untyped boolean.  ``&&`` and
  ``||`` short-circuit and need boolean operands.
* Assignment needs identical types or a representable untyped constant
  (bool is not assignable to ``type Flag bool`` and vice versa).  ``x op= y``
  is ``x = x op y``.
* Indexing an array/slice checks bounds (constant indices of arrays at compile
  time); index must be an integer.
* Calls: functions without receiver declared in the same file (compiled from
  their parsed bodies, e.g. bool2byte/byte2bool/min), builtins ``make([]T, n)``
  and ``len``.  ``return x`` converts an untyped constant to the result type.
* Supported statements: ``:=`` / ``var`` with one name, assignments, ``++``,
  ``--``, ``if``/``else``, expression ``switch`` without fallthrough,
  ``return``, call statements, blocks, three-clause / condition ``for`` with
  ``break``/``continue``.
* Documented simplifications: (1) typed constant expressions are not tracked,
  so ``int8(100) + int8(100)`` wraps instead of being rejected; (2) if the left
  operand of a non-constant shift is an untyped constant it is converted to
  ``int`` (Go uses the type from the context, which is ``int`` in every place
  where the supported code does this); (3) method calls, pointers other than
  pointer-to-struct receivers, ``&x``, ``*p``, range loops, defer, slices of
  slices and composite literals are not evaluated (EvalError).

STRUCTURAL EXTRACTION (standard mode)
-------------------------------------
``size_constants``, ``size_methods``, ``processor_tree`` and
``accessor_tables`` pattern-match the parsed AST of the generated methods and
return plain dict/list structures; a ``case`` with an unexpected body is
returned with an ``'unparsed'`` key carrying its source text.

STATIC CHECKS
-------------
``static_check`` / ``static_check_text`` implement the part of "the Go
toolchain would accept this file" that can be decided without type checking:
lexical well-formedness, bracket balance, the grammar above, imports before
other declarations, duplicate declarations / methods / struct fields / case
values, unused imports, unused local variables declared with ``:=`` are NOT
checked, undeclared identifiers, unknown fields on ``m.`` selector chains,
unknown names in imported packages.
"""

from __future__ import annotations

import re
from dataclasses import dataclass, field
from typing import Any, Callable, Dict, List, Optional, Tuple

__all__ = [
    "GoParseError", "EvalError", "GoFile", "GoConst", "GoVar", "GoType",
    "GoField", "GoFunc", "tokenize", "parse_file", "type_str", "expr_str",
    "stmt_str", "size_constants", "size_methods", "processor_tree",
    "accessor_tables", "GoEval", "load_runtime_helpers", "RuntimeHelpers",
    "static_check", "static_check_text", "decode_go_string_literal",
    "go_literal_ok",
]


class GoParseError(Exception):
    """Raised for Go text outside the supported subset (carries a line)."""

    def __init__(self, message: str, line: int = 0) -> None:
        super().__init__(f"line {line}: {message}")
        self.message = message
        self.line = line


class EvalError(Exception):
    """Raised where Go would reject the program or panic at run time."""


# ---------------------------------------------------------------------------
# F. Go string literal decoding
# ---------------------------------------------------------------------------

_SIMPLE_ESCAPES = {
    "a": "\a", "b": "\b", "f": "\f", "n": "\n", "r": "\r", "t": "\t",
    "v": "\v", "\\": "\\", '"': '"',
}
_HEXDIGITS = set("0123456789abcdefABCDEF")


def decode_go_string_literal(text: str) -> str:
    """Decode one Go string literal (interpreted ``"..."`` or raw `` `...` ``).

    Follows the Go specification.  Raises ValueError where Go would reject
    the literal: not properly delimited, raw newline or unescaped quote inside
    an interpreted string, unknown escape (including ``\\'``), malformed
    ``\\ooo`` / ``\\xhh`` / ``\\uXXXX`` / ``\\UXXXXXXXX``, octal escape above
    255, surrogate halves or code points above 0x10FFFF.

    ``\\ooo`` and ``\\xhh`` denote single *bytes*; the resulting byte string is
    decoded as UTF-8 (invalid sequences are kept via surrogateescape) so that
    the returned Python ``str`` equals the Go string whenever that is valid
    UTF-8.
    """
    if not isinstance(text, str) or len(text) < 2:
        raise ValueError("not a Go string literal")
    if text[0] == "`":
        if text[-1] != "`" or "`" in text[1:-1]:
            raise ValueError("raw string literal not terminated properly")
        return text[1:-1].replace("\r", "")
    if text[0] != '"':
        raise ValueError("not a Go string literal")
    if text[-1] != '"':
        raise ValueError("string literal not terminated")
    body = text[1:-1]
    out = bytearray()
    i, n = 0, len(body)
    while i < n:
        ch = body[i]
        if ch == "\n":
            raise ValueError("newline in string literal")
        if ch == '"':
            raise ValueError("unescaped quote inside string literal")
        if ch != "\\":
            out += ch.encode("utf-8", "surrogatepass")
            i += 1
            continue
        i += 1
        if i >= n:
            raise ValueError("string literal not terminated (trailing backslash)")
        e = body[i]
        if e in _SIMPLE_ESCAPES:
            out += _SIMPLE_ESCAPES[e].encode()
            i += 1
        elif e in "01234567":
            digs = body[i:i + 3]
            if len(digs) < 3 or any(d not in "01234567" for d in digs):
                raise ValueError("malformed octal escape")
            v = int(digs, 8)
            if v > 255:
                raise ValueError("octal escape value > 255")
            out.append(v)
            i += 3
        elif e in "xuU":
            cnt = {"x": 2, "u": 4, "U": 8}[e]
            digs = body[i + 1:i + 1 + cnt]
            if len(digs) < cnt or any(d not in _HEXDIGITS for d in digs):
                raise ValueError(f"malformed \\{e} escape")
            v = int(digs, 16)
            if e == "x":
                out.append(v)
            else:
                if v > 0x10FFFF or 0xD800 <= v <= 0xDFFF:
                    raise ValueError("escape is invalid Unicode code point")
                out += chr(v).encode("utf-8")
            i += 1 + cnt
        else:
            raise ValueError(f"unknown escape sequence \\{e}")
    return out.decode("utf-8", "surrogateescape")


def go_literal_ok(text: str) -> bool:
    """True iff *text* is exactly one string literal that Go accepts."""
    try:
        decode_go_string_literal(text)
        return True
    except ValueError:
        return False


# ---------------------------------------------------------------------------
# A1. Tokenizer
# ---------------------------------------------------------------------------

KEYWORDS = frozenset(
    "break case chan const continue default defer else fallthrough for func go "
    "goto if import interface map package range return select struct switch "
    "type var".split()
)

_OPERATORS = [
    "<<=", ">>=", "&^=", "...", "&&", "||", "<-", "++", "--", "==", "!=", "<=",
    ">=", ":=", "+=", "-=", "*=", "/=", "%=", "&=", "|=", "^=", "<<", ">>",
    "&^", "+", "-", "*", "/", "%", "&", "|", "^", "<", ">", "=", "!", "(", ")",
    "[", "]", "{", "}", ",", ";", ".", ":", "~",
]

_TOKEN_RE = re.compile(
    r"""
    (?P<ws>[ \t\r]+)
  | (?P<nl>\n)
  | (?P<lc>//[^\n]*)
  | (?P<gc>/\*.*?\*/)
  | (?P<badgc>/\*)
  | (?P<ident>[^\W\d]\w*)
  | (?P<float>(?:\d[\d_]*\.[\d_]*(?:[eE][+-]?\d+)?|\.\d[\d_]*(?:[eE][+-]?\d+)?|\d[\d_]*[eE][+-]?\d+)i?)
  | (?P<int>0[xX][0-9a-fA-F_]+|0[bB][01_]+|0[oO][0-7_]+|\d[\d_]*)
  | (?P<str>"(?:[^"\\\n]|\\.)*")
  | (?P<badstr>"(?:[^"\\\n]|\\.)*)
  | (?P<raw>`[^`]*`)
  | (?P<badraw>`)
  | (?P<rune>'(?:[^'\\\n]|\\.)*'?)
  | (?P<op>""" + "|".join(re.escape(o) for o in _OPERATORS) + r""")
    """,
    re.VERBOSE | re.DOTALL,
)

# Token: (kind, value, line, start_offset, end_offset)
#   kind in: 'ident', 'kw', 'int', 'str' (interpreted), 'raw', 'op'
#   automatic semicolons are ('op', ';', line, off, off) with zero length
Token = Tuple[str, Any, int, int, int]

_SEMI_AFTER_OPS = frozenset(["++", "--", ")", "]", "}"])
_SEMI_AFTER_KWS = frozenset(["break", "continue", "fallthrough", "return"])


def _parse_int_literal(text: str, line: int) -> int:
    t = text.replace("_", "")
    try:
        if len(t) > 1 and t[0] == "0" and t[1] in "xXbBoO":
            return int(t, 0)
        if len(t) > 1 and t[0] == "0":
            return int(t, 8)  # legacy octal
        return int(t, 10)
    except ValueError:
        raise GoParseError(f"malformed integer literal {text!r}", line)


def tokenize(text: str) -> List[Token]:
    """Tokenize Go source text with automatic semicolon insertion.

    Raises GoParseError for unterminated strings/comments, unsupported literal
    kinds and stray characters.
    """
    toks: List[Token] = []
    pos, n, line = 0, len(text), 1
    match = _TOKEN_RE.match
    need_semi = False  # would a newline here insert a semicolon?
    while pos < n:
        m = match(text, pos)
        if m is None:
            raise GoParseError(f"unexpected character {text[pos]!r}", line)
        kind = m.lastgroup
        end = m.end()
        if kind == "ws":
            pos = end
            continue
        if kind == "nl" or kind == "lc":
            if need_semi:
                toks.append(("op", ";", line, pos, pos))
                need_semi = False
            if kind == "nl":
                line += 1
            pos = end
            continue
        if kind == "gc":
            nls = text.count("\n", pos, end)
            if nls and need_semi:
                toks.append(("op", ";", line, pos, pos))
                need_semi = False
            line += nls
            pos = end
            continue
        val = m.group()
        if kind == "ident":
            if val in KEYWORDS:
                toks.append(("kw", val, line, pos, end))
                need_semi = val in _SEMI_AFTER_KWS
            else:
                toks.append(("ident", val, line, pos, end))
                need_semi = True
        elif kind == "op":
            toks.append(("op", val, line, pos, end))
            need_semi = val in _SEMI_AFTER_OPS
        elif kind == "int":
            toks.append(("int", _parse_int_literal(val, line), line, pos, end))
            need_semi = True
        elif kind == "str":
            toks.append(("str", val, line, pos, end))
            need_semi = True
        elif kind == "raw":
            toks.append(("raw", val, line, pos, end))
            line += val.count("\n")
            need_semi = True
        elif kind == "badgc":
            raise GoParseError("comment not terminated", line)
        elif kind == "badstr":
            raise GoParseError("string literal not terminated", line)
        elif kind == "badraw":
            raise GoParseError("raw string literal not terminated", line)
        elif kind == "float":
            raise GoParseError(f"floating-point/imaginary literal {val!r} is not supported", line)
        elif kind == "rune":
            raise GoParseError(f"rune literal {val!r} is not supported", line)
        else:  # pragma: no cover
            raise GoParseError(f"unexpected token {val!r}", line)
        pos = end
    if need_semi:
        toks.append(("op", ";", line, n, n))
    toks.append(("eof", None, line, n, n))
    return toks


# ---------------------------------------------------------------------------
# A2. AST
# ---------------------------------------------------------------------------
#
# Type expressions (tuples):
#   ('name', 'int32')            ('qual', 'pkg', 'Name')
#   ('ptr', T)   ('slice', T)    ('array', length_expr, T)  length_expr is an expression
#   ('struct', [GoField...])     ('interface', [(name|None, text)...])
#   ('func', text)
# Expressions (tuples, last element is always the line number):
#   ('ident', name, line)        ('int', value, line)      ('str', value, text, line)
#   ('sel', X, name, line)       ('index', X, I, line)     ('slice', X, lo, hi, line)
#   ('call', F, [args], line)    ('unary', op, X, line)    ('binary', op, L, R, line)
#   ('paren', X, line)           ('complit', T|None, [(key|None, value)...], line)
#   ('type', T, line)            -- a type used in expression position
# Statements (tuples, last element is the line number):
#   ('expr', X, line)            ('assign', op, [lhs], [rhs], line)
#   ('incdec', X, op, line)      ('return', [X], line)
#   ('if', init|None, cond, [stmts], else_stmt|None, line)     else_stmt: ('if',..)|('block',..)
#   ('switch', init|None, tag|None, [clause...], line)
#        clause = (exprs|None, [stmts], line, (src_start, src_end))   exprs None = default
#   ('for', init|None, cond|None, post|None, [stmts], line)
#   ('range', key|None, value|None, define:bool, X, [stmts], line)
#   ('block', [stmts], line)     ('break', line)   ('continue', line)
#   ('defer', X, line)  ('go', X, line)
#   ('var', name, T|None, X|None, line)    ('const', name, T|None, X|None, line)


@dataclass
class GoField:
    name: str
    type: tuple                 # type expression, see type_str()
    tag: Optional[str] = None   # json tag name, e.g. 'status'
    raw_tag: Optional[str] = None
    line: int = 0

    @property
    def type_str(self) -> str:
        return type_str(self.type)


@dataclass
class GoType:
    name: str
    kind: str                   # 'named' | 'array' | 'struct' | 'interface' | 'other'
    expr: tuple                 # full type expression
    underlying: Optional[str] = None    # kind == 'named'
    length: Optional[int] = None        # kind == 'array'
    elem: Optional[str] = None          # kind == 'array' (type_str of the element)
    elem_expr: Optional[tuple] = None
    fields: List[GoField] = field(default_factory=list)   # kind == 'struct'
    is_alias: bool = False      # `type X = T`
    line: int = 0


@dataclass
class GoConst:
    name: str
    type: Optional[str]
    value_text: str
    value: Any                  # int | bool | str | None (not a constant expression we can fold)
    expr: Optional[tuple] = None
    in_block: bool = False
    line: int = 0


@dataclass
class GoVar:
    name: str
    type: Optional[str]
    expr: Optional[tuple]
    line: int = 0


@dataclass
class GoFunc:
    name: str
    recv_type: Optional[str]
    recv_ptr: bool
    recv_name: Optional[str]
    params: List[Tuple[str, str]]
    result: Optional[str]
    body: List[tuple]
    param_types: List[tuple] = field(default_factory=list)   # type expressions
    result_type: Optional[tuple] = None
    line: int = 0
    src: Tuple[int, int] = (0, 0)

    @property
    def qualname(self) -> str:
        return f"{self.recv_type}.{self.name}" if self.recv_type else self.name


@dataclass
class GoFile:
    package: str = ""
    imports: List[Tuple[Optional[str], str]] = field(default_factory=list)
    import_lines: List[int] = field(default_factory=list)
    consts: List[GoConst] = field(default_factory=list)
    vars: List[GoVar] = field(default_factory=list)
    types: Dict[str, GoType] = field(default_factory=dict)
    type_list: List[GoType] = field(default_factory=list)  # with duplicates, source order
    funcs: List[GoFunc] = field(default_factory=list)
    top_level_names: List[str] = field(default_factory=list)
    methods: List[str] = field(default_factory=list)
    decl_order: List[Tuple[str, str, int]] = field(default_factory=list)  # (kind, name, line)
    text: str = ""

    def func(self, name: str, recv_type: Optional[str] = None) -> Optional[GoFunc]:
        for f in self.funcs:
            if f.name == name and f.recv_type == recv_type:
                return f
        return None

    def source(self, span: Tuple[int, int]) -> str:
        return self.text[span[0]:span[1]]


def type_str(t: Any) -> str:
    """Canonical Go spelling of a type expression, e.g. ``[4]Propeller``."""
    if t is None:
        return ""
    if isinstance(t, str):
        return t
    k = t[0]
    if k == "name":
        return t[1]
    if k == "qual":
        return f"{t[1]}.{t[2]}"
    if k == "ptr":
        return "*" + type_str(t[1])
    if k == "slice":
        return "[]" + type_str(t[1])
    if k == "array":
        return f"[{expr_str(t[1])}]" + type_str(t[2])
    if k == "struct":
        inner = "; ".join(f"{f.name} {type_str(f.type)}" for f in t[1])
        return "struct{" + inner + "}"
    if k == "interface":
        return "interface{" + "; ".join(x[1] for x in t[1]) + "}"
    if k == "func":
        return t[1]
    raise ValueError(f"unknown type expression {t!r}")


_PREC = {
    "||": 1, "&&": 2,
    "==": 3, "!=": 3, "<": 3, "<=": 3, ">": 3, ">=": 3,
    "+": 4, "-": 4, "|": 4, "^": 4,
    "*": 5, "/": 5, "%": 5, "<<": 5, ">>": 5, "&": 5, "&^": 5,
}


def expr_str(e: Any) -> str:
    """Unparse an expression AST to canonical Go text (fully faithful to the
    tree: parentheses in the source are 'paren' nodes and are kept)."""
    if e is None:
        return ""
    k = e[0]
    if k == "ident":
        return e[1]
    if k == "int":
        return str(e[1])
    if k == "str":
        return e[2]
    if k == "sel":
        return f"{expr_str(e[1])}.{e[2]}"
    if k == "index":
        return f"{expr_str(e[1])}[{expr_str(e[2])}]"
    if k == "slice":
        return f"{expr_str(e[1])}[{expr_str(e[2])}:{expr_str(e[3])}]"
    if k == "call":
        return f"{expr_str(e[1])}({', '.join(expr_str(a) for a in e[2])})"
    if k == "unary":
        return f"{e[1]}{expr_str(e[2])}"
    if k == "binary":
        return f"{expr_str(e[2])} {e[1]} {expr_str(e[3])}"
    if k == "paren":
        return f"({expr_str(e[1])})"
    if k == "complit":
        els = ", ".join((expr_str(kk) + ": " if kk is not None else "") + expr_str(v)
                        for kk, v in e[2])
        return f"{type_str(e[1])}{{{els}}}"
    if k == "type":
        return type_str(e[1])
    raise ValueError(f"unknown expression node {e!r}")


def stmt_str(s: Any) -> str:
    """Unparse a statement AST to one line of Go-like text (for messages)."""
    k = s[0]
    if k == "expr":
        return expr_str(s[1])
    if k == "assign":
        return f"{', '.join(map(expr_str, s[2]))} {s[1]} {', '.join(map(expr_str, s[3]))}"
    if k == "incdec":
        return expr_str(s[1]) + s[2]
    if k == "return":
        return ("return " + ", ".join(map(expr_str, s[1]))).rstrip()
    if k == "block":
        return "{ " + "; ".join(map(stmt_str, s[1])) + " }"
    if k == "if":
        init = stmt_str(s[1]) + "; " if s[1] else ""
        r = f"if {init}{expr_str(s[2])} {{ " + "; ".join(map(stmt_str, s[3])) + " }"
        if s[4]:
            r += " else " + stmt_str(s[4])
        return r
    if k == "switch":
        init = stmt_str(s[1]) + "; " if s[1] else ""
        parts = []
        for exprs, body, _l, _sp in s[3]:
            head = "default:" if exprs is None else "case " + ", ".join(map(expr_str, exprs)) + ":"
            parts.append(head + " " + "; ".join(map(stmt_str, body)))
        return f"switch {init}{expr_str(s[2])} {{ " + " ".join(parts) + " }"
    if k == "for":
        return (f"for {stmt_str(s[1]) if s[1] else ''}; {expr_str(s[2])}; "
                f"{stmt_str(s[3]) if s[3] else ''} {{ " + "; ".join(map(stmt_str, s[4])) + " }")
    if k == "range":
        return f"for ... range {expr_str(s[4])} {{ " + "; ".join(map(stmt_str, s[5])) + " }"
    if k in ("break", "continue"):
        return k
    if k in ("defer", "go"):
        return f"{k} {expr_str(s[1])}"
    if k in ("var", "const"):
        r = f"{k} {s[1]}"
        if s[2] is not None:
            r += " " + type_str(s[2])
        if s[3] is not None:
            r += " = " + expr_str(s[3])
        return r
    raise ValueError(f"unknown statement node {s!r}")


# ---------------------------------------------------------------------------
# A3. Parser
# ---------------------------------------------------------------------------

_ASSIGN_OPS = frozenset(["=", ":=", "+=", "-=", "*=", "/=", "%=", "&=", "|=", "^=",
                         "<<=", ">>=", "&^="])
_UNARY_OPS = frozenset(["+", "-", "!", "^", "&", "*"])
_JSON_TAG_RE = re.compile(r'json:"([^",]*)[^"]*"')


class _Parser:
    def __init__(self, text: str) -> None:
        self.text = text
        self.toks = tokenize(text)
        self.i = 0
        self.nolit = 0  # >0: composite literals `T{` not recognised (control clause headers)

    # -- token helpers ------------------------------------------------------
    def err(self, msg: str, tok: Optional[Token] = None) -> GoParseError:
        tok = tok or self.toks[self.i]
        return GoParseError(msg, tok[2])

    def peek_is(self, kind: str, val: Any = None) -> bool:
        t = self.toks[self.i]
        return t[0] == kind and (val is None or t[1] == val)

    def is_op(self, val: str) -> bool:
        t = self.toks[self.i]
        return t[0] == "op" and t[1] == val

    def is_kw(self, val: str) -> bool:
        t = self.toks[self.i]
        return t[0] == "kw" and t[1] == val

    def next(self) -> Token:
        t = self.toks[self.i]
        self.i += 1
        return t

    def describe(self, t: Token) -> str:
        if t[0] == "eof":
            return "end of file"
        if t[0] == "op" and t[1] == ";" and t[3] == t[4]:
            return "newline"
        return repr(self.text[t[3]:t[4]])

    def expect_op(self, val: str) -> Token:
        t = self.toks[self.i]
        if t[0] != "op" or t[1] != val:
            raise self.err(f"expected {val!r}, found {self.describe(t)}")
        self.i += 1
        return t

    def expect_kw(self, val: str) -> Token:
        t = self.toks[self.i]
        if t[0] != "kw" or t[1] != val:
            raise self.err(f"expected keyword {val!r}, found {self.describe(t)}")
        self.i += 1
        return t

    def expect_ident(self) -> Token:
        t = self.toks[self.i]
        if t[0] != "ident":
            raise self.err(f"expected identifier, found {self.describe(t)}")
        self.i += 1
        return t

    def skip_semi(self) -> None:
        """Consume a statement terminator: ';' (optional before ')' or '}')."""
        t = self.toks[self.i]
        if t[0] == "op" and t[1] == ";":
            self.i += 1
        elif t[0] == "op" and t[1] in (")", "}"):
            pass
        elif t[0] == "eof":
            pass
        else:
            raise self.err(f"expected ';' or newline, found {self.describe(t)}")

    # -- file ---------------------------------------------------------------
    def parse_file(self) -> GoFile:
        gf = GoFile(text=self.text)
        while self.is_op(";"):
            self.i += 1
        self.expect_kw("package")
        gf.package = self.expect_ident()[1]
        self.skip_semi()
        while not self.peek_is("eof"):
            t = self.toks[self.i]
            if t[0] == "op" and t[1] == ";":
                self.i += 1
                continue
            if t[0] != "kw":
                raise self.err(f"expected declaration, found {self.describe(t)}")
            kw = t[1]
            if kw == "import":
                self.parse_import(gf)
            elif kw == "const":
                self.parse_const_decl(gf)
            elif kw == "var":
                self.parse_var_decl(gf)
            elif kw == "type":
                self.parse_type_decl(gf)
            elif kw == "func":
                self.parse_func_decl(gf)
            else:
                raise self.err(f"unsupported top-level construct {kw!r}")
            self.skip_semi()
        return gf

    def parse_import(self, gf: GoFile) -> None:
        line = self.expect_kw("import")[2]
        gf.decl_order.append(("import", "", line))

        def spec() -> None:
            alias = None
            t = self.toks[self.i]
            if t[0] == "ident":
                alias = t[1]
                self.i += 1
            elif t[0] == "op" and t[1] == ".":
                raise self.err("dot imports are not supported")
            t = self.toks[self.i]
            if t[0] not in ("str", "raw"):
                raise self.err(f"expected import path string, found {self.describe(t)}")
            self.i += 1
            try:
                path = decode_go_string_literal(t[1])
            except ValueError as e:
                raise self.err(f"bad import path literal: {e}", t)
            gf.imports.append((alias, path))
            gf.import_lines.append(t[2])

        if self.is_op("("):
            self.i += 1
            while not self.is_op(")"):
                if self.is_op(";"):
                    self.i += 1
                    continue
                spec()
                self.skip_semi()
            self.expect_op(")")
        else:
            spec()

    def parse_const_decl(self, gf: Optional[GoFile]) -> List[tuple]:
        """Parses `const ...`.  With gf: records GoConst entries.  Returns
        local const statements otherwise."""
        self.expect_kw("const")
        out: List[tuple] = []
        env: Dict[str, Any] = {c.name: c.value for c in gf.consts} if gf else {}

        def spec(iota: int, prev: Optional[Tuple[Optional[tuple], Optional[tuple], str]],
                 in_block: bool):
            nt = self.expect_ident()
            if self.is_op(","):
                raise self.err("multi-name const specs are not supported")
            ctype = None
            if not self.is_op("=") and not self.is_op(";") and not self.is_op(")"):
                ctype = self.parse_type()
            if self.is_op("="):
                self.i += 1
                s = self.toks[self.i][3]
                e = self.parse_expr()
                text = self.text[s:self.toks[self.i - 1][4]]
            else:
                if prev is None or ctype is not None:
                    raise self.err("const declaration without value", nt)
                ctype, e, text = prev  # implicit repetition
            value = _fold_const(e, env, iota)
            if gf is not None:
                gf.consts.append(GoConst(nt[1], type_str(ctype) if ctype else None, text,
                                         value, e, in_block, nt[2]))
                gf.top_level_names.append(nt[1])
                gf.decl_order.append(("const", nt[1], nt[2]))
            else:
                out.append(("const", nt[1], ctype, e, nt[2]))
            env[nt[1]] = value
            return (ctype, e, text)

        if self.is_op("("):
            self.i += 1
            iota, prev = 0, None
            while not self.is_op(")"):
                if self.is_op(";"):
                    self.i += 1
                    continue
                prev = spec(iota, prev, True)
                iota += 1
                self.skip_semi()
            self.expect_op(")")
        else:
            spec(0, None, False)
        return out

    def parse_var_spec(self) -> Tuple[Token, Optional[tuple], Optional[tuple]]:
        nt = self.toks[self.i]
        if nt[0] != "ident":
            raise self.err(f"expected identifier, found {self.describe(nt)}")
        self.i += 1
        if self.is_op(","):
            raise self.err("multi-name var specs are not supported")
        vtype = None
        if not self.is_op("="):
            vtype = self.parse_type()
        e = None
        if self.is_op("="):
            self.i += 1
            e = self.parse_expr()
        return nt, vtype, e

    def parse_var_decl(self, gf: GoFile) -> None:
        self.expect_kw("var")

        def spec() -> None:
            nt, vtype, e = self.parse_var_spec()
            gf.vars.append(GoVar(nt[1], type_str(vtype) if vtype else None, e, nt[2]))
            gf.top_level_names.append(nt[1])
            gf.decl_order.append(("var", nt[1], nt[2]))

        if self.is_op("("):
            self.i += 1
            while not self.is_op(")"):
                if self.is_op(";"):
                    self.i += 1
                    continue
                spec()
                self.skip_semi()
            self.expect_op(")")
        else:
            spec()

    def parse_type_decl(self, gf: GoFile) -> None:
        self.expect_kw("type")

        def spec() -> None:
            nt = self.expect_ident()
            if self.is_op("["):
                # could be an array type or generics; decide: `[` `]` or `[` expr `]` Type
                pass
            is_alias = False
            if self.is_op("="):
                self.i += 1
                is_alias = True
            t = self.parse_type()
            gt = _make_gotype(nt[1], t, is_alias, nt[2])
            gf.type_list.append(gt)
            gf.types.setdefault(nt[1], gt)
            gf.top_level_names.append(nt[1])
            gf.decl_order.append(("type", nt[1], nt[2]))

        if self.is_op("("):
            self.i += 1
            while not self.is_op(")"):
                if self.is_op(";"):
                    self.i += 1
                    continue
                spec()
                self.skip_semi()
            self.expect_op(")")
        else:
            spec()

    def parse_params(self) -> List[Tuple[str, tuple]]:
        """Parses `( ... )` parameter list; returns [(name, type)] (name '' if unnamed)."""
        self.expect_op("(")
        entries: List[Tuple[Optional[tuple], int]] = []  # (type-or-name candidates)
        raw: List[Tuple[Optional[str], Optional[tuple]]] = []
        while not self.is_op(")"):
            if self.is_op("..."):
                raise self.err("variadic parameters are not supported")
            # Either `name Type`, `name` (grouped, type follows later) or `Type`
            t = self.toks[self.i]
            if t[0] == "ident":
                nxt = self.toks[self.i + 1]
                if nxt[0] == "op" and nxt[1] in (",", ")"):
                    # lone identifier: name of a group or an unnamed type
                    self.i += 1
                    raw.append((t[1], None))
                elif nxt[0] == "op" and nxt[1] == ".":
                    raw.append((None, self.parse_type()))
                else:
                    self.i += 1
                    if self.is_op("..."):
                        raise self.err("variadic parameters are not supported")
                    raw.append((t[1], self.parse_type()))
            else:
                raw.append((None, self.parse_type()))
            if self.is_op(","):
                self.i += 1
            elif not self.is_op(")"):
                raise self.err(f"expected ',' or ')', found {self.describe(self.toks[self.i])}")
        self.expect_op(")")
        del entries
        named = any(n is not None and t is not None for n, t in raw)
        out: List[Tuple[str, tuple]] = []
        if named:
            pending: List[str] = []
            for n, t in raw:
                if n is None:
                    raise self.err("mixed named and unnamed parameters")
                if t is None:
                    pending.append(n)
                else:
                    for p in pending:
                        out.append((p, t))
                    pending = []
                    out.append((n, t))
            if pending:
                raise self.err("parameter without type")
        else:
            for n, t in raw:
                out.append(("", t if t is not None else ("name", n)))
        return out

    def parse_func_decl(self, gf: GoFile) -> None:
        ft = self.expect_kw("func")
        recv_type = recv_name = None
        recv_ptr = False
        if self.is_op("("):
            rp = self.parse_params()
            if len(rp) != 1:
                raise self.err("method receiver must be a single parameter", ft)
            recv_name, rt = rp[0]
            if rt[0] == "ptr":
                recv_ptr = True
                rt = rt[1]
            if rt[0] != "name":
                raise self.err("unsupported receiver type " + type_str(rt), ft)
            recv_type = rt[1]
        nt = self.expect_ident()
        if self.is_op("["):
            raise self.err("generic functions are not supported")
        params = self.parse_params()
        result_type = None
        result = None
        if self.is_op("("):
            s = self.toks[self.i][3]
            rl = self.parse_params()
            if len(rl) == 1 and rl[0][0] == "":
                result_type = rl[0][1]
                result = type_str(result_type)
            elif rl:
                result = self.text[s:self.toks[self.i - 1][4]]
                result_type = ("func", result)
        elif not self.is_op("{") and not self.is_op(";"):
            result_type = self.parse_type()
            result = type_str(result_type)
        if not self.is_op("{"):
            raise self.err("function declaration without body is not supported")
        s = ft[3]
        body = self.parse_block()
        fn = GoFunc(nt[1], recv_type, recv_ptr, recv_name,
                    [(n, type_str(t)) for n, t in params], result, body,
                    [t for _, t in params], result_type, ft[2],
                    (s, self.toks[self.i - 1][4]))
        gf.funcs.append(fn)
        if recv_type is None:
            gf.top_level_names.append(nt[1])
            gf.decl_order.append(("func", nt[1], ft[2]))
        else:
            gf.methods.append(f"{recv_type}.{nt[1]}")
            gf.decl_order.append(("method", f"{recv_type}.{nt[1]}", ft[2]))

    # -- types --------------------------------------------------------------
    def parse_type(self) -> tuple:
        t = self.toks[self.i]
        if t[0] == "ident":
            self.i += 1
            if self.is_op(".") and self.toks[self.i + 1][0] == "ident":
                self.i += 1
                n2 = self.next()
                return ("qual", t[1], n2[1])
            return ("name", t[1])
        if t[0] == "op":
            if t[1] == "*":
                self.i += 1
                return ("ptr", self.parse_type())
            if t[1] == "(":
                self.i += 1
                inner = self.parse_type()
                self.expect_op(")")
                return inner
            if t[1] == "[":
                self.i += 1
                if self.is_op("]"):
                    self.i += 1
                    return ("slice", self.parse_type())
                if self.is_op("..."):
                    raise self.err("[...]T arrays are not supported")
                self.nolit += 0
                length = self.parse_expr()
                self.expect_op("]")
                return ("array", length, self.parse_type())
        if t[0] == "kw":
            if t[1] == "struct":
                return self.parse_struct_type()
            if t[1] == "interface":
                return self.parse_interface_type()
            if t[1] == "func":
                s = t[3]
                self.i += 1
                self.parse_params()
                if self.is_op("("):
                    self.parse_params()
                elif self._starts_type():
                    self.parse_type()
                return ("func", self.text[s:self.toks[self.i - 1][4]])
            if t[1] in ("map", "chan"):
                raise self.err(f"{t[1]} types are not supported")
        raise self.err(f"expected type, found {self.describe(t)}")

    def _starts_type(self) -> bool:
        t = self.toks[self.i]
        if t[0] == "ident":
            return True
        if t[0] == "op":
            return t[1] in ("*", "[", "(")
        if t[0] == "kw":
            return t[1] in ("struct", "interface", "func", "map", "chan")
        return False

    def parse_struct_type(self) -> tuple:
        self.expect_kw("struct")
        self.expect_op("{")
        fields: List[GoField] = []
        while not self.is_op("}"):
            if self.is_op(";"):
                self.i += 1
                continue
            first = self.toks[self.i]
            names: List[Token] = []
            if first[0] == "ident" and not (self.toks[self.i + 1][0] == "op"
                                             and self.toks[self.i + 1][1] in (".", ";", "}")) \
                    and self.toks[self.i + 1][0] not in ("str", "raw"):
                names.append(self.next())
                while self.is_op(","):
                    self.i += 1
                    names.append(self.expect_ident())
                ftype = self.parse_type()
            else:
                # embedded field
                ftype = self.parse_type()
                base = ftype[1] if ftype[0] == "ptr" else ftype
                if base[0] not in ("name", "qual"):
                    raise self.err("unsupported embedded field", first)
                names.append(("ident", base[-1], first[2], first[3], first[4]))
            raw_tag = tag = None
            tt = self.toks[self.i]
            if tt[0] in ("str", "raw"):
                self.i += 1
                try:
                    raw_tag = decode_go_string_literal(tt[1])
                except ValueError as e:
                    raise self.err(f"bad struct tag literal: {e}", tt)
                m = _JSON_TAG_RE.search(raw_tag)
                tag = m.group(1) if m else None
            for nt in names:
                fields.append(GoField(nt[1], ftype, tag, raw_tag, nt[2]))
            self.skip_semi()
        self.expect_op("}")
        return ("struct", fields)

    def parse_interface_type(self) -> tuple:
        self.expect_kw("interface")
        self.expect_op("{")
        items: List[Tuple[Optional[str], str]] = []
        while not self.is_op("}"):
            if self.is_op(";"):
                self.i += 1
                continue
            s = self.toks[self.i][3]
            nt = self.toks[self.i]
            if nt[0] == "ident" and self.toks[self.i + 1][0] == "op" and self.toks[self.i + 1][1] == "(":
                self.i += 1
                self.parse_params()
                if self.is_op("("):
                    self.parse_params()
                elif not self.is_op(";") and not self.is_op("}"):
                    self.parse_type()
                items.append((nt[1], self.text[s:self.toks[self.i - 1][4]]))
            else:
                self.parse_type()
                items.append((None, self.text[s:self.toks[self.i - 1][4]]))
            self.skip_semi()
        self.expect_op("}")
        return ("interface", items)

    # -- statements ---------------------------------------------------------
    def parse_block(self) -> List[tuple]:
        self.expect_op("{")
        saved, self.nolit = self.nolit, 0
        stmts = self.parse_stmt_list()
        self.nolit = saved
        self.expect_op("}")
        return stmts

    def parse_stmt_list(self) -> List[tuple]:
        stmts: List[tuple] = []
        while True:
            t = self.toks[self.i]
            if t[0] == "op" and t[1] == ";":
                self.i += 1
                continue
            if t[0] == "op" and t[1] == "}":
                break
            if t[0] == "kw" and t[1] in ("case", "default"):
                break
            if t[0] == "eof":
                raise self.err("unexpected end of file inside block")
            r = self.parse_stmt()
            if isinstance(r, list):
                stmts.extend(r)
            else:
                stmts.append(r)
            self.skip_semi()
        return stmts

    def parse_stmt(self) -> Any:
        t = self.toks[self.i]
        line = t[2]
        if t[0] == "kw":
            kw = t[1]
            if kw == "return":
                self.i += 1
                exprs: List[tuple] = []
                if not self.is_op(";") and not self.is_op("}"):
                    exprs.append(self.parse_expr())
                    while self.is_op(","):
                        self.i += 1
                        exprs.append(self.parse_expr())
                return ("return", exprs, line)
            if kw == "if":
                return self.parse_if()
            if kw == "switch":
                return self.parse_switch()
            if kw == "for":
                return self.parse_for()
            if kw in ("break", "continue"):
                self.i += 1
                if self.peek_is("ident"):
                    raise self.err("labels are not supported")
                return (kw, line)
            if kw in ("defer", "go"):
                self.i += 1
                return (kw, self.parse_expr(), line)
            if kw == "var":
                self.i += 1
                if self.is_op("("):
                    raise self.err("local var blocks are not supported")
                nt, vtype, e = self.parse_var_spec()
                return ("var", nt[1], vtype, e, nt[2])
            if kw == "const":
                return self.parse_const_decl(None)
            if kw in ("func", "struct", "interface"):
                pass  # expression / type starting with keyword: fall through
            else:
                raise self.err(f"unsupported statement {kw!r}")
        if t[0] == "op" and t[1] == "{":
            return ("block", self.parse_block(), line)
        return self.parse_simple_stmt()

    def parse_simple_stmt(self) -> tuple:
        line = self.toks[self.i][2]
        lhs = [self.parse_expr()]
        while self.is_op(","):
            self.i += 1
            lhs.append(self.parse_expr())
        t = self.toks[self.i]
        if t[0] == "op":
            if t[1] in _ASSIGN_OPS:
                self.i += 1
                if self.is_kw("range"):
                    raise self.err("range clause outside for statement")
                rhs = [self.parse_expr()]
                while self.is_op(","):
                    self.i += 1
                    rhs.append(self.parse_expr())
                if t[1] not in ("=", ":=") and (len(lhs) != 1 or len(rhs) != 1):
                    raise self.err(f"assignment operation {t[1]} requires single-valued expressions", t)
                if t[1] == ":=":
                    for x in lhs:
                        if x[0] != "ident":
                            raise self.err("non-name on left side of :=", t)
                return ("assign", t[1], lhs, rhs, line)
            if t[1] in ("++", "--"):
                self.i += 1
                if len(lhs) != 1:
                    raise self.err("unexpected ++/--", t)
                return ("incdec", lhs[0], t[1], line)
            if t[1] == ":" and len(lhs) == 1 and lhs[0][0] == "ident":
                raise self.err("labels are not supported")
        if len(lhs) != 1:
            raise self.err(f"expected assignment, found {self.describe(t)}")
        return ("expr", lhs[0], line)

    def parse_if(self) -> tuple:
        line = self.expect_kw("if")[2]
        self.nolit += 1
        init = None
        if self.is_op(";"):
            raise self.err("missing condition in if statement")
        st = self.parse_simple_stmt()
        if self.is_op(";"):
            self.i += 1
            init = st
            st = self.parse_simple_stmt()
        self.nolit -= 1
        if st[0] != "expr":
            raise self.err("if condition must be an expression")
        cond = st[1]
        then = self.parse_block()
        els = None
        if self.is_kw("else"):
            self.i += 1
            if self.is_kw("if"):
                els = self.parse_if()
            elif self.is_op("{"):
                l2 = self.toks[self.i][2]
                els = ("block", self.parse_block(), l2)
            else:
                raise self.err("else must be followed by if or a block")
        return ("if", init, cond, then, els, line)

    def parse_switch(self) -> tuple:
        line = self.expect_kw("switch")[2]
        self.nolit += 1
        init = tag = None
        if not self.is_op("{"):
            st = None
            if not self.is_op(";"):
                st = self.parse_simple_stmt()
            if self.is_op(";"):
                self.i += 1
                init = st
                st = None
                if not self.is_op("{"):
                    st = self.parse_simple_stmt()
            if st is not None:
                if st[0] != "expr":
                    raise self.err("switch tag must be an expression (type switches unsupported)")
                tag = st[1]
        self.nolit -= 1
        self.expect_op("{")
        saved, self.nolit = self.nolit, 0
        clauses: List[tuple] = []
        while not self.is_op("}"):
            t = self.toks[self.i]
            if t[0] == "op" and t[1] == ";":
                self.i += 1
                continue
            if t[0] == "kw" and t[1] == "case":
                self.i += 1
                exprs: Optional[List[tuple]] = [self.parse_expr()]
                while self.is_op(","):
                    self.i += 1
                    exprs.append(self.parse_expr())
            elif t[0] == "kw" and t[1] == "default":
                self.i += 1
                exprs = None
            else:
                raise self.err(f"expected case or default, found {self.describe(t)}")
            self.expect_op(":")
            s = self.toks[self.i][3]
            body = self.parse_stmt_list()
            e = self.toks[self.i - 1][4] if self.i > 0 else s
            clauses.append((exprs, body, t[2], (s, max(s, e))))
        self.nolit = saved
        self.expect_op("}")
        return ("switch", init, tag, clauses, line)

    def parse_for(self) -> tuple:
        line = self.expect_kw("for")[2]
        self.nolit += 1
        try:
            if self.is_op("{"):
                self.nolit -= 1
                return ("for", None, None, None, self.parse_block(), line)
            if self.is_kw("range"):
                self.i += 1
                x = self.parse_expr()
                self.nolit -= 1
                return ("range", None, None, False, x, self.parse_block(), line)
            init = cond = post = None
            if not self.is_op(";"):
                # may be `k, v := range x`, `cond`, or init statement
                save = self.i
                lhs = [self.parse_expr()]
                while self.is_op(","):
                    self.i += 1
                    lhs.append(self.parse_expr())
                t = self.toks[self.i]
                if t[0] == "op" and t[1] in ("=", ":=") and self.toks[self.i + 1][0] == "kw" \
                        and self.toks[self.i + 1][1] == "range":
                    self.i += 2
                    x = self.parse_expr()
                    if len(lhs) > 2:
                        raise self.err("range clause permits at most two iteration variables", t)
                    key = lhs[0]
                    val = lhs[1] if len(lhs) > 1 else None
                    self.nolit -= 1
                    return ("range", key, val, t[1] == ":=", x, self.parse_block(), line)
                self.i = save
                init = self.parse_simple_stmt()
            if self.is_op("{"):
                # `for cond {`
                if init is None or init[0] != "expr":
                    raise self.err("for condition must be an expression")
                self.nolit -= 1
                return ("for", None, init[1], None, self.parse_block(), line)
            self.expect_op(";")
            if not self.is_op(";"):
                st = self.parse_simple_stmt()
                if st[0] != "expr":
                    raise self.err("for condition must be an expression")
                cond = st[1]
            # the semicolon before `{` may be an explicit one: `for j := 0; j < n; {`
            self.expect_op(";")
            if not self.is_op("{"):
                post = self.parse_simple_stmt()
            self.nolit -= 1
            return ("for", init, cond, post, self.parse_block(), line)
        except GoParseError:
            raise

    # -- expressions --------------------------------------------------------
    def parse_expr(self, min_prec: int = 1) -> tuple:
        left = self.parse_unary()
        while True:
            t = self.toks[self.i]
            if t[0] != "op":
                return left
            prec = _PREC.get(t[1])
            if prec is None or prec < min_prec:
                return left
            self.i += 1
            right = self.parse_expr(prec + 1)
            left = ("binary", t[1], left, right, t[2])

    def parse_unary(self) -> tuple:
        t = self.toks[self.i]
        if t[0] == "op":
            if t[1] in _UNARY_OPS:
                self.i += 1
                x = self.parse_unary()
                return ("unary", t[1], x, t[2])
            if t[1] == "<-":
                raise self.err("channel operations are not supported")
        return self.parse_primary()

    def parse_primary(self) -> tuple:
        x = self.parse_operand()
        while True:
            t = self.toks[self.i]
            if t[0] != "op":
                return x
            v = t[1]
            if v == ".":
                nt = self.toks[self.i + 1]
                if nt[0] == "op" and nt[1] == "(":
                    raise self.err("type assertions are not supported")
                if nt[0] != "ident":
                    raise self.err(f"expected selector name, found {self.describe(nt)}", nt)
                self.i += 2
                x = ("sel", x, nt[1], t[2])
            elif v == "[":
                self.i += 1
                saved, self.nolit = self.nolit, 0
                lo = hi = None
                if not self.is_op(":"):
                    lo = self.parse_expr()
                if self.is_op(":"):
                    self.i += 1
                    if not self.is_op("]"):
                        hi = self.parse_expr()
                    if self.is_op(":"):
                        raise self.err("3-index slices are not supported")
                    self.nolit = saved
                    self.expect_op("]")
                    x = ("slice", x, lo, hi, t[2])
                else:
                    self.nolit = saved
                    self.expect_op("]")
                    x = ("index", x, lo, t[2])
            elif v == "(":
                self.i += 1
                saved, self.nolit = self.nolit, 0
                args: List[tuple] = []
                while not self.is_op(")"):
                    args.append(self.parse_expr_or_type())
                    if self.is_op("..."):
                        raise self.err("variadic call arguments are not supported")
                    if self.is_op(","):
                        self.i += 1
                    elif not self.is_op(")"):
                        raise self.err(f"expected ',' or ')', found {self.describe(self.toks[self.i])}")
                self.nolit = saved
                self.expect_op(")")
                x = ("call", x, args, t[2])
            elif v == "{" and self.nolit == 0 and _is_literal_type(x):
                ty = _expr_to_type(x)
                x = self.parse_complit_body(ty, t[2])
            else:
                return x

    def parse_expr_or_type(self) -> tuple:
        return self.parse_expr()

    def parse_operand(self) -> tuple:
        t = self.toks[self.i]
        k = t[0]
        if k == "ident":
            self.i += 1
            return ("ident", t[1], t[2])
        if k == "int":
            self.i += 1
            return ("int", t[1], t[2])
        if k == "str" or k == "raw":
            self.i += 1
            try:
                v = decode_go_string_literal(t[1])
            except ValueError as e:
                raise self.err(f"invalid string literal {t[1]}: {e}", t)
            return ("str", v, t[1], t[2])
        if k == "op":
            if t[1] == "(":
                self.i += 1
                saved, self.nolit = self.nolit, 0
                # parenthesised expression or parenthesised type such as (*T)(x)
                x = self.parse_expr()
                self.nolit = saved
                self.expect_op(")")
                return ("paren", x, t[2])
            if t[1] == "[":
                ty = self.parse_type()
                return ("type", ty, t[2])
        if k == "kw":
            if t[1] in ("struct", "interface"):
                ty = self.parse_type()
                return ("type", ty, t[2])
            if t[1] == "func":
                raise self.err("function literals are not supported")
            if t[1] in ("map", "chan"):
                raise self.err(f"{t[1]} types are not supported")
        raise self.err(f"expected expression, found {self.describe(t)}")

    def parse_complit_body(self, ty: Optional[tuple], line: int) -> tuple:
        self.expect_op("{")
        saved, self.nolit = self.nolit, 0
        elems: List[Tuple[Optional[tuple], tuple]] = []
        while not self.is_op("}"):
            if self.is_op("{"):
                v = self.parse_complit_body(None, self.toks[self.i][2])
            else:
                v = self.parse_expr()
            key = None
            if self.is_op(":"):
                self.i += 1
                key = v
                if self.is_op("{"):
                    v = self.parse_complit_body(None, self.toks[self.i][2])
                else:
                    v = self.parse_expr()
            elems.append((key, v))
            if self.is_op(","):
                self.i += 1
            elif not self.is_op("}"):
                raise self.err(
                    f"expected ',' or '}}' in composite literal, found {self.describe(self.toks[self.i])}")
        self.nolit = saved
        self.expect_op("}")
        return ("complit", ty, elems, line)


def _is_literal_type(x: tuple) -> bool:
    k = x[0]
    if k == "ident":
        return True
    if k == "sel":
        return x[1][0] == "ident"
    if k == "type":
        return x[1][0] in ("array", "slice", "struct")
    return False


def _expr_to_type(x: tuple) -> tuple:
    k = x[0]
    if k == "ident":
        return ("name", x[1])
    if k == "sel" and x[1][0] == "ident":
        return ("qual", x[1][1], x[2])
    if k == "type":
        return x[1]
    if k == "paren":
        return _expr_to_type(x[1])
    if k == "unary" and x[1] == "*":
        return ("ptr", _expr_to_type(x[2]))
    raise ValueError("not a type expression")


def _fold_const(e: Optional[tuple], env: Dict[str, Any], iota: int = 0) -> Any:
    """Value of a constant expression built from literals, earlier constants,
    iota, true/false, unary and binary operators (untyped, arbitrary
    precision); None if it cannot be folded."""
    if e is None:
        return None
    k = e[0]
    if k == "int":
        return e[1]
    if k == "str":
        return e[1]
    if k == "paren":
        return _fold_const(e[1], env, iota)
    if k == "ident":
        n = e[1]
        if n == "true":
            return True
        if n == "false":
            return False
        if n == "iota":
            return iota
        return env.get(n)
    if k == "unary":
        v = _fold_const(e[2], env, iota)
        if v is None:
            return None
        if e[1] == "!" and isinstance(v, bool):
            return not v
        if isinstance(v, bool) or not isinstance(v, int):
            return None
        return {"-": -v, "+": v, "^": ~v}.get(e[1])
    if k == "binary":
        a = _fold_const(e[2], env, iota)
        b = _fold_const(e[3], env, iota)
        if a is None or b is None:
            return None
        try:
            return _untyped_binop(e[1], a, b)
        except EvalError:
            return None
    if k == "call" and len(e[2]) == 1 and e[1][0] == "ident":
        # conversion of a constant, e.g. uint16(5): value unchanged if foldable
        return _fold_const(e[2][0], env, iota) if e[1][1] in _INT_TYPES else None
    return None


def _make_gotype(name: str, t: tuple, is_alias: bool, line: int) -> GoType:
    k = t[0]
    if k in ("name", "qual"):
        return GoType(name, "named", t, underlying=type_str(t), is_alias=is_alias, line=line)
    if k == "array":
        length = _fold_const(t[1], {})
        return GoType(name, "array", t, length=length, elem=type_str(t[2]), elem_expr=t[2],
                      is_alias=is_alias, line=line)
    if k == "struct":
        return GoType(name, "struct", t, fields=list(t[1]), is_alias=is_alias, line=line)
    if k == "interface":
        return GoType(name, "interface", t, is_alias=is_alias, line=line)
    return GoType(name, "other", t, underlying=type_str(t), is_alias=is_alias, line=line)


def parse_file(text: str) -> GoFile:
    """Parse one Go source file of the supported subset into a GoFile."""
    return _Parser(text).parse_file()


# ---------------------------------------------------------------------------
# Integer semantics shared by constant folding and the evaluator
# ---------------------------------------------------------------------------

# name -> (bits, signed)
_INT_TYPES: Dict[str, Tuple[int, bool]] = {
    "int8": (8, True), "int16": (16, True), "int32": (32, True), "int64": (64, True),
    "uint8": (8, False), "uint16": (16, False), "uint32": (32, False), "uint64": (64, False),
    "byte": (8, False), "int": (64, True), "uint": (64, False), "uintptr": (64, False),
    "rune": (32, True),
}

_MAX_CONST_SHIFT = 4096  # guard against absurd constant shifts


def _trunc_div(a: int, b: int) -> int:
    if b == 0:
        raise EvalError("integer divide by zero")
    q = abs(a) // abs(b)
    return q if (a >= 0) == (b >= 0) else -q


def _trunc_rem(a: int, b: int) -> int:
    if b == 0:
        raise EvalError("integer divide by zero")
    r = abs(a) % abs(b)
    return r if a >= 0 else -r


def _untyped_binop(op: str, a: Any, b: Any) -> Any:
    """Binary operation on untyped constants (arbitrary precision)."""
    ab, bb = isinstance(a, bool), isinstance(b, bool)
    if isinstance(a, str) or isinstance(b, str):
        if not (isinstance(a, str) and isinstance(b, str)):
            raise EvalError(f"mismatched constant kinds in {op}")
        if op == "+":
            return a + b
        if op in ("==", "!=", "<", "<=", ">", ">="):
            return _compare(op, a, b)
        raise EvalError(f"operator {op} not defined on string constants")
    if ab or bb:
        if not (ab and bb):
            raise EvalError(f"mismatched constant kinds in {op}")
        if op == "&&":
            return a and b
        if op == "||":
            return a or b
        if op == "==":
            return a == b
        if op == "!=":
            return a != b
        raise EvalError(f"operator {op} not defined on boolean constants")
    if op == "+":
        return a + b
    if op == "-":
        return a - b
    if op == "*":
        return a * b
    if op == "/":
        return _trunc_div(a, b)
    if op == "%":
        return _trunc_rem(a, b)
    if op == "&":
        return a & b
    if op == "|":
        return a | b
    if op == "^":
        return a ^ b
    if op == "&^":
        return a & ~b
    if op == "<<" or op == ">>":
        if b < 0:
            raise EvalError(f"invalid shift count {b} (negative)")
        if b > _MAX_CONST_SHIFT:
            raise EvalError(f"constant shift count {b} too large")
        return a << b if op == "<<" else a >> b
    if op in ("==", "!=", "<", "<=", ">", ">="):
        return _compare(op, a, b)
    raise EvalError(f"operator {op} not defined on integer constants")


def _compare(op: str, a: Any, b: Any) -> bool:
    if op == "==":
        return a == b
    if op == "!=":
        return a != b
    if op == "<":
        return a < b
    if op == "<=":
        return a <= b
    if op == ">":
        return a > b
    return a >= b


# ---------------------------------------------------------------------------
# B. Structural extraction for standard mode
# ---------------------------------------------------------------------------

def _unparen(e: tuple) -> tuple:
    while e[0] == "paren":
        e = e[1]
    return e


def _const_int(e: tuple) -> Optional[int]:
    v = _fold_const(e, {})
    if isinstance(v, bool) or not isinstance(v, int):
        return None
    return v


def size_constants(gofile: GoFile) -> Dict[str, int]:
    """``BYTES_LENGTH_*`` constants -> value."""
    return {c.name: c.value for c in gofile.consts if c.name.startswith("BYTES_LENGTH_")}


def size_methods(gofile: GoFile) -> Dict[str, int]:
    """struct name -> value returned by ``func (m *T) Size() uint32``."""
    out: Dict[str, int] = {}
    for f in gofile.funcs:
        if f.name != "Size" or f.recv_type is None:
            continue
        if len(f.body) != 1 or f.body[0][0] != "return" or len(f.body[0][1]) != 1:
            raise GoParseError(f"unexpected body of {f.qualname}: "
                               + "; ".join(map(stmt_str, f.body)), f.line)
        v = _const_int(f.body[0][1][0])
        if v is None:
            raise GoParseError(f"{f.qualname} does not return an integer literal", f.line)
        out[f.recv_type] = v
    return out


def _qualified_call(e: tuple) -> Optional[Tuple[str, str, List[tuple]]]:
    """``pkg.Fn(args)`` -> (pkg, Fn, args)."""
    if e[0] == "call" and e[1][0] == "sel" and e[1][1][0] == "ident":
        return e[1][1][1], e[1][2], e[2]
    return None


def _bool_lit(e: tuple) -> Optional[bool]:
    e = _unparen(e)
    if e[0] == "ident" and e[1] in ("true", "false"):
        return e[1] == "true"
    return None


def _type_name_of(e: tuple) -> Optional[str]:
    """Identifier or pkg.Identifier expression -> dotted name."""
    if e[0] == "ident":
        return e[1]
    if e[0] == "sel" and e[1][0] == "ident":
        return f"{e[1][1]}.{e[2]}"
    return None


def _processor_expr(e: tuple, bp_alias: str = "bp") -> dict:
    """Translate one processor constructor expression into the tree encoding."""
    line = e[-1]
    src = expr_str(e)
    qc = _qualified_call(e)
    if qc and qc[0] == bp_alias:
        _, fn, args = qc
        if fn == "NewBool" and not args:
            return {"kind": "bool"}
        if fn == "NewByte" and not args:
            return {"kind": "byte"}
        if fn in ("NewUint", "NewInt") and len(args) == 1:
            n = _const_int(args[0])
            if n is None:
                raise GoParseError(f"non-constant nbits in {src}", line)
            return {"kind": "uint" if fn == "NewUint" else "int", "nbits": n}
        if fn == "NewArray" and len(args) == 3:
            ext, cap = _bool_lit(args[0]), _const_int(args[1])
            if ext is None or cap is None:
                raise GoParseError(f"unexpected NewArray arguments in {src}", line)
            return {"kind": "array", "extensible": ext, "cap": cap,
                    "elem": _processor_expr(args[2], bp_alias)}
        if fn == "NewEnumProcessor" and len(args) == 1:
            inner = _processor_expr(args[0], bp_alias)
            if inner.get("kind") != "uint":
                raise GoParseError(f"NewEnumProcessor argument is not NewUint(n) in {src}", line)
            return {"kind": "enum", "nbits": inner["nbits"]}
        if fn == "NewAliasProcessor" and len(args) == 1:
            return {"kind": "alias", "to": _processor_expr(args[0], bp_alias)}
        raise GoParseError(f"unknown processor constructor {src}", line)
    # (X).BpProcessor()
    if e[0] == "call" and not e[2] and e[1][0] == "sel" and e[1][2] == "BpProcessor":
        x = _unparen(e[1][1])
        if x[0] == "unary" and x[1] == "&" and x[2][0] == "complit" and not x[2][2]:
            return {"kind": "ref", "name": type_str(x[2][1]), "form": "&{}"}
        if x[0] == "complit" and not x[2]:
            return {"kind": "ref", "name": type_str(x[1]), "form": "{}"}
        if x[0] == "call" and len(x[2]) == 1:
            name = _type_name_of(x[1])
            a = x[2][0]
            if name is not None:
                if a[0] == "int" and a[1] == 0:
                    return {"kind": "ref", "name": name, "form": "(0)"}
                if a[0] == "ident" and a[1] == "false":
                    return {"kind": "ref", "name": name, "form": "(false)"}
    raise GoParseError(f"unrecognised processor expression {src}", line)


def _bp_alias(gofile: GoFile) -> str:
    for alias, path in gofile.imports:
        if path == "github.com/hit9/bitproto/lib/go":
            return alias or "bitproto"
    return "bp"


def processor_tree(gofile: GoFile, type_name: str) -> dict:
    """Tree parsed from ``func (m *T) BpProcessor()`` / ``func (m T) BpProcessor()``."""
    fn = gofile.func("BpProcessor", type_name)
    if fn is None:
        raise KeyError(f"no method {type_name}.BpProcessor")
    bp = _bp_alias(gofile)
    body = fn.body
    if len(body) == 1 and body[0][0] == "return" and len(body[0][1]) == 1:
        return _processor_expr(body[0][1][0], bp)
    # message form
    if (len(body) == 2 and body[0][0] == "assign" and body[0][1] == ":="
            and len(body[0][2]) == 1 and len(body[0][3]) == 1
            and body[1][0] == "return" and len(body[1][1]) == 1):
        var = body[0][2][0][1]
        lit = body[0][3][0]
        want = ("slice", ("ptr", ("qual", bp, "MessageFieldProcessor")))
        if lit[0] != "complit" or lit[1] != want:
            raise GoParseError(f"unexpected field descriptor literal in {fn.qualname}: "
                               + expr_str(lit), fn.line)
        fields = []
        for key, v in lit[2]:
            qc = _qualified_call(v)
            if key is not None or not qc or qc[0] != bp or qc[1] != "NewMessageFieldProcessor" \
                    or len(qc[2]) != 2:
                raise GoParseError(f"unexpected field descriptor {expr_str(v)}", v[-1])
            num = _const_int(qc[2][0])
            if num is None:
                raise GoParseError(f"non-constant field number in {expr_str(v)}", v[-1])
            fields.append({"number": num, "processor": _processor_expr(qc[2][1], bp)})
        ret = body[1][1][0]
        qc = _qualified_call(ret)
        if not qc or qc[0] != bp or qc[1] != "NewMessageProcessor" or len(qc[2]) != 3:
            raise GoParseError(f"unexpected return in {fn.qualname}: {expr_str(ret)}", ret[-1])
        ext, nbits = _bool_lit(qc[2][0]), _const_int(qc[2][1])
        third = qc[2][2]
        if ext is None or nbits is None or third[0] != "ident" or third[1] != var:
            raise GoParseError(f"unexpected NewMessageProcessor arguments: {expr_str(ret)}", ret[-1])
        return {"kind": "message", "extensible": ext, "nbits": nbits, "fields": fields}
    raise GoParseError(f"unexpected body shape of {fn.qualname}", fn.line)


def _data_ref(e: tuple, recv: str = "m", di: str = "di") -> Optional[Tuple[str, List[int]]]:
    """``m.Field[di.I(0)][di.I(1)]`` -> ('Field', [0, 1]); None if not of that shape."""
    idx: List[int] = []
    while e[0] == "index":
        i = e[2]
        if not (i[0] == "call" and len(i[2]) == 1 and i[1][0] == "sel" and i[1][2] == "I"
                and i[1][1][0] == "ident" and i[1][1][1] == di):
            return None
        k = _const_int(i[2][0])
        if k is None:
            return None
        idx.append(k)
        e = e[1]
    if e[0] == "sel" and e[1][0] == "ident" and e[1][1] == recv:
        idx.reverse()
        return e[2], idx
    return None


def _is_ident(e: tuple, name: str) -> bool:
    return e[0] == "ident" and e[1] == name


def _single_call(e: tuple) -> Optional[Tuple[str, tuple]]:
    """``Name(x)`` / ``pkg.Name(x)`` with exactly one argument -> (dotted name, x)."""
    if e[0] == "call" and len(e[2]) == 1:
        n = _type_name_of(e[1])
        if n is not None:
            return n, e[2][0]
    return None


def _case_setbyte(body: List[tuple], bp: str, info: dict) -> bool:
    if len(body) != 1 or body[0][0] != "assign" or len(body[0][2]) != 1 or len(body[0][3]) != 1:
        return False
    op, lhs, rhs = body[0][1], body[0][2][0], body[0][3][0]
    if op not in ("=", "|="):
        return False
    ref = _data_ref(lhs)
    if ref is None:
        return False
    info["field"], info["indices"] = ref
    info["depth"] = len(ref[1])
    info["assign"] = op
    x = _unparen(rhs)
    shifted = False
    if x[0] == "binary" and x[1] == "<<":
        if not _is_ident(x[3], "lshift"):
            return False
        shifted = True
        x = _unparen(x[2])
    conv = None
    byte2bool = False

    def is_b2b(y: tuple) -> bool:
        c = _single_call(y)
        return c is not None and c[0] == f"{bp}.Byte2bool" and _is_ident(c[1], "b")

    if is_b2b(x):
        byte2bool = True
    else:
        c = _single_call(x)
        if c is None:
            return False
        conv, inner = c
        inner = _unparen(inner)
        if _is_ident(inner, "b"):
            pass
        elif is_b2b(inner):
            byte2bool = True
        else:
            return False
    info.update(conv=conv, byte2bool=byte2bool, shifted=shifted)
    return True


def _case_getbyte(body: List[tuple], bp: str, info: dict) -> bool:
    if len(body) != 1 or body[0][0] != "return" or len(body[0][1]) != 1:
        return False
    x = _unparen(body[0][1][0])
    bool2byte, inner_conv, conv, shifted = False, None, None, False
    if x[0] == "binary" and x[1] == ">>" and _is_ident(x[3], "rshift"):
        # bp.Bool2byte(data) >> rshift
        shifted = True
        c = _single_call(_unparen(x[2]))
        if c is None or c[0] != f"{bp}.Bool2byte":
            return False
        bool2byte = True
        data = c[1]
        ref = _data_ref(data)
        if ref is None:
            c2 = _single_call(data)
            if c2 is None:
                return False
            inner_conv = c2[0]
            ref = _data_ref(c2[1])
            if ref is None:
                return False
    else:
        c = _single_call(x)
        if c is None:
            return False
        conv = c[0]
        y = _unparen(c[1])
        if y[0] == "binary" and y[1] == ">>" and _is_ident(y[3], "rshift"):
            shifted = True
            y = y[2]
        ref = _data_ref(y)
        if ref is None:
            return False
    info["field"], info["indices"] = ref
    info["depth"] = len(ref[1])
    info.update(bool2byte=bool2byte, inner_conv=inner_conv, conv=conv, shifted=shifted)
    return True


def _case_processint(body: List[tuple], bp: str, info: dict) -> bool:
    if len(body) != 2:
        return False
    a, b = body
    for st, op in ((a, "<<="), (b, ">>=")):
        if st[0] != "assign" or st[1] != op or len(st[2]) != 1 or len(st[3]) != 1:
            return False
    ref = _data_ref(a[2][0])
    shl, shr = _const_int(a[3][0]), _const_int(b[3][0])
    if ref is None or shl is None or shr is None:
        return False
    info["field"], info["indices"] = ref
    info["depth"] = len(ref[1])
    info.update(shl=shl, shr=shr, same_target=expr_str(a[2][0]) == expr_str(b[2][0]))
    return True


def _case_getaccessor(body: List[tuple], bp: str, info: dict) -> bool:
    if len(body) != 1 or body[0][0] != "return" or len(body[0][1]) != 1:
        return False
    x = body[0][1][0]
    addr = False
    if x[0] == "unary" and x[1] == "&":
        addr = True
        x = x[2]
    ref = _data_ref(_unparen(x))
    if ref is None:
        return False
    info["field"], info["indices"] = ref
    info["depth"] = len(ref[1])
    info["addr_of"] = addr
    return True


_CASE_PARSERS = {
    "BpSetByte": _case_setbyte, "BpGetByte": _case_getbyte,
    "BpProcessInt": _case_processint, "BpGetAccessor": _case_getaccessor,
}
_DEFAULT_SHAPES = {
    "BpSetByte": ("return",), "BpProcessInt": ("return",),
    "BpGetByte": ("return byte(0)",), "BpGetAccessor": ("return nil",),
}


def accessor_tables(gofile: GoFile, type_name: str) -> dict:
    """Case tables of BpSetByte / BpGetByte / BpProcessInt / BpGetAccessor.

    Result: ``{table: [case dict, ...], ..., 'default': {table: bool|None},
    'default_body': {table: text}, 'problems': [text, ...]}``.  A case dict has
    'number' (int, or None for a non-constant case expression), 'line', and
    either the parsed keys described in the module documentation or
    ``'unparsed': source text``.  ``default[table]`` is None if the method is
    missing or its body is not a single ``switch di.F()``.
    """
    bp = _bp_alias(gofile)
    out: dict = {"default": {}, "default_body": {}, "problems": []}
    for table, parse_case in _CASE_PARSERS.items():
        cases: List[dict] = []
        out[table] = cases
        fn = gofile.func(table, type_name)
        if fn is None:
            out["default"][table] = None
            out["problems"].append(f"{type_name}.{table}: method missing")
            continue
        body = fn.body
        sw = body[0] if len(body) == 1 and body[0][0] == "switch" else None
        tag_ok = False
        if sw is not None and sw[1] is None and sw[2] is not None:
            tg = sw[2]
            tag_ok = (tg[0] == "call" and not tg[2] and tg[1][0] == "sel" and tg[1][2] == "F"
                      and _is_ident(tg[1][1], "di"))
        if sw is None or not tag_ok:
            out["default"][table] = None
            out["problems"].append(f"{type_name}.{table}: body is not a single `switch di.F()`")
            cases.append({"number": None, "line": fn.line,
                          "unparsed": gofile.source(fn.src)})
            continue
        has_default = False
        for exprs, cbody, line, span in sw[3]:
            src = gofile.source(span).strip()
            if exprs is None:
                has_default = True
                norm = "; ".join(map(stmt_str, cbody))
                out["default_body"][table] = norm
                if norm not in _DEFAULT_SHAPES[table]:
                    out["problems"].append(
                        f"{type_name}.{table}: unexpected default branch `{norm}` (line {line})")
                continue
            for ce in exprs:
                info: dict = {"number": _const_int(ce), "line": line}
                scratch = dict(info)
                if info["number"] is not None and parse_case(cbody, bp, scratch):
                    info = scratch
                else:
                    info["unparsed"] = src if info["number"] is not None else \
                        f"case {expr_str(ce)}: {src}"
                cases.append(info)
        out["default"][table] = has_default
    return out
