"""Seeded generators: valid schemas (my own model) and values.

All randomness comes from the random.Random passed in.  The generator never
looks at the repository; validity is by construction (and is cross-checked in
the accept direction by C08, where every schema produced here must compile).
"""
from __future__ import annotations

import random
from dataclasses import dataclass, field, replace
from typing import Any, Dict, List, Optional, Tuple

from . import ref
from .model import (
    Alias,
    Arr,
    Base,
    Const,
    Enum,
    Field,
    File,
    Import,
    Message,
    Option,
    Ref,
    enclosing_messages,
    file_of,
    iter_defs,
    messages_of,
    qualified_path,
    strip_alias,
)
from .names import NamePool, upper_snake

BIASED_WIDTHS = [1, 2, 3, 7, 8, 9, 12, 15, 16, 17, 24, 31, 32, 33, 40, 48, 56, 63, 64]
BIASED_CAPS = [1, 2, 3, 4, 7, 8, 9, 20]


@dataclass
class GenCfg:
    n_imports: Tuple[int, int] = (0, 1)  # min, max imported files
    n_top: Tuple[int, int] = (2, 6)  # top-level definitions per file (besides messages' nested ones)
    max_depth: int = 3  # message nesting depth
    max_fields: int = 7
    msg_bits: int = 700  # soft budget of bits per message
    p_ext_msg: float = 0.25
    p_ext_arr: float = 0.25
    p_nested: float = 0.35
    p_const_cap: float = 0.3
    p_options: float = 0.15
    p_as_name: float = 0.5
    p_empty_msg: float = 0.04
    allow_empty_enum: bool = False
    empty_enum_fields: bool = False  # empty enums may be used as field types (C10: the language guide's own example)
    extensible: bool = True  # False -> traditional schema (no ' anywhere)
    big_caps: bool = False
    basename_differs: float = 0.0  # probability that file base name != proto name
    name_prefix: float = 0.0  # probability of option c.name_prefix
    bad_packing: float = 0.0  # given the option: probability of a value no C compiler takes as an alignment (3, 5, 6, 7) - must be rejected
    packing: float = 0.0  # probability of c.struct_packing_alignment
    min_messages: int = 1
    hex_enum: float = 0.2
    comments: float = 0.3
    digit_names: float = 0.0  # probability that a type name ends in a digit
    digit_fields: float = 0.0  # probability that a field name carries a digit component (rate_2, ch_0_raw)
    keyword_field: float = 0.0  # probability that a message gets a field named `type` (allowed by the grammar)
    module_options: float = 0.0  # probability of py.module_name / go.package_path options (set to the default values)
    p_import_chain: float = 0.0  # probability that an imported file itself imports an earlier imported file
    p_transitive_ref: float = 0.0  # with a chain: probability that the main file reaches the inner file only through the outer one (`b.c.M`)
    p_odd_basename: float = 0.0  # probability that an imported file's base name is no identifier (my-shared, defs.v2)
    p_subdir: float = 0.0  # probability that a file lives in a subdirectory of the schema root (imports written relative to the importing file)
    p_shared_as_name: float = 0.0  # probability that an import reuses the name an imported file binds to a DIFFERENT file (names are per file)
    p_same_short_name: float = 0.0  # probability that a nested enum/message reuses the short name of a definition nested under ANOTHER top-level message (Motor.Mode / Led.Mode)
    std_signed_only: bool = False  # signed ints only of width 8/16/32/64 (big-endian emulation limit, see DESIGN C06)


# Code points that are legal in schema text (comments, string constants) but special to some consumer: not "printable" for Python's
# str.isprintable (separators, format and private-use characters), line separators for some tools, a byte order mark in the middle of a file.
UNICODE_SPECIALS = ["\u00a0", "\u3000", "\u2028", "\u2029", "\u200b", "\ufeff", "\ue000", "\u00ad", "\u0085", "\ufffd", "\U0010ffff",
                    "\u0301", "\u202e", "\x1f", "\x7f", "\x0c", "\U0001f600"]
SPECIAL_STRINGS = ["10\u00a0EUR", "zero\u200bwidth", "bom\ufeffinside", "line\u2028sep\u2029para", "pua\ue000", "ideo\u3000space", "nel\u0085x",
                   "soft\u00adhyphen", "rtl\u202eoverride", "max\U0010ffff", "ff\x0cfeed \x1f \x7f", "e\u0301 combining"]

HOSTILE_COMMENTS = [
    "the drive is C:\\",
    "say \"\"\"hi\"\"\" twice \"\"\"",
    "regex \\d+ and \\N{DASH} and \\x",
    "*/ not the end /*",
    "ends with two \\\\",
    "{curly} %d %s `tick`",
    "tab\there",
    "unicode \u00e9\u4e2d",
    "#define NOT_A_MACRO 1",
    "\"\"\"",
    "\x27\x27\x27",
    "??/ trigraph",
    "really??/",
    "ends with a quote \"",
    "\\",
    "<!-- html -->",
    "no-break\u00a0space and zero\u200bwidth and ideographic\u3000space",
    "private use \ue000 soft\u00adhyphen rtl\u202eoverride",
    "a byte order mark \ufeff in the middle",
    "next line \u0085 and form feed \x0c stay on this line",
]


def hostile_comment(rng: random.Random, plain: str) -> str:
    """Doc comments are copied into C/Go/Python comments and docstrings: a third of them carry text that is special there."""
    return rng.choice(HOSTILE_COMMENTS) if rng.random() < 0.35 else plain


def pick_width(rng: random.Random) -> int:
    if rng.random() < 0.6:
        return rng.choice(BIASED_WIDTHS)
    return rng.randint(1, 64)


def pick_base(rng: random.Random, std_signed_only: bool = False) -> Base:
    r = rng.random()
    if r < 0.12:
        return Base("bool")
    if r < 0.22:
        return Base("byte")
    if r < 0.62:
        return Base("uint", pick_width(rng))
    if std_signed_only:
        return Base("int", rng.choice([8, 16, 32, 64]))
    return Base("int", pick_width(rng))


class SchemaGen:
    def __init__(self, rng: random.Random, cfg: Optional[GenCfg] = None):
        self.rng = rng
        self.cfg = cfg or GenCfg()
        self.pool = NamePool(rng, digits=self.cfg.digit_names, digit_fields=self.cfg.digit_fields)
        self.enum_member_tags: set = set()

    # -- enums -------------------------------------------------------------
    def gen_enum(self, parent: Any) -> Enum:
        rng = self.rng
        name = self.pool.pascal()
        width = pick_width(rng) if rng.random() < 0.5 else rng.randint(1, 8)
        maxv = (1 << width) - 1
        n = rng.randint(1, min(6, maxv + 1))
        vals = set()
        if rng.random() < 0.85:
            vals.add(0)
        cand = [0, 1, maxv, maxv - 1 if maxv > 1 else 0] + [1 << k for k in range(width)]
        while len(vals) < n:
            vals.add(rng.choice(cand) if rng.random() < 0.6 else rng.randint(0, maxv))
        tag = upper_snake(name)
        members = []
        for v in sorted(vals) if rng.random() < 0.7 else rng.sample(sorted(vals), len(vals)):
            members.append((f"{tag}_{self.pool.upper()}", v))
        e = Enum(name, width, members, parent=parent, hex_members=rng.random() < self.cfg.hex_enum)
        if rng.random() < self.cfg.comments:
            e.comment = hostile_comment(rng, f"enum {name}")
        return e

    # -- types -------------------------------------------------------------
    def elem_type(self, avail: List[Any], budget: int, allow_msg: bool = True) -> Any:
        """A type usable as array element or field (no arrays)."""
        rng = self.rng
        named = [d for d in avail if ref.nbits(d) <= budget and (allow_msg or not isinstance(d, Message))]
        if named and rng.random() < 0.45:
            return Ref(rng.choice(named))
        for _ in range(20):
            b = pick_base(rng, self.cfg.std_signed_only)
            if b.width <= budget:
                return b
        return Base("bool")

    def gen_array(self, avail: List[Any], budget: int, consts: List[Const]) -> Optional[Arr]:
        rng = self.rng
        ext = self.cfg.extensible and rng.random() < self.cfg.p_ext_arr
        if ext:
            budget -= 16
        if budget < 1:
            return None
        el = self.elem_type(avail, budget)
        # multi-dimensional arrays (element = alias of an array) and arrays of messages are where the runtimes special-case
        arrs = [d for d in avail if isinstance(d, Alias) and isinstance(d.type, Arr) and 0 < ref.nbits(d) <= budget]
        if arrs and rng.random() < 0.15:
            el = Ref(rng.choice(arrs))
        eb = ref.nbits(el)
        if eb == 0:
            maxcap = 8
        else:
            maxcap = budget // eb
        if maxcap < 1:
            return None
        if self.cfg.big_caps and rng.random() < 0.2:
            cap = rng.randint(1, min(maxcap, 65535))
        else:
            cands = [c for c in BIASED_CAPS if c <= maxcap]
            cap = rng.choice(cands) if cands else 1
            # whole arrays of exactly 8/16/32/64 bits look like one standard integer to width-keyed fast paths
            whole = [t // eb for t in (8, 16, 32, 64) if eb and t % eb == 0 and 1 <= t // eb <= maxcap]
            if whole and rng.random() < 0.25:
                cap = rng.choice(whole)
        a = Arr(el, cap, ext)
        usable = [c for c in consts if isinstance(c.value, int) and not isinstance(c.value, bool) and c.value == cap]
        if usable and rng.random() < 0.8:
            a.cap_const = rng.choice(usable)
        return a

    def field_type(self, avail: List[Any], budget: int, consts: List[Const]) -> Any:
        rng = self.rng
        if rng.random() < 0.3:
            a = self.gen_array(avail, budget, consts)
            if a is not None:
                return a
        return self.elem_type(avail, budget)

    def _maybe_reuse_short_name(self, d: Any, parent: Message) -> None:
        """Names are per scope: `Motor.Mode` and `Led.Mode` are different types with one short name.  Only names nested under another
        top-level message are reused (inside one subtree the outer name would be hidden and, a message not being visible inside its
        own body, could not be written at all)."""
        root = parent
        while isinstance(root.parent, Message):
            root = root.parent
        book = self.__dict__.setdefault("_nested_names", {})   # id(root) -> [(kind, name)]
        mine = book.setdefault(id(root), [])
        cfg, rng = self.cfg, self.rng
        if cfg.p_same_short_name and rng.random() < cfg.p_same_short_name:
            taken = {n for _, n in mine}
            cand = [n for rid, lst in book.items() if rid != id(root) for (k, n) in lst if n not in taken]
            if cand:
                new = rng.choice(cand)
                if isinstance(d, Enum):
                    old_tag, new_tag = upper_snake(d.name), upper_snake(new)
                    d.members = [(new_tag + mn[len(old_tag):] if mn.startswith(old_tag) else mn, v) for mn, v in d.members]
                d.name = new
                self.__dict__["_reused_short_names"] = self.__dict__.get("_reused_short_names", 0) + 1
        mine.append((type(d).__name__, d.name))

    # -- messages ----------------------------------------------------------
    def gen_message(self, parent: Any, avail: List[Any], consts: List[Const], depth: int) -> Message:
        rng, cfg = self.rng, self.cfg
        m = Message(self.pool.pascal(), ext=cfg.extensible and rng.random() < cfg.p_ext_msg, parent=parent)
        if rng.random() < cfg.comments:
            m.comment = hostile_comment(rng, f"message {m.name}")
        if rng.random() < cfg.p_empty_msg:
            return m
        budget = cfg.msg_bits - (16 if m.ext else 0)
        if rng.random() < 0.15:
            budget = rng.choice([8, 16, 24, 64])
        local = list(avail)
        nf = rng.randint(1, cfg.max_fields)
        numbers = rng.sample(range(1, 256), nf) if rng.random() < 0.7 else list(range(1, nf + 1))
        if rng.random() < 0.5:
            rng.shuffle(numbers)
        used_fields: set = set()
        for k in range(nf):
            # nested definitions declared before the field that may use them
            if depth < cfg.max_depth and rng.random() < cfg.p_nested:
                if rng.random() < 0.5:
                    e = self.gen_enum(m)
                    self._maybe_reuse_short_name(e, m)
                    m.items.append(e)
                    local.append(e)
                else:
                    sub = self.gen_message(m, local, consts, depth + 1)
                    self._maybe_reuse_short_name(sub, m)
                    m.items.append(sub)
                    if ref.nbits(sub) <= budget:
                        local.append(sub)
                    # definitions nested inside sub are reachable as Sub.X
                    local.extend(d for d in iter_defs(sub) if isinstance(d, (Enum, Message)) and d is not sub)
            if budget <= 0:
                break
            t = self.field_type(local, budget, consts)
            nb = ref.nbits(t)
            if nb > budget:
                continue
            budget -= nb
            fname = self.pool.snake(used_fields)
            if cfg.keyword_field and "type" not in used_fields and rng.random() < cfg.keyword_field:
                fname = "type"
                used_fields.add("type")
            fl = Field(fname, t, numbers[k], parent=m)
            if rng.random() < cfg.comments / 2:
                fl.comment = hostile_comment(rng, "field note")
            m.items.append(fl)
        if rng.random() < cfg.p_options and ref.nbits(m) > 0:
            nby = ref.nbytes(m)
            o = Option("max_bytes", rng.choice([nby, nby + 1, nby + 100, 0]), parent=m)
            m.items.insert(rng.randint(0, len(m.items)), o)
        return m

    # -- files -------------------------------------------------------------
    def gen_file(self, imports: List[File], is_main: bool) -> File:
        rng, cfg = self.rng, self.cfg
        pname = self.pool.proto()
        f = File(pname)
        if rng.random() < cfg.basename_differs:
            f.basename = self.pool.proto() + "_file"
        if not is_main and rng.random() < cfg.p_odd_basename:
            f.basename = self.pool.proto() + rng.choice(["-file", "-v2", "-x-y", "-2"])  # (a dot would also defeat importlib in the harness)
        if rng.random() < (cfg.p_subdir if not is_main else cfg.p_subdir / 2):
            f.subdir = rng.choice(["lib", "lib/inner", "sub dir", "a/b/c"])
        if imports and rng.random() < cfg.p_subdir / 3:
            f.abs_imports = True
        if rng.random() < cfg.comments:
            f.comment = hostile_comment(rng, f"Proto {pname}.")
        avail: List[Any] = []
        consts: List[Const] = []
        reach = list(imports)
        if cfg.p_transitive_ref:
            # definitions of files reachable only through an imported file's own imports are written `b.c.M`
            for g in imports:
                reach.extend(h for h in g.all_files() if h not in reach)
        inner_names = {imp.bound_name: imp.file for g in imports for h in g.all_files() for imp in h.imports}
        bound: set = set()
        for g in imports:
            as_name = self.pool.proto() if rng.random() < cfg.p_as_name else None
            reusable = [n for n, h in inner_names.items() if h is not g and n not in bound]
            if reusable and rng.random() < cfg.p_shared_as_name:
                as_name = rng.choice(reusable)
            if (as_name or g.proto_name) in bound:
                as_name = self.pool.proto()
            f.add(Import(g, as_name))
            bound.add(as_name or g.proto_name)
        for g in reach:
            for d in iter_defs(g):
                if isinstance(d, (Enum, Message, Alias)):
                    avail.append(d)
                elif isinstance(d, Const) and isinstance(d.value, int) and not isinstance(d.value, bool):
                    consts.append(d)
        if rng.random() < cfg.name_prefix:
            f.add(Option("c.name_prefix", rng.choice(["my_prefix_", "Ab", "xq_", "Zz", "X", "My", "Drone"])))
        if rng.random() < cfg.packing:
            f.add(Option("c.struct_packing_alignment", rng.choice([3, 5, 6, 7]) if rng.random() < cfg.bad_packing else rng.choice([1, 2, 4, 8])))
        if rng.random() < cfg.module_options:
            f.add(Option("py.module_name", f"{f.basename}_bp"))
            f.add(Option("go.package_path", f"example.com/gen/{f.proto_name}_bp"))
        n_top = rng.randint(*cfg.n_top)
        kinds = []
        for _ in range(n_top):
            kinds.append(rng.choices(["const", "alias", "enum", "message"], [2, 2, 2, 5])[0])
        while kinds.count("message") < (cfg.min_messages if is_main else 0):
            kinds.append("message")
        for kind in kinds:
            usable = [d for d in avail if cfg.empty_enum_fields or not (isinstance(d, Enum) and not d.members)]
            if kind == "const":
                r = rng.random()
                if r < 0.6:
                    v: Any = rng.choice(BIASED_CAPS + [rng.randint(0, 1000)])
                elif r < 0.8:
                    v = rng.random() < 0.5
                else:
                    # every supported escape occurs: position bookkeeping, lexing and literal emission all see them
                    v = rng.choice(["hello", "a b", "v1.2", "", "x_y-z", "line\nbreak", "two\n\nbreaks\n", "tab\there", 'dq"uote', "it's",
                                    "back\\slash", "cr\rlf\n", "// not a comment", "{ } ; = '"] + SPECIAL_STRINGS)
                c = f.add(Const(self.pool.upper(), v))
                if isinstance(v, int) and not isinstance(v, bool):
                    consts.append(c)
            elif kind == "alias":
                if rng.random() < 0.5:
                    t: Any = pick_base(rng, cfg.std_signed_only)
                else:
                    # arrays of base/enum/alias/message; alias-of-array chains give 2-D/3-D arrays
                    t = self.gen_array(usable, 400, consts) or pick_base(rng, cfg.std_signed_only)
                a = f.add(Alias(self.pool.pascal(), t))
                avail.append(a)
            elif kind == "enum":
                e = f.add(self.gen_enum(f))
                if cfg.allow_empty_enum and rng.random() < 0.1:
                    e.members = []
                avail.append(e)
            else:
                m = f.add(self.gen_message(f, usable, consts, 1))
                avail.append(m)
                avail.extend(d for d in iter_defs(m) if isinstance(d, (Enum, Message)) and d is not m)
        return f

    def gen_schema(self) -> File:
        rng, cfg = self.rng, self.cfg
        n_imp = rng.randint(*cfg.n_imports)
        imported: List[File] = []
        inner: List[File] = []
        for _ in range(n_imp):
            deps: List[File] = []
            if imported and rng.random() < cfg.p_import_chain:
                deps = [rng.choice(imported)]  # a chain: this imported file imports an earlier one
                inner.extend(deps)
            imported.append(self.gen_file(deps, False))
        direct = [g for g in imported if g not in inner or rng.random() >= cfg.p_transitive_ref]
        return self.gen_file(direct, True)


def add_same_name_shapes(root: File, rng: random.Random, ext_ok: bool = True) -> None:
    """Two top-level messages that each nest an enum and a message under the SAME short names (different widths / fields), with arrays
    of equal capacity and equal extensible mark over both, plus a third message that uses all four through qualified names - anything
    keyed on a short name, a printed type or (capacity, mark) confuses them.  Also arrays whose ELEMENT type is an alias of a signed
    integer of non-standard width."""
    tag = "".join(rng.choice("abcdefghijklmnopqrstuvwxyz") for _ in range(4)).capitalize()
    mode, sample = "Mode" + tag, "Sample" + tag
    cap, cap2 = rng.choice([1, 2, 3, 4, 7]), rng.choice([1, 2, 3])
    ext = ext_ok and rng.random() < 0.4
    sides = []
    for side, ew, widths in (("Left", rng.choice([1, 2, 3]), [3, 5]), ("Right", rng.choice([4, 5, 9]), [7, 12, 1])):
        m = Message(side + tag)
        e = Enum(mode, ew, [(f"{side.upper()}_{tag.upper()}_A", 0), (f"{side.upper()}_{tag.upper()}_B", (1 << ew) - 1)])
        m.add(e)
        sub = Message(sample)
        for k, w in enumerate(widths):
            sub.add(Field("abcdef"[k] + "_part", Base(rng.choice(["uint", "int"]), w), k + 1))
        m.add(sub)
        n = rng.sample(range(1, 40), 5)
        m.add(Field("recent_modes", Arr(Ref(e), cap, ext=ext), n[0]))
        m.add(Field("history", Arr(Ref(sub), cap2, ext=ext), n[1]))
        m.add(Field("mode_now", Ref(e), n[2]))
        m.add(Field("last", Ref(sub), n[3]))
        m.add(Field("gap", Base("uint", rng.choice([1, 3, 6])), n[4]))
        root.add(m)
        sides.append((m, e, sub))
    both = Message("Both" + tag)
    (lm, le, ls), (rm, re_, rs) = sides
    both.add(Field("right_modes", Arr(Ref(re_), cap, ext=ext), 1))
    both.add(Field("left_modes", Arr(Ref(le), cap, ext=ext), 2))
    both.add(Field("left_history", Arr(Ref(ls), cap2, ext=ext), 3))
    both.add(Field("right_history", Arr(Ref(rs), cap2, ext=ext), 4))
    al = root.add(Alias("Delta" + tag, Base("int", rng.choice([3, 7, 12, 17, 24, 29, 33, 40, 48, 56, 63]))))
    both.add(Field("deltas", Arr(Ref(al), rng.choice([1, 2, 4])), 5))
    both.add(Field("delta", Ref(al), 6))
    root.add(both)


def add_alias_reach_shapes(root: File, rng: random.Random) -> None:
    """Messages that reach an enum-bearing (or signed, or nested) message ONLY through aliases: alias of an array of messages, arrays of
    that alias (2-D), alias used as a plain field - and no enum field of their own.  Anything that decides per message "does it contain
    X" by walking fields without looking through aliases decides wrongly here."""
    tag = "".join(rng.choice("abcdefghijklmnopqrstuvwxyz") for _ in range(4)).capitalize()
    e = root.add(Enum("Tint" + tag, rng.choice([2, 3, 9]), [(f"TINT_{tag.upper()}_A", 0), (f"TINT_{tag.upper()}_B", 1), (f"TINT_{tag.upper()}_C", 3)]))
    pen = Message("Pen" + tag)
    pen.add(Field("color", Ref(e), 1))
    pen.add(Field("width", Base("int", rng.choice([3, 12, 24])), 2))
    root.add(pen)
    pens = root.add(Alias("Pens" + tag, Arr(Ref(pen), 2)))
    case = Message("Case" + tag)
    case.add(Field("pens", Ref(pens), 1))
    case.add(Field("count", Base("uint", 5), 2))
    root.add(case)
    crate = Message("Crate" + tag)
    crate.add(Field("rows", Arr(Ref(pens), 2), 1))
    crate.add(Field("inner", Ref(case), 2))
    crate.add(Field("label", Base("byte"), 3))
    root.add(crate)


def add_empty_shapes(root: File, rng: random.Random, ext_ok: bool = True) -> None:
    """Definitions without content in every position: empty messages (plain and extensible - 0 and 16 bits) as fields, array elements and
    the only content of other messages, two levels deep, with data after each of them."""
    tag = "".join(rng.choice("abcdefghijklmnopqrstuvwxyz") for _ in range(4)).capitalize()
    e = root.add(Message("Void" + tag))
    x = root.add(Message("Hollow" + tag, ext=True)) if ext_ok else None
    only = Message("Onlyvoid" + tag)
    only.add(Field("v_one", Ref(e), 1))
    only.add(Field("v_many", Arr(Ref(e), rng.choice([1, 3, 8])), 2))
    root.add(only)
    h = Message("Holder" + tag, ext=ext_ok and rng.random() < 0.3)
    n = 0
    for t in [Base("uint", rng.choice([3, 8])), Ref(e), Arr(Ref(e), 3), Ref(only), Base("bool")] + \
             ([Ref(x), Arr(Ref(x), 2, ext=rng.random() < 0.5), Base("uint", 5)] if x is not None else []) + [Arr(Ref(only), 2), Base("int", 7)]:
        n += 1
        h.add(Field(f"h{'abcdefghijkl'[n]}_v", t, n * 3))
    root.add(h)
    o = Message("Outer" + tag)
    o.add(Field("first", Ref(h), 1))
    o.add(Field("rows", Arr(Ref(h), 2), 2))
    o.add(Field("last", Base("uint", 4), 3))
    root.add(o)


def flat_name(d: Any) -> str:
    return "".join(qualified_path(d))


def flat_names_unique(root: File) -> bool:
    seen = set()
    for g in root.all_files():
        for d in iter_defs(g):
            if isinstance(d, (Message, Enum, Alias)):
                k = flat_name(d).lower()
                if k in seen:
                    return False
                seen.add(k)
    return True


def gen_schema(rng: random.Random, cfg: Optional[GenCfg] = None) -> File:
    for _ in range(50):
        root = SchemaGen(rng, cfg).gen_schema()
        if flat_names_unique(root) and any(messages_of(g) for g in [root]):
            return root
    raise RuntimeError("could not generate schema")


# ----------------------------------------------------------------------------
# values
# ----------------------------------------------------------------------------
def leaf_candidates(width: int, signed: bool) -> List[int]:
    if signed:
        lo, hi = -(1 << (width - 1)), (1 << (width - 1)) - 1
        c = [0, 1, -1, lo, hi, lo + 1, hi - 1]
        c += [ref.to_signed(1 << k, width) for k in range(width)]
        c += [ref.to_signed(int("55" * 8, 16), width), ref.to_signed(int("AA" * 8, 16), width)]
        c += [ref.to_signed(0x80 << (8 * k), width) for k in range((width + 7) // 8)]
        return [v for v in c if lo <= v <= hi]
    hi = (1 << width) - 1
    c = [0, 1, hi, hi - 1 if hi else 0] + [1 << k for k in range(width)]
    c += [int("55" * 8, 16) & hi, int("AA" * 8, 16) & hi]
    return [v for v in c if 0 <= v <= hi]


def gen_leaf(rng: random.Random, t: Any, mode: str = "mix") -> int:
    if isinstance(t, Enum):
        vals = [v for _, v in t.members]
        if not vals:
            return 0
        if mode == "zero":
            return vals[0]
        return rng.choice(vals)
    assert isinstance(t, Base)
    w, signed = t.width, t.signed
    if mode == "zero":
        return 0
    if mode == "ones":
        return -1 if signed else (1 << w) - 1
    if mode == "min":
        return -(1 << (w - 1)) if signed else 0
    if mode == "max":
        return (1 << (w - 1)) - 1 if signed else (1 << w) - 1
    if t.kind == "bool":
        return rng.randint(0, 1)
    if rng.random() < 0.5:
        return rng.choice(leaf_candidates(w, signed))
    u = rng.getrandbits(w)
    return ref.to_signed(u, w) if signed else u


def gen_value(rng: random.Random, t: Any, mode: str = "mix") -> Any:
    if isinstance(t, Ref):
        tt = t.target
        return gen_value(rng, tt.type if isinstance(tt, Alias) else tt, mode)
    if isinstance(t, (Base, Enum)):
        return gen_leaf(rng, t, mode)
    if isinstance(t, Arr):
        return [gen_value(rng, t.elem, mode) for _ in range(t.cap)]
    if isinstance(t, Message):
        return {f.number: gen_value(rng, f.type, mode) for f in t.sorted_fields}
    raise TypeError(t)


def gen_values(rng: random.Random, t: Any, n: int) -> List[Any]:
    modes = ["zero", "ones", "min", "max"]
    out = [gen_value(rng, t, m) for m in modes[: min(n, 4)]]
    while len(out) < n:
        out.append(gen_value(rng, t, "mix"))
    return out


def schema_signature(root: File) -> Dict[str, int]:
    """Feature counts used for the non-triviality rule in evidence files."""
    sig = dict(files=0, messages=0, enums=0, aliases=0, consts=0, arrays=0, ext_msgs=0, ext_arrays=0,
               nested=0, imports=0, leaves=0, straddle=0)
    for g in root.all_files():
        sig["files"] += 1
        sig["imports"] += len(g.imports)
        for d in iter_defs(g):
            if isinstance(d, Message):
                sig["messages"] += 1
                sig["ext_msgs"] += int(d.ext)
                sig["nested"] += int(isinstance(d.parent, Message))
                for fl in d.fields:
                    if isinstance(fl.type, Arr):
                        sig["arrays"] += 1
                        sig["ext_arrays"] += int(fl.type.ext)
            elif isinstance(d, Enum):
                sig["enums"] += 1
            elif isinstance(d, Alias):
                sig["aliases"] += 1
                if isinstance(d.type, Arr):
                    sig["arrays"] += 1
                    sig["ext_arrays"] += int(d.type.ext)
            elif isinstance(d, Const):
                sig["consts"] += 1
    for m in messages_of(root):
        items = ref.flatten(m)
        sig["leaves"] += len(items)
        sig["straddle"] += sum(1 for it in items if it.offset // 8 != (it.offset + it.width - 1) // 8)
    return sig


def is_nontrivial(sig: Dict[str, int]) -> bool:
    return sig["leaves"] >= 2 and (
        sig["straddle"] > 0 or sig["nested"] or sig["arrays"] or sig["aliases"] or sig["ext_msgs"] or sig["imports"]
    )
