"""Big-endian host emulation for C code on this little-endian machine (C06, C14).

A big-endian machine differs from a little-endian one only in how a multi-byte scalar maps to memory bytes; registers and
arithmetic are the same.  This module takes the *unoptimised* LLVM IR that `clang -O0 -emit-llvm` produces for a C source
(every C-level access is still one load/store there, nothing has been merged or folded under little-endian assumptions)
and rewrites it so that

  * every load of an i16/i32/i64 is followed by `llvm.bswap`, every store of one is preceded by it,
  * every i16/i32/i64 constant inside a global initializer is byte-swapped,

and leaves pointers, bytes, bools, memcpy/memset and calls alone.  The result, compiled natively, computes on memory images
that are byte-for-byte those of a big-endian host: a `uint32_t` holding 0x01020304 occupies bytes 01 02 03 04, a
`*(uint16_t *)p` reads p[0] as the high byte, `memcpy(&v, p, 2)` fills the two *high* bytes of a 64-bit v.  The sources are
preprocessed with `__BYTE_ORDER__ == __ORDER_BIG_ENDIAN__`, so the code under observation takes the paths it would take on
such a host by its own detection macros.

Anything the rewriter does not understand (integer widths other than 1/8/16/32/64 in memory, floating point, vectors,
first-class aggregates in memory, atomics, inline asm, constant expressions as stored values) is reported as unsupported and
the caller must treat the build as INCONCLUSIVE, never as a pass.

Library calls are outside the emulation: values passed and returned in registers are fine (printf arguments, strlen, mmap),
bytes are fine (memcpy, getline's buffer); a libc function that reads or writes a multi-byte integer *through a pointer*
(sscanf %d, sigaction's struct) would see the swapped image and must not be called from rewritten code.  The drivers in
sut_c.py keep to that (DRV_EMU_BE).
"""
from __future__ import annotations

import os
import re
import subprocess
from typing import Dict, List, Tuple

SWAPPED = ("i16", "i32", "i64")
_OK_MEM_TYPES = re.compile(r"^(i1|i8|i16|i32|i64)$")

_SIMPLE_VAL = re.compile(r"^(%[-\w.$\"]+|-?\d+|true|false|undef|null|zeroinitializer)$")
_OPEN, _CLOSE = "([{<", ")]}>"


def parse_type(s: str, i: int) -> int:
    """Index just after the LLVM type that starts at s[i] (typed-pointer syntax of LLVM 14)."""
    n = len(s)
    if s[i] in "[{<":
        depth = 0
        while i < n:
            if s[i] in _OPEN:
                depth += 1
            elif s[i] in _CLOSE:
                depth -= 1
                if depth == 0:
                    i += 1
                    break
            i += 1
    else:
        m = re.match(r'(%"[^"]*"|[%\w.$-]+)', s[i:])
        if not m:
            raise Unsupported("type not understood: " + s[i:i + 60])
        i += m.end()
    while i < n:
        if s[i] == "*":
            i += 1
        elif s[i] == " " and s[i + 1:i + 2] == "(":          # function type: <ret> (<params>)
            j, depth = i + 1, 0
            while j < n:
                if s[j] == "(":
                    depth += 1
                elif s[j] == ")":
                    depth -= 1
                    if depth == 0:
                        break
                j += 1
            i = j + 1
        elif s.startswith(" addrspace(", i):
            i = s.index(")", i) + 1
        else:
            break
    return i


class Unsupported(Exception):
    pass


def _bswap_const(bits: int, v: int) -> int:
    v &= (1 << bits) - 1
    return int.from_bytes(v.to_bytes(bits // 8, "little"), "big")


def _swap_initializer(text: str) -> Tuple[str, int]:
    """Byte-swap every `iN <int>` (N in 16/32/64) of a global initializer, outside strings and constant expressions."""
    out: List[str] = []
    i, n, swapped = 0, len(text), 0
    depth_expr = 0          # depth inside `( ... )` of a constant expression (getelementptr/bitcast/ptrtoint ...)
    while i < n:
        ch = text[i]
        if ch == 'c' and text[i:i + 2] == 'c"':          # c"...": copy verbatim
            j = text.index('"', i + 2)
            out.append(text[i:j + 1])
            i = j + 1
            continue
        if ch == '"':                                      # quoted name
            j = text.index('"', i + 1)
            out.append(text[i:j + 1])
            i = j + 1
            continue
        if ch == '(':
            depth_expr += 1
        elif ch == ')':
            depth_expr -= 1
        if depth_expr == 0 and ch == 'i' and (i == 0 or not (text[i - 1].isalnum() or text[i - 1] in "_.%@")):
            m = re.match(r"i(\d+) (-?\d+)(?![\w.])", text[i:])
            if m:
                bits, val = int(m.group(1)), int(m.group(2))
                if bits in (16, 32, 64):
                    out.append(f"i{bits} {_bswap_const(bits, val)}")
                    swapped += 1
                    i += m.end()
                    continue
                if bits not in (1, 8):
                    raise Unsupported(f"global initializer with i{bits}")
            if re.match(r"i(16|32|64) (ptrtoint|add|sub|mul|shl|lshr|and|or|xor|trunc|zext|sext|select)\b", text[i:]):
                raise Unsupported("global initializer computes an integer from a constant expression: " + text[i:i + 60])
        if depth_expr == 0 and re.match(r"(float|double) [-0-9x]", text[i:]):
            raise Unsupported("floating point constant in a global initializer")
        out.append(ch)
        i += 1
    return "".join(out), swapped


def transform_ll(text: str) -> Tuple[str, Dict[str, int]]:
    """Rewrite one module.  Raises Unsupported."""
    stats = {"loads_swapped": 0, "stores_swapped": 0, "loads_other": 0, "stores_other": 0, "global_ints_swapped": 0, "functions": 0}
    out: List[str] = []
    tmp = 0
    used = set()
    for line in text.split("\n"):
        s = line.strip()
        if line.startswith("@") and " = " in line:
            # @name = [linkage...] (global|constant) <type> <initializer>[, align N][, section ...]
            m = re.match(r"^(@\S+ = .*?\b(?:global|constant) )(.*)$", line)
            if m and "external " not in m.group(1):
                body, k = _swap_initializer(m.group(2))
                stats["global_ints_swapped"] += k
                out.append(m.group(1) + body)
                continue
            out.append(line)
            continue
        if line.startswith("define "):
            stats["functions"] += 1
        if " = load " in line and not s.startswith(";"):
            m = re.match(r"^(\s*)(%[-\w.$\"]+) = load (atomic )?(volatile )?", line)
            if not m:
                raise Unsupported("load not understood: " + s[:120])
            ind, res, atomic, vol = m.groups()
            if atomic:
                raise Unsupported("atomic load")
            e = parse_type(line, m.end())
            ty, rest = line[m.end():e], line[e:]
            if not rest.startswith(", "):
                raise Unsupported("load not understood: " + s[:120])
            rest = rest[2:]
            if ty in SWAPPED:
                tmp += 1
                raw = f"%be.l{tmp}"
                out.append(f"{ind}{raw} = load {vol or ''}{ty}, {rest}")
                out.append(f"{ind}{res} = call {ty} @llvm.bswap.{ty}({ty} {raw})")
                used.add(ty)
                stats["loads_swapped"] += 1
                continue
            if ty.endswith("*") or ty in ("i1", "i8"):
                stats["loads_other"] += 1
                out.append(line)
                continue
            raise Unsupported("load of type " + ty)
        if s.startswith("store "):
            m = re.match(r"^(\s*)store (atomic )?(volatile )?", line)
            ind, atomic, vol = m.groups()
            if atomic:
                raise Unsupported("atomic store")
            e = parse_type(line, m.end())
            ty, rest = line[m.end():e], line[e:]
            if ty in SWAPPED:
                m2 = re.match(r"^ (\S+), (.*)$", rest)
                if not m2 or not _SIMPLE_VAL.match(m2.group(1)):
                    raise Unsupported("store of a constant expression: " + s[:120])
                val, tail = m2.groups()
                tmp += 1
                sw = f"%be.s{tmp}"
                out.append(f"{ind}{sw} = call {ty} @llvm.bswap.{ty}({ty} {val})")
                out.append(f"{ind}store {vol or ''}{ty} {sw}, {tail}")
                used.add(ty)
                stats["stores_swapped"] += 1
                continue
            if ty.endswith("*") or ty in ("i1", "i8"):
                stats["stores_other"] += 1
                out.append(line)
                continue
            raise Unsupported("store of type " + ty)
        if re.search(r"\b(cmpxchg|atomicrmw|va_arg)\b", s) and not s.startswith(";") and not s.startswith("declare"):
            raise Unsupported("instruction: " + s[:80])
        if "asm " in s and "call" in s and "asm sideeffect" in s or re.search(r"= call .* asm ", s):
            raise Unsupported("inline asm")
        out.append(line)
    existing = text
    for ty in sorted(used):
        if f"@llvm.bswap.{ty}(" not in existing or f"declare {ty} @llvm.bswap.{ty}" not in existing:
            out.append(f"declare {ty} @llvm.bswap.{ty}({ty})")
    return "\n".join(out) + "\n", stats


BE_CPP_FLAGS = ["-Wno-builtin-macro-redefined", "-U__BYTE_ORDER__", "-D__BYTE_ORDER__=__ORDER_BIG_ENDIAN__"]
DRV_FLAGS = ["-DDRV_EMU_BE", "-DDRV_BE_STORAGE"]


def build_emulated(sources: List[str], exe: str, include_dirs: List[str], extra_flags: List[str], backend_opt: str = "-O1",
                   workdir: str = None, native_sources: List[str] = (), force_le: bool = False) -> Dict[str, int]:
    """clang -O0 -emit-llvm each source with the big-endian detection macros, rewrite, compile natively and link.
    `native_sources` are compiled as they are (helpers that talk to libc structures)."""
    workdir = workdir or os.path.dirname(exe)
    total: Dict[str, int] = {}
    lls = []
    inc = [x for d in include_dirs for x in ("-I", d)]
    for k, src in enumerate(sources):
        ll = os.path.join(workdir, f"beemu-{k}-{os.path.basename(src)}.ll")
        cmd = ["clang", "-O0", "-Xclang", "-disable-O0-optnone", "-fno-builtin", "-S", "-emit-llvm", "-std=gnu99", "-w"] + ([] if force_le else BE_CPP_FLAGS) + DRV_FLAGS + list(extra_flags) + inc + [src, "-o", ll]
        p = subprocess.run(cmd, capture_output=True, text=True, timeout=600)
        if p.returncode != 0:
            raise RuntimeError("clang -emit-llvm failed: " + (p.stdout + p.stderr)[-3000:])
        text = open(ll).read()
        new, stats = transform_ll(text)
        open(ll, "w").write(new)
        for a, b in stats.items():
            total[a] = total.get(a, 0) + b
        lls.append(ll)
    cmd = ["clang", backend_opt, "-w"] + list(extra_flags) + inc + lls + list(native_sources) + ["-o", exe]
    p = subprocess.run(cmd, capture_output=True, text=True, timeout=600)
    if p.returncode != 0:
        raise RuntimeError("clang link of rewritten IR failed: " + (p.stdout + p.stderr)[-3000:])
    for ll in lls:
        try:
            os.remove(ll)
        except OSError:
            pass
    return total


SELFTEST_C = r"""
#include <stdio.h>
#include <stdint.h>
#include <string.h>
struct S { uint16_t a; uint32_t b; const char *name; int64_t c; };
static const struct S TAB[2] = { {0x0102, 0x03040506, "x", -2}, {1, 2, "y", 3} };
int main(void) {
  uint32_t x = 0x01020304; uint8_t *p = (uint8_t *)&x;
  uint8_t buf[8]; memset(buf, 0, 8);
  *(uint32_t *)(buf + 1) = 0xAABBCCDD;
  uint64_t v = 0x1122334455667788ULL; uint16_t h; memcpy(&h, &v, 2);
  const uint8_t *q = (const uint8_t *)&TAB[0];
  int be = 0;
#if defined(__BYTE_ORDER__) && __BYTE_ORDER__ == __ORDER_BIG_ENDIAN__
  be = 1;
#endif
  printf("%d %d %d %d | %x %x | %x | %x %x %x %x %lld %s | %d\n", p[0], p[1], p[2], p[3], buf[1], buf[4], h, q[0], q[1], q[4], q[7], (long long)TAB[0].c, TAB[1].name, be);
  return 0;
}
"""
SELFTEST_EXPECT = "1 2 3 4 | aa dd | 1122 | 1 2 3 6 -2 y | 1"


def selftest(workdir: str) -> str:
    """'' when a small program observes big-endian memory images under the emulation (scalar bytes, unaligned word store, memcpy of the
    leading bytes of a wider value, a constant table, the detection macro); otherwise what went wrong."""
    src = os.path.join(workdir, "beemu_selftest.c")
    exe = os.path.join(workdir, "beemu_selftest")
    with open(src, "w") as fh:
        fh.write(SELFTEST_C)
    try:
        build_emulated([src], exe, [], [], "-O1", workdir=workdir)
        out = subprocess.run([exe], capture_output=True, text=True, timeout=30).stdout.strip()
    except Exception as e:  # noqa: BLE001 - anything here means the monitor cannot be trusted
        return f"{type(e).__name__}: {e}"[:400]
    finally:
        for f in (src, exe):
            try:
                os.remove(f)
            except OSError:
                pass
    return "" if out == SELFTEST_EXPECT else f"self-test program printed {out!r}, expected {SELFTEST_EXPECT!r}"
