"""Documented naming scheme of the generated API (C15), from docs/ and the property statement.

Only for style-guide names made of plain PascalCase / snake_case / UPPER_CASE
words (no digits, no acronyms), where UPPER_SNAKE of a PascalCase name is
unambiguous.
"""
from __future__ import annotations

from typing import Any, Dict, List, Set

from .model import Alias, Const, Enum, File, Message, enclosing_messages, file_of, iter_defs, messages_of, qualified_path
from .names import pascal_of_snake, upper_snake
from .sut_c import c_prefix, pascal_prefix


def norm(s: str) -> str:
    return s.replace("_", "").lower()


def upper_prefix(f: File) -> str:
    p = c_prefix(f)
    return upper_snake(pascal_prefix(p)) if p else ""


def c_names(f: File, optimize: bool = False) -> Dict[str, Set[str]]:
    """Names the C output of file f must declare, by kind."""
    P = pascal_prefix(c_prefix(f))
    UP = upper_prefix(f)
    out: Dict[str, Set[str]] = {"struct": set(), "typedef": set(), "macro": set(), "function": set(), "macro_norm": set()}
    for d in iter_defs(f):
        path = qualified_path(d)
        flat = P + "".join(path)
        if isinstance(d, Message):
            out["struct"].add(flat)
            out["function"] |= {f"Encode{flat}", f"Decode{flat}"} | (set() if optimize else {f"Json{flat}"})
            out["macro_norm"].add(norm("BYTES_LENGTH_" + UP + "_".join(upper_snake(n) for n in path)))
            if not UP:
                out["macro"].add("BYTES_LENGTH_" + "_".join(upper_snake(n) for n in path))
        elif isinstance(d, (Enum, Alias)):
            out["typedef"].add(flat)
            if isinstance(d, Enum):
                encl = [upper_snake(m.name) for m in enclosing_messages(d)]
                for mn, _ in d.members:
                    out["macro_norm"].add(norm(UP + "_".join(encl + [mn])))
                    if not UP:
                        out["macro"].add("_".join(encl + [mn]))
        elif isinstance(d, Const):
            out["macro_norm"].add(norm(UP + d.name))
            if not UP:
                out["macro"].add(d.name)
    return out


def py_names(f: File) -> Dict[str, Set[str]]:
    out: Dict[str, Set[str]] = {"class": set(), "enum": set(), "alias": set(), "constant": set(), "enum_member": set()}
    for d in iter_defs(f):
        flat = "_".join(qualified_path(d))
        if isinstance(d, Message):
            out["class"].add(flat)
        elif isinstance(d, Enum):
            out["enum"].add(flat)
            encl = [upper_snake(m.name) for m in enclosing_messages(d)]
            out["enum_member"] |= {"_".join(encl + [mn]) for mn, _ in d.members}
        elif isinstance(d, Alias):
            out["alias"].add(flat)
        elif isinstance(d, Const):
            out["constant"].add(d.name)
    return out


def go_names(f: File) -> Dict[str, Set[str]]:
    out: Dict[str, Set[str]] = {"struct": set(), "type_norm": set(), "const": set(), "size_const": set()}
    for d in iter_defs(f):
        path = qualified_path(d)
        if isinstance(d, Message):
            out["struct"].add("".join(path))
            out["size_const"].add("BYTES_LENGTH_" + "_".join(upper_snake(n) for n in path))
        elif isinstance(d, (Enum, Alias)):
            if len(path) == 1:
                out["struct"].add(path[0])  # top-level: exact
            out["type_norm"].add(norm("".join(path)))
            if isinstance(d, Enum):
                encl = [upper_snake(m.name) for m in enclosing_messages(d)]
                out["const"] |= {"_".join(encl + [mn]) for mn, _ in d.members}
        elif isinstance(d, Const):
            out["const"].add(d.name)
    return out
