"""Schema model used by the generators, the printer and the reference semantics.

This is deliberately *not* the repository's AST: everything the oracles say is
computed from these plain objects, and the text fed to the real compiler is
printed from them (emit.py).
"""
from __future__ import annotations

from dataclasses import dataclass, field
from typing import Any, Dict, Iterator, List, Optional, Tuple, Union


# ----------------------------------------------------------------------------
# types
# ----------------------------------------------------------------------------
@dataclass(eq=False)
class Base:
    kind: str  # 'bool' | 'byte' | 'uint' | 'int'
    width: int = 0

    def __post_init__(self) -> None:
        if self.kind == "bool":
            self.width = 1
        elif self.kind == "byte":
            self.width = 8

    def text(self) -> str:
        if self.kind in ("bool", "byte"):
            return self.kind
        return f"{self.kind}{self.width}"

    @property
    def signed(self) -> bool:
        return self.kind == "int"


@dataclass(eq=False)
class Ref:
    """Use of a named type (enum, message or alias)."""

    target: Union["Enum", "Message", "Alias"]
    forced_path: Optional[str] = None  # emit this text instead of a computed path


@dataclass(eq=False)
class Arr:
    elem: Union[Base, Ref]
    cap: int
    ext: bool = False
    cap_const: Optional["Const"] = None  # capacity written as a constant reference
    cap_text: Optional[str] = None  # capacity literal override (e.g. hex is illegal, keep None)


Type = Union[Base, Ref, Arr]


# ----------------------------------------------------------------------------
# definitions
# ----------------------------------------------------------------------------
@dataclass(eq=False)
class Const:
    name: str
    value: Any  # int | bool | str
    expr: Optional[str] = None  # source text of the value; None -> printed from value
    parent: Any = None
    comment: Optional[str] = None


@dataclass(eq=False)
class Alias:
    name: str
    type: Union[Base, Arr, Ref]  # Ref is only used for invalid schemas
    parent: Any = None
    comment: Optional[str] = None
    typedef_syntax: bool = False


@dataclass(eq=False)
class Enum:
    name: str
    width: int
    members: List[Tuple[str, int]] = field(default_factory=list)
    parent: Any = None
    comment: Optional[str] = None
    hex_members: bool = False


@dataclass(eq=False)
class Option:
    name: str
    value: Any  # int | bool | str | Const (reference)
    parent: Any = None


@dataclass(eq=False)
class Field:
    name: str
    type: Type
    number: int
    parent: Any = None
    comment: Optional[str] = None


@dataclass(eq=False)
class Message:
    name: str
    ext: bool = False
    items: List[Any] = field(default_factory=list)  # Field | Enum | Message | Option, declaration order
    parent: Any = None
    comment: Optional[str] = None

    @property
    def fields(self) -> List[Field]:
        return [i for i in self.items if isinstance(i, Field)]

    @property
    def sorted_fields(self) -> List[Field]:
        return sorted(self.fields, key=lambda f: f.number)

    def add(self, item: Any) -> Any:
        item.parent = self
        self.items.append(item)
        return item


@dataclass(eq=False)
class Import:
    file: "File"
    as_name: Optional[str] = None
    path_text: Optional[str] = None  # override the import path text
    parent: Any = None

    @property
    def bound_name(self) -> str:
        return self.as_name or self.file.proto_name


@dataclass(eq=False)
class File:
    proto_name: str
    basename: Optional[str] = None  # file name without extension; default proto_name
    items: List[Any] = field(default_factory=list)  # Import | Option | Const | Alias | Enum | Message
    comment: Optional[str] = None
    abs_imports: bool = False  # write this file's import paths as absolute paths (known only when the schema is written to disk)
    subdir: str = ""  # directory of the file below the schema root ("" | "lib" | "lib/inner"): import paths are relative to the importing file

    def __post_init__(self) -> None:
        if self.basename is None:
            self.basename = self.proto_name

    @property
    def relpath(self) -> str:
        return f"{self.subdir}/{self.filename}" if self.subdir else self.filename

    @property
    def filename(self) -> str:
        return f"{self.basename}.bitproto"

    def add(self, item: Any) -> Any:
        item.parent = self
        self.items.append(item)
        return item

    @property
    def imports(self) -> List[Import]:
        return [i for i in self.items if isinstance(i, Import)]

    def all_files(self) -> List["File"]:
        """This file and everything it imports transitively, dependencies first (import cycles tolerated)."""
        out: List[File] = []
        visiting: List[File] = []

        def visit(f: "File") -> None:
            if f in out or f in visiting:
                return
            visiting.append(f)
            for imp in f.imports:
                visit(imp.file)
            out.append(f)

        visit(self)
        return out

    def option(self, name: str, default: Any = None) -> Any:
        for i in self.items:
            if isinstance(i, Option) and i.name == name:
                v = i.value
                return v.value if isinstance(v, Const) else v
        return default


# ----------------------------------------------------------------------------
# helpers
# ----------------------------------------------------------------------------
def file_of(d: Any) -> File:
    while not isinstance(d, File):
        d = d.parent
    return d


def enclosing_messages(d: Any) -> List[Message]:
    """Enclosing messages of a definition, outermost first (d itself excluded)."""
    out: List[Message] = []
    p = d.parent
    while isinstance(p, Message):
        out.insert(0, p)
        p = p.parent
    return out


def qualified_path(d: Any) -> List[str]:
    """Names from the file scope down to d."""
    return [m.name for m in enclosing_messages(d)] + [d.name]


def iter_defs(scope: Union[File, Message], recursive: bool = True) -> Iterator[Any]:
    """Definitions in a scope, children first (the order code is emitted in)."""
    for it in scope.items:
        if isinstance(it, Message):
            if recursive:
                yield from iter_defs(it, True)
            yield it
        elif isinstance(it, (Enum, Alias, Const)):
            yield it


def messages_of(f: File) -> List[Message]:
    return [d for d in iter_defs(f) if isinstance(d, Message)]


def enums_of(f: File) -> List[Enum]:
    return [d for d in iter_defs(f) if isinstance(d, Enum)]


def aliases_of(f: File) -> List[Alias]:
    return [d for d in iter_defs(f) if isinstance(d, Alias)]


def consts_of(f: File) -> List[Const]:
    return [d for d in iter_defs(f) if isinstance(d, Const)]


def strip_alias(t: Type) -> Type:
    while isinstance(t, Ref) and isinstance(t.target, Alias):
        t = t.target.type
    return t


def is_extensible_anywhere(f: File) -> bool:
    for g in f.all_files():
        for d in iter_defs(g):
            if isinstance(d, Message):
                if d.ext:
                    return True
                for fl in d.fields:
                    if isinstance(fl.type, Arr) and fl.type.ext:
                        return True
            if isinstance(d, Alias) and isinstance(d.type, Arr) and d.type.ext:
                return True
    return False
