#!/usr/bin/env python3
"""Self-validation: apply one deliberate property-breaking edit (or a seeded patch) to a scratch copy of the
repository and expect the property's check to report a VIOLATION (exit 1).

  tools/selftest.py list
  tools/selftest.py run <name> [--tier quick] [--keep]
  tools/selftest.py all [--jobs 2]
  tools/selftest.py seeded <id>            # /verif/seeded/<id>/patch.diff against the properties in its meta.json

The scratch copy is a `git worktree` of /repo's HEAD outside /repo and /verif, removed afterwards.
"""
import argparse
import json
import os
import shutil
import subprocess
import sys
import tempfile

VERIF = os.path.dirname(os.path.dirname(os.path.abspath(__file__)))

# name -> (properties that must catch it, [(file, old, new)], note)
CATALOGUE = {
    "py-mask-off-by-one": (["C01", "C14"], [("lib/py/bitprotolib/bp.py", "return (1 << ((k + 1 + c) - 1)) - (1 << ((k + 1) - 1))",
                                            "return (1 << ((k + c) - 1)) - (1 << ((k + 1) - 1))")], "get_mask loses the top bit for k>0"),
    "py-array-skip-old": (["C02", "C05"], [("lib/py/bitprotolib/bp.py", "ito = i + 16 + ahead * element_nbits", "ito = i + ahead * self.capacity")],
                          "the original D5 formula in the Python runtime"),
    "c-array-skip-old": (["C03", "C05", "C07"], [("lib/c/bitproto.c", "int ito = i + 16 + (((int)ahead) * element_nbits_decoded);",
                                                  "int ito = i + (((int)ahead) * descriptor->cap);")], "the original D5 formula in the C runtime"),
    "c-copy-threshold-32": (["C03", "C14"], [("lib/c/bitproto.c", "if (bits >= 32) {", "if (bits > 24) {")], "uint32 fast path taken one byte early"),
    "c-copy-c16": (["C03", "C14"], [("lib/c/bitproto.c", "c = 16 - si;", "c = 15 - si;")], "uint16 fast path miscounts"),
    "c-sign-mask": (["C03", "C14"], [("lib/c/bitproto.c", "*(uint32_t *)data |= (uint32_t)(~(((uint32_t)1 << nbits) - 1));",
                                      "*(uint32_t *)data |= (uint32_t)(~(((uint32_t)1 << (nbits - 1)) - 1));")], "harmless-looking sign mask variant: still right? (mask includes sign bit)"),
    "c-sign-test-bit": (["C03", "C14"], [("lib/c/bitproto.c", "if ((*(uint16_t *)data) & ((uint16_t)1 << (nbits - 1))) {",
                                          "if ((*(uint16_t *)data) & ((uint16_t)1 << nbits)) {")], "int9..15 sign bit tested one too high"),
    "c-be-staging-order": (["C06", "C14"], [("lib/c/bitproto.c", "for (int k = 0; k < size; k++) le[k] = p[size - 1 - k];",
                                             "for (int k = 0; k < size; k++) le[k] = p[k];")], "BE encode staging not reversed"),
    "c-be-fastpath-on": (["C06"], [("lib/c/bitproto.c", "#ifndef BP_BIG_ENDIAN\n            // These fast paths load multiple bytes",
                                    "#if 1\n            // These fast paths load multiple bytes")],
                         "word fast paths enabled on the BE staging buffer: functionally invisible on x86, visible as wide wire accesses"),
    "c-be-batch-on": (["C06", "C14"], [("lib/c/bitproto.c", "        // to the per-element loop (each element is staged endian-neutrally in\n        // BpEndecodeBaseType).\n        0\n",
                                        "        // to the per-element loop (each element is staged endian-neutrally in\n        // BpEndecodeBaseType).\n        (element_nbits == 8 || element_nbits == 16 || element_nbits == 32 || element_nbits == 64) && (flag >= 2 && flag <= 5)\n")],
                      "array batch path enabled on big-endian"),
    "c-be-prefix-direct-copy": (["C06"], [("lib/c/bitproto.c", "    uint16_t data = (uint16_t)(descriptor->cap);\n    BpEndecodeBaseType(16, ctx, (void *)&data);",
                                            "    uint16_t data = (uint16_t)(descriptor->cap);\n    BpCopyBufferBits(16, ctx->s, (unsigned char *)&data, ctx->i, 0);\n    ctx->i += 16;")],
                                "array capacity prefix copied from native storage without the endian-neutral staging: right on x86 (and under the "
                                "storage-layout emulation, which cannot judge prefixes), byte-swapped on a big-endian host - only the emulated host sees it"),
    "c-be-sign-byte-test": (["C06"], [("lib/c/bitproto.c", "            if ((*(uint16_t *)data) & ((uint16_t)1 << (nbits - 1))) {",
                                        "            if (((unsigned char *)data)[(nbits - 1) >> 3] & (1 << ((nbits - 1) & 7))) {")],
                            "sign bit of int9..15 tested through a byte pointer (little-endian layout assumed): only wrong on a big-endian host"),
    "opt-be-decoder-byteindex": (["C06"], [("compiler/bitproto/renderer/impls/c/formatter.py",
                                            "        if self._op_mode_big_endian:\n            return self._format_op_mode_decoder_item_be(",
                                            "        if self._op_mode_big_endian and False:\n            return self._format_op_mode_decoder_item_be(")],
                                 "big-endian -O decode branch emits little-endian byte indexing"),
    "opt-mask": (["C04", "C14"], [("compiler/bitproto/renderer/formatter.py", "return (1 << (k + c)) - (1 << k)", "return (1 << (k + c)) - (1 << k) if c < 8 else 254")],
                 "-O mask wrong for whole-byte copies"),
    "opt-sign-go-c": (["C04", "C14"], [("compiler/bitproto/renderer/impls/c/formatter.py", "m = ~((1 << n) - 1)", "m = ~((1 << (n + 1)) - 1)")], "-O sign-extension mask misses one bit"),
    "nbytes-round": (["C01", "C07"], [("compiler/bitproto/_ast.py", "        if nbits % 8 == 0:\n            return int(nbits / 8)\n        return int(nbits / 8) + 1",
                                       "        return int(nbits / 8) + 1")], "nbytes always rounds up"),
    "sorted-fields-py": (["C01", "C12"], [("compiler/bitproto/renderer/impls/py/renderer.py",
                                           "            BlockMessageMethodProcessorFieldItem(d, indent=self.indent)\n            for d in self.d.sorted_fields()",
                                           "            BlockMessageMethodProcessorFieldItem(d, indent=self.indent)\n            for d in self.d.fields()")],
                         "Python processor lists fields in declaration order"),
    "ahead-8": (["C01", "C03"], [("compiler/bitproto/_ast.py", "class Message(BoundScope, ScopeWithOptions, CompositeType, ExtensibleType):", "class Message(BoundScope, ScopeWithOptions, CompositeType, ExtensibleType):  # x"),
                                 ("compiler/bitproto/_ast.py", "    @override(ExtensibleType)\n    def ahead_nbits(self) -> int:\n        return 16\n\n    @override(Type)\n    @cache_if_frozen\n    def nbits(self) -> int:\n        n = sum(",
                                  "    @override(ExtensibleType)\n    def ahead_nbits(self) -> int:\n        return 8\n\n    @override(Type)\n    @cache_if_frozen\n    def nbits(self) -> int:\n        n = sum(")],
                "extensible message size counts an 8-bit prefix"),
    "py-int16-threshold": (["C02", "C14"], [("lib/py/bitprotolib/bp.py", "return i if i < 32768 else i - 65536", "return i if i <= 32768 else i - 65536")], "int16(0x8000) stays positive"),
    "lookup-sees-importer": (["C11"], [("compiler/bitproto/parser.py", "for scope in self.scope_stack_in_current_proto()[::-1]:", "for scope in self.scope_stack[::-1]:")],
                             "name lookup in an imported file continues into the importing file's scopes"),
    "lookup-first-import-wins": (["C11"], [("compiler/bitproto/_ast.py", "        member = self.members.get(first, None)\n        if member is None:\n            return None\n\n        if not remain:\n            return member\n",
                                            "        member = self.members.get(first, None)\n        if member is None:\n            return None\n\n        if not remain:\n            return member\n        if isinstance(member, Scope) and member.get_member(*remain) is None and len(remain) == 1:\n            for m2 in self.members.values():\n                if isinstance(m2, Scope) and m2 is not member and m2.get_member(*remain) is not None and type(m2) is type(member):\n                    return m2.get_member(*remain)\n")],
                                 "a dotted path whose last component is missing falls back to a sibling scope that has it"),
    "emit-order-set": (["C18"], [("compiler/bitproto/_ast.py", "        for item in self.members.items():\n            name, member = item\n            if bound:",
                                  "        for item in (sorted(self.members.items(), key=lambda kv: hash(kv[0])) if len(self.members) > 5 else self.members.items()):\n            name, member = item\n            if bound:")],
                       "emission order of larger scopes follows string hashes"),
    "name-cache-by-id": (["C18"], [("compiler/bitproto/renderer/formatter.py", "    def _get_definition_name(self, d: Definition) -> str:\n        \"\"\"Get definition name, name defined in its scope or its original name.\"\"\"\n",
                                    "    _NAME_CACHE: dict = {}\n\n    def _get_definition_name(self, d: Definition) -> str:\n        \"\"\"Get definition name, name defined in its scope or its original name.\"\"\"\n        if id(d) in Formatter._NAME_CACHE:\n            return Formatter._NAME_CACHE[id(d)]\n        Formatter._NAME_CACHE[id(d)] = d.scope_stack[-1].get_name_by_member(d) or d.name if d.scope_stack else d.name\n        return Formatter._NAME_CACHE[id(d)]\n")],
                         "process-global name cache keyed by id(): ids are reused after garbage collection"),
    "go-getaccessor-depth": (["C19"], [("compiler/bitproto/renderer/impls/go/renderer.py",
                                        "    def render_message(self, message: Message) -> None:\n        self.render_case()\n        data = self.format_data_ref()\n        self.push(f\"return &({data})\", indent=self.indent + 1)",
                                        "    def render_message(self, message: Message) -> None:\n        self.render_case()\n        data = self.format_data_ref() if self.array_depth < 2 else self.format_data_ref().rsplit('[', 1)[0]\n        self.push(f\"return &({data})\", indent=self.indent + 1)")],
                             "Go BpGetAccessor drops the last index for 2-D arrays of messages"),
    "go-processint-d": (["C19"], [("compiler/bitproto/renderer/impls/go/renderer.py", "        d = self.formatter.get_nbits_of_integer(single) - single.nbits()\n        if d <= 0:",
                                   "        d = self.formatter.get_nbits_of_integer(single) - single.nbits() + (1 if single.nbits() == 24 else 0)\n        if d <= 0:")],
                        "Go standard-mode sign extension of int24 shifts by 9"),
    "go-helper-mask": (["C19"], [("lib/go/bitproto.go", "	return (1 << ((k + 1 + c) - 1)) - (1 << ((k + 1) - 1))", "	return (1 << ((k + c) - 1)) - (1 << ((k + 1) - 1))")],
                       "Go runtime getMask loses the top bit"),
    "go-struct-unsorted": (["C19"], [("compiler/bitproto/renderer/impls/go/renderer.py",
                                      "            BlockMessageField(field, indent=self.indent)\n            for field in self.d.sorted_fields()",
                                      "            BlockMessageField(field, indent=self.indent)\n            for field in self.d.fields()")],
                           "Go struct fields in declaration order"),
    "go-setbyte-conv": (["C19"], [("compiler/bitproto/renderer/impls/go/renderer.py", "        if alias:\n            type_name = self.formatter.format_type(alias)\n\n        value = f\"{type_name}(b)\"",
                                   "        if alias and self.array_depth == 0:\n            type_name = self.formatter.format_type(alias)\n\n        value = f\"{type_name}(b)\"")],
                        "Go BpSetByte converts array-of-alias elements to the base type (type mismatch in Go)"),
    "opt-go-sign-shift": (["C04", "C14"], [("compiler/bitproto/renderer/impls/go/formatter.py", "        d = self.get_nbits_of_integer(t) - n\n", "        d = self.get_nbits_of_integer(t) - n + (1 if n == 7 else 0)\n")],
                          "Go -O sign extension of int7 shifts by 2"),
    "json-c-comma": (["C16"], [("lib/c/bitproto.c", "        if (k + 1 < descriptor->cap) {\n            BpJsonFormatString(ctx, \",\");", "        if (k + 2 < descriptor->cap) {\n            BpJsonFormatString(ctx, \",\");")],
                     "C JSON arrays lose the last comma"),
    "json-py-drop-proxy-filter": (["C16"], [("compiler/bitproto/renderer/impls/py/renderer.py", "if not k.startswith('{_enum_field_proxy_prefix}')", "if True")],
                                  "to_dict leaks enum proxy fields"),
}


# Mutations that turned out to be equivalent (no observable behaviour changes), kept for the record and not run by `all`:
#  c-copy-c16       `c = 15 - si` in the uint16 fast path: the bit not counted is OR-ed again by the next iteration (idempotent)
#  c-sign-mask      sign-extension mask that also covers the sign bit: only applied when that bit is already set
#  name-cache-by-id process-global cache keyed by id(node): the AST's own memoisation keeps every node alive, ids are never reused
#  ahead-8          breaks the pinned tests (test_parse_extensible), so it is not a realistic change
EQUIVALENT = ["c-copy-c16", "c-sign-mask", "name-cache-by-id", "ahead-8"]

# fixes made in /repo: reverting one must make the checks that exposed the defect fire again
REVERTS = {
    "revert-D5-array-skip": ("4e13d25", ["C02", "C03", "C05", "C07"]),
    "revert-D4-enum-partial-byte": ("0fbdff7", ["C02"]),
    "revert-D6-json-bytearray": ("f7ff4ee", ["C16"]),
    "revert-D7-imported-nested": ("bc51773", ["C10", "C01"]),
    "revert-D1-div-zero": ("a55b448", ["C09", "C13"]),
    "revert-D2-string-escape": ("9ffebdb", ["C13"]),
    "revert-D14-import-in-scope": ("57c7d5e", ["C08", "C09"]),
    "revert-int-digit-limit": ("07afa13", ["C09"]),
    "revert-D3-empty-enum": ("799e4b7", ["C09", "C10"]),
    "revert-go-opt-import-order": ("4f88d64", ["C10"]),
    "revert-D13-first-line-column": ("7b944aa", ["C20"]),
    "revert-D9-helper-collision": ("c64a255", ["C10"]),
    "revert-D11-include-name": ("00d9a6b", ["C10"]),
    "revert-alias-array-helper-collision": ("023e641", ["C10"]),
    "revert-include-guard-collision": ("867c345", ["C10"]),
    "revert-enum-member-digit-split": ("3c754e2", ["C15"]),
    "revert-import-path-nul": ("519e959", ["C09"]),
    "revert-doc-comment-escaping": ("db7316f", ["C10"]),
    "revert-py-transitive-import": ("7fa578d", ["C10"]),
    "revert-huge-integers": ("673ec99", ["C09"]),
    "revert-undecodable-file": ("d521f45", ["C09"]),
    "revert-eof-comment": ("db9c5c2", ["C08"]),
    "revert-packing-validator": ("eec4570", ["C10"]),
    "revert-string-nul-trigraph": ("6101377", ["C13"]),
    "revert-go-json-tag": ("d148e36", ["C15", "C19"]),
    "revert-eof-line": ("3628257", ["C20", "C08"]),
    "revert-lint-lower-digits": ("637f4dd", ["C20"]),
    "revert-empty-filter": ("3e7be02", ["C17"]),
}
for _n, (_c, _p) in REVERTS.items():
    CATALOGUE[_n] = (_p, [("@revert", _c, "")], f"revert of fix {_c}")


# Benign changes: behaviour-preserving refactorings a maintainer could make.  Every listed check must stay SILENT (exit 0):
# a monitor that keys on implementation details instead of the property would alarm here.
BENIGN = {
    "benign-go-empty-processint": (["C19", "C10", "C04"], [("@patch", "seeded/C19-5/patch.diff", ""),
                                   ("compiler/bitproto/renderer/impls/go/renderer.py",
                                    "            t = field.type\n            if isinstance(t, Array):\n                t = t.element_type\n            if isinstance(t, Alias):\n                t = t.type\n",
                                    "            t = field.type\n            while isinstance(t, (Array, Alias)):\n                t = t.element_type if isinstance(t, Array) else t.type\n")],
                                   "Go BpProcessInt emitted with an empty body when no field needs sign extension (the repaired form of seeded change C19-5): "
                                   "C19 used to demand a switch with a default branch - a layout, not a property"),
    "benign-c-internal-prefix": (["C15", "C10", "C03"], [("compiler/bitproto/renderer/impls/c/formatter.py", 'return "BpXXXProcess"', 'return "BpYYYEndecode"'),
                                                         ("compiler/bitproto/renderer/impls/c/formatter.py", 'return "BpXXXJsonFormat"', 'return "BpYYYJson"')],
                                 "internal C helper prefixes renamed"),
    "benign-py-proxy-prefix": (["C02", "C16", "C05"], [("compiler/bitproto/renderer/impls/py/renderer.py", '_enum_field_proxy_prefix = "_enum_field_proxy__"', '_enum_field_proxy_prefix = "_bp_enum_int__"')],
                               "name of the integer proxy attribute of enum fields changed"),
    "benign-error-texts": (["C08", "C20", "C09"], [("compiler/bitproto/errors.py", '"""Duplicated definition."""', '"""This name is already taken in this scope."""'),
                                                   ("compiler/bitproto/errors.py", '"""Enum has no field with value 0."""', '"""Please give this enum a zero member."""'),
                                                   ("compiler/bitproto/errors.py", '"""Invalid array capacity, should between (0, 65536)."""', '"""Array capacity out of range 1..65535."""')],
                           "diagnostic wording changed"),
    "benign-c-comments": (["C17", "C15", "C18"], [("compiler/bitproto/renderer/impls/c/renderer_h.py", 'return f"Encode struct {self.message_name} to given buffer s."', 'return f"Encodes struct {self.message_name} into s (s must be zero-initialised)."'),
                                                  ("compiler/bitproto/renderer/block.py", 'notice = "Code generated by bitproto. DO NOT EDIT."', 'notice = "Code generated by bitproto, do not edit by hand."')],
                          "comments in generated code reworded"),
    "benign-go-layout": (["C19", "C10", "C13"], [("compiler/bitproto/renderer/impls/go/renderer.py", 'self.push(f"func (m *{self.message_name}) Size() uint32 {{")\n        self.push_string(f"return {self.message_nbytes}")\n        self.push_string("}")',
                                                  'self.push(f"func (m *{self.message_name}) Size() uint32 {{")\n        self.push(f"return {self.message_nbytes}", indent=1)\n        self.push("}")')],
                         "Go Size() method printed on three lines"),
    "benign-py-runtime-refactor": (["C01", "C02", "C14"], [("lib/py/bitprotolib/bp.py", "    if k == 0:\n        return (1 << c) - 1\n    return (1 << ((k + 1 + c) - 1)) - (1 << ((k + 1) - 1))", "    return ((1 << c) - 1) << k"),
                                                            ("lib/py/bitprotolib/bp.py", "    return min(n - j, 8 - (j % 8), 8 - (i % 8))", "    return min(n - j, 8 - (j & 7), 8 - (i & 7))")],
                                   "Python runtime helpers rewritten equivalently"),
    "benign-py-helper-renamed": (["C01", "C02", "C07"], [("lib/py/bitprotolib/bp.py", "def get_mask(k: int, c: int) -> int:", "def byte_mask(k: int, c: int) -> int:"),
                                                         ("lib/py/bitprotolib/bp.py", "    mask = get_mask(ctx.i % 8, c)\n    # Shift and then take mask to get bits to copy.\n    d = smart_shift(b, shift) & mask\n    # Copy bits to buffer s.",
                                                          "    mask = byte_mask(ctx.i % 8, c)\n    # Shift and then take mask to get bits to copy.\n    d = smart_shift(b, shift) & mask\n    # Copy bits to buffer s."),
                                                         ("lib/py/bitprotolib/bp.py", "    mask = get_mask(j % 8, c)", "    mask = byte_mask(j % 8, c)")],
                                 "a Python runtime helper renamed (the contract on it cannot attach)"),
    "benign-c-be-memcpy": (["C06", "C14"], [("lib/c/bitproto.c", "        BpCopyBufferBits(nbits, le, ctx->s, 0, ctx->i);\n        // Little-endian staging buffer -> native big-endian bytes.\n        for (int k = 0; k < size; k++) p[size - 1 - k] = le[k];",
                                             "        if ((ctx->i & 7) == 0 && (nbits & 7) == 0) {\n            // Byte aligned: the wire bytes are the little-endian image already.\n            memcpy(le, ctx->s + (ctx->i >> 3), (size_t)(nbits >> 3));\n        } else {\n            BpCopyBufferBits(nbits, le, ctx->s, 0, ctx->i);\n        }\n        // Little-endian staging buffer -> native big-endian bytes.\n        for (int k = 0; k < size; k++) p[size - 1 - k] = le[k];"),
                                            ("lib/c/bitproto.c", '#include "bitproto.h"\n', '#include "bitproto.h"\n\n#include <string.h>\n')],
                           "big-endian decode copies byte-aligned whole-byte fields from the wire with memcpy (byte-order neutral, but a wide access)"),
    "benign-c-runtime-refactor": (["C03", "C14", "C06"], [("lib/c/bitproto.c", "static inline int BpMin(int a, int b) { return (a < b) ? a : b; }", "static inline int BpMin(int a, int b) { return (b < a) ? b : a; }"),
                                                           ("lib/c/bitproto.c", "                    dst[0] = (src[0] >> si) & 0xff;", "                    dst[0] = (unsigned char)(src[0] >> si);")],
                                  "C runtime expressions rewritten equivalently"),
}


def sh(cmd, **kw):
    return subprocess.run(cmd, text=True, capture_output=True, **kw)


def make_worktree(tag):
    d = tempfile.mkdtemp(prefix=f"verif-selftest-{tag}-", dir="/tmp")
    os.rmdir(d)
    r = sh(["git", "-C", "/repo", "worktree", "add", "--detach", "-q", d, "HEAD"])
    if r.returncode:
        raise RuntimeError(r.stderr)
    return d


def drop_worktree(d):
    sh(["git", "-C", "/repo", "worktree", "remove", "--force", d])
    shutil.rmtree(d, ignore_errors=True)
    sh(["git", "-C", "/repo", "worktree", "prune"])


def baseline(d):
    """The pinned suite against the edited tree (it must still pass for the edit to be a realistic one)."""
    e = dict(os.environ, PYTHONPATH=f"{d}/compiler:{d}/lib/py")
    r = sh(["/venv/bin/python", "-m", "pytest", "-q", "-p", "no:cacheprovider", "--timeout=900", "-x", "-q",
            "tests/test_compiler", "tests/test_encoding/test_encoding.py::test_encoding_issue52"], cwd=d, env=e)
    tail = (r.stdout.strip().splitlines() or ["?"])[-1]
    return r.returncode == 0, tail


def run_check(d, prop, tier, seed=None):
    e = dict(os.environ, VERIF_REPO=d)
    if seed is not None:
        e["VERIF_SEED"] = str(seed)
    r = sh([os.path.join(VERIF, "check"), prop, "--tier", tier], cwd=VERIF, env=e)
    keys = sorted({l.strip().split("]")[0].strip("[ ") for l in r.stdout.splitlines() if l.strip().startswith("[")})
    return r.returncode, keys, r.stdout[-1500:]


def run_one(name, tier="quick", keep=False, props=None):
    want, edits, note = CATALOGUE[name]
    d = make_worktree(name)
    out = {"name": name, "note": note, "results": {}}
    try:
        for (f, old, new) in edits:
            if f == "@patch":
                r = sh(["git", "-C", d, "apply", os.path.join(VERIF, old)])
                if r.returncode:
                    out["error"] = "patch does not apply: " + r.stderr[-200:]
                    return out
                continue
            if f == "@revert":
                diff = sh(["git", "-C", d, "show", old]).stdout
                r = subprocess.run(["git", "-C", d, "apply", "-R", "-"], input=diff, text=True, capture_output=True)
                if r.returncode:
                    out["error"] = "revert does not apply: " + r.stderr[-200:]
                    return out
                continue
            p = os.path.join(d, f)
            s = open(p).read()
            if old not in s:
                out["error"] = f"edit does not apply: {f}: {old[:60]!r}"
                return out
            open(p, "w").write(s.replace(old, new, 1))
        ok, tail = baseline(d)
        out["baseline_passes"] = ok
        out["baseline_tail"] = tail
        for prop in props or want:
            rc, keys, tail = run_check(d, prop, tier)
            out["results"][prop] = {"exit": rc, "caught": rc == 1, "keys": keys[:8]}
            if rc not in (0, 1):
                out["results"][prop]["tail"] = tail
    finally:
        if not keep:
            drop_worktree(d)
        else:
            out["worktree"] = d
    return out


def run_seeded(sid, tier="quick"):
    sd = os.path.join(VERIF, "seeded", sid)
    meta = json.load(open(os.path.join(sd, "meta.json")))
    if meta.get("superseded"):
        return {"seeded": sid, "superseded": meta["superseded"][:120], "results": {}}
    d = make_worktree("seeded-" + sid)
    out = {"seeded": sid, "results": {}}
    try:
        r = sh(["git", "-C", d, "apply", os.path.join(sd, "patch.diff")])
        if r.returncode:
            out["error"] = "patch does not apply: " + r.stderr[-300:]
            return out
        ok, tail = baseline(d)
        out["baseline_passes"] = ok
        for prop in meta.get("checks", [meta["property"]]):
            rc, keys, tail = run_check(d, prop, tier)
            out["results"][prop] = {"exit": rc, "caught": rc == 1, "keys": keys[:8]}
    finally:
        drop_worktree(d)
    return out


def main():
    ap = argparse.ArgumentParser()
    ap.add_argument("cmd", choices=["list", "run", "all", "seeded", "seeded-all", "benign"])
    ap.add_argument("name", nargs="?")
    ap.add_argument("--tier", default="quick")
    ap.add_argument("--keep", action="store_true")
    ap.add_argument("--props", default=None)
    a = ap.parse_args()
    if a.cmd == "list":
        for n, (props, _, note) in CATALOGUE.items():
            print(f"{n:32s} {','.join(props):16s} {note}")
        return
    if a.cmd == "run":
        print(json.dumps(run_one(a.name, a.tier, a.keep, a.props.split(",") if a.props else None), indent=1))
        return
    if a.cmd == "benign":
        alarms = []
        for n, entry in BENIGN.items():
            if a.name and a.name != n:
                continue
            CATALOGUE[n] = entry
            r = run_one(n, a.tier)
            print(json.dumps(r))
            sys.stdout.flush()
            for p, pr in r.get("results", {}).items():
                if pr["exit"] != 0:
                    alarms.append((n, p, pr["exit"], pr["keys"][:3]))
            if r.get("error") or not r.get("baseline_passes", True):
                alarms.append((n, "edit", r.get("error"), r.get("baseline_tail")))
        print("FALSE ALARMS:", alarms)
        return
    if a.cmd == "seeded":
        print(json.dumps(run_seeded(a.name, a.tier), indent=1))
        return
    if a.cmd == "seeded-all":
        for sid in sorted(os.listdir(os.path.join(VERIF, "seeded"))):
            if os.path.exists(os.path.join(VERIF, "seeded", sid, "patch.diff")):
                print(json.dumps(run_seeded(sid, a.tier)))
        return
    missed = []
    for n in CATALOGUE:
        if n in EQUIVALENT or (a.name and not n.startswith(a.name)):
            continue
        r = run_one(n, a.tier)
        print(json.dumps(r))
        sys.stdout.flush()
        for p, pr in r.get("results", {}).items():
            if not pr["caught"]:
                missed.append((n, p))
    print("MISSED:", missed)


if __name__ == "__main__":
    main()
