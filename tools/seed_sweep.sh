#!/bin/sh
# tools/seed_sweep.sh <tier> <seed>...   - runs every registered check for each seed; prints one line per run
tier="$1"; shift
cd "$(dirname "$0")/.."
for seed in "$@"; do
  for c in C01 C02 C03 C04 C05 C06 C07 C08 C09 C10 C11 C12 C13 C14 C15 C16 C17 C18 C19 C20; do
    out=$(VERIF_SEED=$seed ./check $c --tier $tier 2>&1); rc=$?
    echo "seed=$seed $c exit=$rc $(echo "$out" | grep -E '^(VIOLATION|INCONCLUSIVE|unlisted)' | head -3 | tr '\n' ' ' | cut -c1-400) | $(echo "$out" | tail -1 | cut -c1-90)"
  done
done
