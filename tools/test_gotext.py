#!/usr/bin/env python3
"""Self-test of vlib/sut_gotext.py (Go text parser / evaluator / static checks).

Run:
    cd /verif && PYTHONPATH=/verif:/repo/compiler:/repo/lib/py /venv/bin/python tools/test_gotext.py

Generates Go (standard and -O mode) and Python for several schemas into a
temporary directory under /tmp (removed afterwards), exercises every public
function of sut_gotext and cross-checks the evaluator of the -O mode Go text
against the bytes produced by the Python runtime.  Prints OK and exits 0.
"""

from __future__ import annotations

import dataclasses
import glob
import importlib
import os
import random
import shutil
import subprocess
import sys
import tempfile
import time

sys.path.insert(0, os.path.dirname(os.path.dirname(os.path.abspath(__file__))))

from vlib import sut_gotext as g  # noqa: E402

REPO = "/repo"
PYPATH = f"{REPO}/compiler:{REPO}/lib/py"
NCHECKS = 0


def check(cond, msg=""):
    global NCHECKS
    NCHECKS += 1
    if not cond:
        raise AssertionError(msg)


def expect_raises(exc, fn, *args, contains=None):
    global NCHECKS
    NCHECKS += 1
    try:
        fn(*args)
    except exc as e:
        if contains is not None and contains not in str(e):
            raise AssertionError(f"expected {contains!r} in error, got: {e}")
        return e
    raise AssertionError(f"{exc.__name__} not raised by {fn}{args}")


def bitproto_cli(lang, schema, outdir, opt=False):
    os.makedirs(outdir, exist_ok=True)
    cmd = [sys.executable, "-m", "bitproto._main", lang, schema, outdir]
    if opt:
        cmd.append("-O")
    env = dict(os.environ, PYTHONPATH=PYPATH)
    r = subprocess.run(cmd, env=env, cwd=os.path.dirname(schema), capture_output=True, text=True)
    return r.returncode, r.stdout + r.stderr


SHARED = '''proto shared

option go.package_path = "example.com/x/shared_bp"

enum Color : uint3 {
    COLOR_UNKNOWN = 0
    COLOR_RED = 1
    COLOR_BLUE = 2
}

type Stamp = int48
type Flag = bool
type Row = uint5[3]

message Pair {
    int3 a = 1
    Flag ok = 2
    Color color = 3
}
'''

BASE2 = '''proto base2

type Byt = byte

message Tiny {
    uint1 x = 1
}
'''

MAIN = '''proto main_pkg

import "shared.bitproto"
import bb "base2.bitproto"

const A_INT = 42
const NEG = 0 - 5
const HEXV = 0xff
const B_BOOL = yes
const C_STR = "hello world"
const D_STR = "tab\\there"

type Matrix = shared.Row[2]
type Grid = Matrix[2]
type OnOff = bool
type I24 = int24

enum Mode : uint9 {
    MODE_A = 0
    MODE_B = 300
}

message Empty {}

message Inner {
    int3 small = 1
    int24 mid = 2
    int63 big = 3
    bool b = 4
    OnOff oo = 5
    byte by = 6
    message Deep {
        uint7 d = 1
        enum Kind : uint2 {
            KIND_X = 0
            KIND_Y = 1
        }
        Kind k = 2
    }
    Deep deep = 7
    Deep[2] deeps = 8
}

message Outer {
    Inner inner = 1
    Inner[3] inners = 2
    Matrix mat = 3
    Grid grid = 4
    shared.Pair pair = 5
    shared.Pair[2] pairs = 6
    shared.Color color = 7
    shared.Stamp stamp = 8
    shared.Flag flag = 9
    bb.Tiny tiny = 10
    bb.Byt byt = 11
    Mode mode = 12
    I24 ia = 13
    I24[2] ias = 14
    OnOff[3] oos = 15
    bool[2] bs = 16
    Empty e = 17
    int64 ib = 19
    uint64 ub = 20
    int8 ic = 21
}
'''

BIG = '''proto big

message Big {
    uint3 head = 1
    uint64[130] body = 2
    int37[20] tail = 3
}
'''

COLLIDE = '''proto collide

message Msg {
    uint8 size = 1
    bool other = 2
}
'''


# ---------------------------------------------------------------------------
def test_string_literals():
    d = g.decode_go_string_literal
    check(d('"abc"') == "abc")
    check(d('""') == "")
    check(d(r'"a\tb\n\\\""') == 'a\tb\n\\"')
    check(d(r'"\a\b\f\r\v"') == "\a\b\f\r\v")
    check(d(r'"\101\x41A\U00000041"') == "AAAA")
    check(d(r'"é"') == "é")
    check(d(r'"\xc3\xa9"') == "é", "bytes escapes form UTF-8")
    check(d('"tab\there"') == "tab\there", "raw tab is legal")
    check(d('`raw \\n "x"`') == 'raw \\n "x"')
    check(d("`a\r\nb`") == "a\nb", "carriage returns are dropped from raw strings")
    bad = ['"a\nb"', '"abc', 'abc"', '"a"b"', r'"\q"', r'"\'"', r'"\x4"', r'"\u12"', r'"\400"',
           r'"\08"', '"\\', '"a\\"', r'"\ud800"', r'"\U00110000"', "`a`b`", "`abc", "'a'", "", '"']
    for b in bad:
        expect_raises(ValueError, d, b)
        check(not g.go_literal_ok(b), b)
    for ok in ['"x"', r'"\""', "`x`", r'"\\"']:
        check(g.go_literal_ok(ok), ok)


def test_tokenizer():
    toks = g.tokenize("package p\nvar x = 1 // c\nfunc f() {\n\treturn\n}\n")
    vals = [t[1] for t in toks if t[0] != "eof"]
    check(vals == ["package", "p", ";", "var", "x", "=", 1, ";", "func", "f", "(", ")", "{",
                   "return", ";", "}", ";"], vals)
    toks = g.tokenize("x := a +\n b\ny++\n")
    check([t[1] for t in toks][:9] == ["x", ":=", "a", "+", "b", ";", "y", "++", ";"])
    check(g.tokenize("0x1F 0b101 0o17 017 1_000")[0][1] == 31)
    check([t[1] for t in g.tokenize("0x1F 0b101 0o17 017 1_000") if t[0] == "int"]
          == [31, 5, 15, 15, 1000])
    check([t[1] for t in g.tokenize("a /* x\n y */ b")][:3] == ["a", ";", "b"],
          "general comment with newline acts like a newline")
    check([t[1] for t in g.tokenize("x <<= 3 &^ y >>= z")] [1] == "<<=")
    expect_raises(g.GoParseError, g.tokenize, 'x := "abc\n', contains="line 1")
    expect_raises(g.GoParseError, g.tokenize, "a\n/* never closed", contains="line 2")
    expect_raises(g.GoParseError, g.tokenize, "a\nb `raw", contains="line 2")
    expect_raises(g.GoParseError, g.tokenize, "x := 1.5")
    expect_raises(g.GoParseError, g.tokenize, "x := 'a'")
    expect_raises(g.GoParseError, g.tokenize, "x := a $ b")
    line_tok = [t for t in g.tokenize("a\n\n\nb")][-3]
    check(line_tok[1] == "b" and line_tok[2] == 4)


def test_parser_small():
    src = '''// header
package demo

import "strconv"
import j "encoding/json"
import (
	"a/b/c"
	bp "github.com/hit9/bitproto/lib/go"
)

const A int = 42
const S string = "x\\ty"
const N int = -5
const (
	E0 Enum = 0
	E1 = 1
	E2 = 0x10
)
const (
	I0 = iota
	I1
	I2
)
var formatInt = strconv.FormatInt
var _ = bp.Useless

type Enum uint8 // 3bit
type Row [3]int32
type Grid [2]Row
type Q shared.Color
type M struct {
	A uint8 `json:"a"` // 3bit
	B [4]Row `json:"b_b"`
	C shared.Pair `json:"c"`
	D, E bool
}

func (m *M) Size() uint32 { return 67 }
func (m M) Get(i, j int, _ bool) (int, error) { return i, nil }
func plain(b bool) byte {
	if b {
		return 1
	} else if !b && true || false {
		return 2
	} else {
		return 3
	}
	return 0
}
func prec() int {
	x := 1 + 2*3<<1&7 | 8 ^ 1
	y := -x + ^x
	x |= 1
	x <<= 2
	x >>= 1
	x &^= 1
	x++
	for i := 0; i < 3; i++ {
		continue
	}
	for x < 3 {
		break
	}
	for _, v := range []int{1, 2, 3} {
		y += v
	}
	for j := 0; j < 3; {
		j += 1
	}
	z := &M{A: 1}
	w := []*M{
		&M{},
		z,
	}
	switch y := x; y {
	case 1, 2:
		return 1
	default:
	}
	switch {
	case x > 1:
	}
	var q int = len(w)
	defer plain(true)
	_ = w[0:1]
	return x + y + q
}
'''
    f = g.parse_file(src)
    check(f.package == "demo")
    check(f.imports == [(None, "strconv"), ("j", "encoding/json"), (None, "a/b/c"),
                        ("bp", "github.com/hit9/bitproto/lib/go")], f.imports)
    cs = {c.name: c for c in f.consts}
    check([c.name for c in f.consts] == ["A", "S", "N", "E0", "E1", "E2", "I0", "I1", "I2"])
    check(cs["A"].type == "int" and cs["A"].value == 42 and cs["A"].value_text == "42")
    check(cs["S"].type == "string" and cs["S"].value == "x\ty" and cs["S"].value_text == '"x\\ty"')
    check(cs["N"].value == -5 and cs["N"].value_text == "-5")
    check(cs["E0"].type == "Enum" and cs["E0"].value == 0 and cs["E0"].in_block)
    check(cs["E1"].type is None and cs["E1"].value == 1, "explicit `= 1` makes an untyped constant")
    check(cs["E2"].value == 16 and cs["E2"].value_text == "0x10")
    check((cs["I0"].value, cs["I1"].value, cs["I2"].value) == (0, 1, 2), "iota repetition")
    t = f.types
    check(t["Enum"].kind == "named" and t["Enum"].underlying == "uint8")
    check(t["Row"].kind == "array" and t["Row"].length == 3 and t["Row"].elem == "int32")
    check(t["Grid"].kind == "array" and t["Grid"].elem == "Row")
    check(t["Q"].kind == "named" and t["Q"].underlying == "shared.Color")
    m = t["M"]
    check(m.kind == "struct")
    check([(x.name, g.type_str(x.type), x.tag) for x in m.fields] ==
          [("A", "uint8", "a"), ("B", "[4]Row", "b_b"), ("C", "shared.Pair", "c"),
           ("D", "bool", None), ("E", "bool", None)])
    check(m.fields[1].type[0] == "array" and m.fields[0].type[0] == "name",
          "arrays are distinguishable from names")
    check(m.fields[1].type_str == "[4]Row")
    fn = f.func("Size", "M")
    check(fn.recv_ptr and fn.recv_name == "m" and fn.result == "uint32" and fn.params == [])
    check(g.stmt_str(fn.body[0]) == "return 67")
    fn = f.func("Get", "M")
    check(not fn.recv_ptr and fn.params == [("i", "int"), ("j", "int"), ("_", "bool")])
    check(fn.result == "(int, error)")
    fn = f.func("plain")
    check(fn.recv_type is None and fn.params == [("b", "bool")] and fn.result == "byte")
    check(fn.body[0][0] == "if" and fn.body[0][4][0] == "if" and fn.body[0][4][4][0] == "block")
    cond = fn.body[0][4][2]
    check(g.expr_str(cond) == "!b && true || false" and cond[1] == "||" and cond[2][1] == "&&")
    pr = f.func("prec")
    x = pr.body[0][3][0]
    # 1 + 2*3<<1&7 | 8 ^ 1  ==  (((1 + (((2*3)<<1)&7)) | 8) ^ 1)
    check(x[1] == "^" and x[2][1] == "|" and x[2][2][1] == "+" and x[2][2][3][1] == "&"
          and x[2][2][3][2][1] == "<<" and x[2][2][3][2][2][1] == "*", g.expr_str(x))
    kinds = [s[0] for s in pr.body]
    check(kinds.count("for") == 3 and kinds.count("range") == 1 and kinds.count("switch") == 2)
    check("defer" in kinds and "incdec" in kinds and "var" in kinds)
    check(f.top_level_names == ["A", "S", "N", "E0", "E1", "E2", "I0", "I1", "I2", "formatInt",
                                "_", "Enum", "Row", "Grid", "Q", "M", "plain", "prec"],
          f.top_level_names)
    check(f.methods == ["M.Size", "M.Get"])
    # duplicates are preserved
    f2 = g.parse_file("package p\ntype A int\ntype A bool\nfunc (a A) F() {}\nfunc (a A) F() {}\n")
    check(f2.top_level_names == ["A", "A"] and f2.methods == ["A.F", "A.F"])
    # unsupported constructs raise with a line number
    for bad, line in [
        ("package p\nfunc f() {\n\tgoto L\n}\n", 3),
        ("package p\nfunc f() {\n\tselect {}\n}\n", 3),
        ("package p\n\nvar c chan int\n", 3),
        ("package p\nfunc f(a ...int) {}\n", 2),
        ("package p\nfunc f() { x := func() {} }\n", 2),
        ("package p\nfunc f() {\n x := 1 +\n}\n", 4),
        ("package p\ntype T struct {\n A int B int\n}\n", 3),
        ("package p\nfunc f() {\n if x := T{}; x {\n }\n}\n", 3),
        ("package p\nwhatever\n", 2),
        ("func f() {}\n", 1),
    ]:
        e = expect_raises(g.GoParseError, g.parse_file, bad)
        check(e.line == line, f"{bad!r}: line {e.line} != {line}")
    # semicolon insertion matters: `return` NEWLINE `x` is two statements
    f3 = g.parse_file("package p\nfunc f() int {\n\treturn\n\tf()\n}\n")
    check([s[0] for s in f3.funcs[0].body] == ["return", "expr"])


def test_generated_parse(work):
    std = g.parse_file(open(f"{work}/go_std/example_bp.go").read())
    opt = g.parse_file(open(f"{work}/go_opt/example_bp.go").read())
    check(std.package == "drone" and opt.package == "drone")
    check(std.imports == [(None, "strconv"), (None, "encoding/json"),
                          ("bp", "github.com/hit9/bitproto/lib/go")])
    check(opt.imports == [(None, "strconv"), (None, "encoding/json")])
    for f in (std, opt):
        check(len(set(f.top_level_names)) == len(f.top_level_names))
        check(f.types["Timestamp"].underlying == "int32")
        check(f.types["TernaryInt32"].kind == "array" and f.types["TernaryInt32"].length == 3)
        check(f.types["DroneStatus"].underlying == "uint8")
        d = f.types["Drone"]
        check([x.name for x in d.fields] == ["Status", "Position", "Flight", "Propellers", "Power",
                                              "Network", "LandingGear", "PressureSensor"])
        check(d.fields[3].type_str == "[4]Propeller" and d.fields[6].tag == "landing_gear")
        c = {c.name: c for c in f.consts}
        check(c["DRONE_STATUS_UNKNOWN"].type == "DroneStatus")
        check(c["DRONE_STATUS_FLYING"].type is None and c["DRONE_STATUS_FLYING"].value == 4)
        check(c["BYTES_LENGTH_DRONE"].type == "uint32" and c["BYTES_LENGTH_DRONE"].value == 67)
        check(g.size_constants(f)["BYTES_LENGTH_DRONE"] == 67)
        check(g.size_methods(f)["Drone"] == 67 and g.size_methods(f)["PressureSensor"] == 6)
        check(len(g.size_methods(f)) == 9 == len(g.size_constants(f)))
    check("Drone.BpSetByte" in std.methods and "Drone.BpSetByte" not in opt.methods)
    check(opt.func("bool2byte") is not None and opt.func("byte2bool").result == "bool")
    dec = opt.func("Decode", "Drone")
    check(dec.params == [("s", "[]byte")] and dec.result is None and dec.recv_ptr)
    check(g.stmt_str(dec.body[0]) == "m.Status |= DroneStatus(byte(s[0]) & 7)")
    rt = g.parse_file(open(f"{REPO}/lib/go/bitproto.go").read())
    check(rt.package == "bitproto")
    for n in ("getNbitsToCopy", "getMask", "min", "smartShift", "Bool2byte", "Byte2bool",
              "processBaseType"):
        check(rt.func(n) is not None and rt.func(n).body, n)
    check(rt.func("getNbitsToCopy").params == [("i", "int"), ("j", "int"), ("n", "int")])
    check(rt.types["Accessor"].kind == "interface" and rt.types["Flag"].is_alias)


def test_structure(work):
    std = g.parse_file(open(f"{work}/go_std/example_bp.go").read())
    t = g.processor_tree(std, "Drone")
    check(t["kind"] == "message" and t["extensible"] is False and t["nbits"] == 532)
    check([f["number"] for f in t["fields"]] == [1, 2, 3, 4, 5, 6, 7, 8])
    check(t["fields"][0]["processor"] == {"kind": "ref", "name": "DroneStatus", "form": "(0)"})
    check(t["fields"][1]["processor"] == {"kind": "ref", "name": "Position", "form": "&{}"})
    check(t["fields"][3]["processor"] == {"kind": "array", "extensible": False, "cap": 4,
                                          "elem": {"kind": "ref", "name": "Propeller", "form": "&{}"}})
    check(g.processor_tree(std, "Timestamp") == {"kind": "alias", "to": {"kind": "int", "nbits": 32}})
    check(g.processor_tree(std, "TernaryInt32") ==
          {"kind": "alias", "to": {"kind": "array", "extensible": False, "cap": 3,
                                   "elem": {"kind": "int", "nbits": 32}}})
    check(g.processor_tree(std, "DroneStatus") == {"kind": "enum", "nbits": 3})
    check(g.processor_tree(std, "Flight")["fields"][1]["processor"] ==
          {"kind": "ref", "name": "TernaryInt32", "form": "{}"})
    check(g.processor_tree(std, "Power")["fields"][2]["processor"] == {"kind": "bool"})
    expect_raises(KeyError, g.processor_tree, std, "Nope")

    at = g.accessor_tables(std, "Power")
    check(at["default"] == {"BpSetByte": True, "BpGetByte": True, "BpProcessInt": True,
                            "BpGetAccessor": True} and at["problems"] == [])
    sb = {c["number"]: c for c in at["BpSetByte"]}
    check(sb[1]["field"] == "Battery" and sb[1]["assign"] == "|=" and sb[1]["conv"] == "uint8"
          and sb[1]["shifted"] and not sb[1]["byte2bool"] and sb[1]["depth"] == 0)
    check(sb[2]["conv"] == "PowerStatus")
    check(sb[3]["assign"] == "=" and sb[3]["byte2bool"] and sb[3]["conv"] is None
          and not sb[3]["shifted"])
    gb = {c["number"]: c for c in at["BpGetByte"]}
    check(gb[1]["conv"] == "byte" and gb[1]["shifted"] and not gb[1]["bool2byte"])
    check(gb[3]["bool2byte"] and gb[3]["inner_conv"] is None and gb[3]["conv"] is None)
    ps = g.accessor_tables(std, "PressureSensor")
    check(ps["BpProcessInt"] == [{"number": 1, "line": ps["BpProcessInt"][0]["line"],
                                  "field": "Pressures", "indices": [0], "depth": 1, "shl": 8,
                                  "shr": 8, "same_target": True}])
    dr = g.accessor_tables(std, "Drone")
    check([c["number"] for c in dr["BpGetAccessor"]] == [2, 3, 4, 5, 6, 7, 8])
    check(dr["BpGetAccessor"][2] == {"number": 4, "line": dr["BpGetAccessor"][2]["line"],
                                     "field": "Propellers", "indices": [0], "depth": 1,
                                     "addr_of": True})

    m = g.parse_file(open(f"{work}/go_std/main_bp.go").read())
    t = g.processor_tree(m, "Outer")
    procs = {f["number"]: f["processor"] for f in t["fields"]}
    check(procs[5] == {"kind": "ref", "name": "shared.Pair", "form": "&{}"})
    check(procs[7] == {"kind": "ref", "name": "shared.Color", "form": "(0)"})
    check(procs[9] == {"kind": "ref", "name": "shared.Flag", "form": "(false)"})
    check(procs[4] == {"kind": "ref", "name": "Grid", "form": "{}"})
    check(procs[16] == {"kind": "array", "extensible": False, "cap": 2, "elem": {"kind": "bool"}})
    check(g.processor_tree(m, "Empty") == {"kind": "message", "extensible": False, "nbits": 0,
                                           "fields": []})
    check(g.processor_tree(m, "OnOff") == {"kind": "alias", "to": {"kind": "bool"}})
    at = g.accessor_tables(m, "Outer")
    sb = {c["number"]: c for c in at["BpSetByte"]}
    check(sb[4]["depth"] == 3 and sb[4]["indices"] == [0, 1, 2] and sb[4]["conv"] == "uint8")
    check(sb[9]["conv"] == "shared.Flag" and sb[9]["byte2bool"] and sb[9]["assign"] == "=")
    check(sb[15]["conv"] == "OnOff" and sb[15]["byte2bool"] and sb[15]["indices"] == [0])
    gb = {c["number"]: c for c in at["BpGetByte"]}
    check(gb[9]["bool2byte"] and gb[9]["inner_conv"] == "bool")
    check(gb[16]["bool2byte"] and gb[16]["inner_conv"] is None and gb[16]["depth"] == 1)
    pi = {c["number"]: c for c in at["BpProcessInt"]}
    check(sorted(pi) == [8, 13, 14] and pi[8]["shl"] == 16 == pi[8]["shr"])
    check(g.accessor_tables(m, "Empty")["BpSetByte"] == [])
    ext = g.parse_file(open(f"{work}/go_std/drone_extended_bp.go").read())
    trees = [g.processor_tree(ext, n) for n in ext.types if ext.func("BpProcessor", n)]
    check(any(t.get("extensible") for t in trees), "extensible message/array seen")

    # unexpected shapes are reported, never dropped
    odd = g.parse_file('''package p
import bp "github.com/hit9/bitproto/lib/go"
var _ = bp.Useless
type T struct {
	A uint8 `json:"a"`
}
func (m *T) BpSetByte(di *bp.DataIndexer, lshift int, b byte) {
	switch di.F() {
	case 1:
		m.A = uint8(b) + 1
	case 2:
		m.A |= (uint8(b) << lshift)
	}
}
func (m *T) BpGetByte(di *bp.DataIndexer, rshift int) byte {
	return 0
}
func (m *T) BpProcessInt(di *bp.DataIndexer) {
	switch di.F() {
	case 1:
		m.A <<= 3
		m.B >>= 3
	default:
		panic("x")
	}
}
''')
    at = g.accessor_tables(odd, "T")
    check("unparsed" in at["BpSetByte"][0] and "uint8(b) + 1" in at["BpSetByte"][0]["unparsed"])
    check(at["BpSetByte"][1]["field"] == "A" and at["default"]["BpSetByte"] is False)
    check(at["default"]["BpGetByte"] is None and "unparsed" in at["BpGetByte"][0])
    check(at["BpProcessInt"][0]["same_target"] is False)
    check(at["default"]["BpGetAccessor"] is None)
    check(len(at["problems"]) == 3, at["problems"])


GO_SEMANTICS = '''package sem

type Color uint16
type Flag bool
type I24 int32
type Arr [3]int8

type S struct {
	C Color
	F Flag
	A Arr
	X int32
	U uint8
}

const K int = 7
const U = 300

func wrap8(x int) uint8 { return uint8(x) }
func sign8(x int) int8 { return int8(x) }
func shl8(x uint8, n int) uint8 { return x << n }
func shlu(x uint8, n uint8) uint8 { return x << n }
func shl_i8(x int8) int8 { return x << 7 }
func sar(x int32, n int) int32 { return x >> n }
func shr(x uint32, n int) uint32 { return x >> n }
func add8(a, b int8) int8 { return a + b }
func sub8u(a, b uint8) uint8 { return a - b }
func mul16(a, b int16) int16 { return a * b }
func div(a, b int) int { return a / b }
func rem(a, b int) int { return a % b }
func neg8(a int8) int8 { return -a }
func not8(a uint8) uint8 { return ^a }
func noti8(a int8) int8 { return ^a }
func andnot(a, b uint8) uint8 { return a &^ b }
func maskc(a uint8) uint8 { return a & 0xF0 | 1 }
func cmp(a, b int8) bool { return a < b && a != 0 || b == 5 }
func konst() int { return K + U*2 }
func bigconst() uint8 { return (1 << 70 >> 68) + 1 }
func extend(x I24) I24 {
	x <<= 8
	x >>= 8
	return x
}
func usefield(m *S) uint16 {
	m.C |= Color(5) << 8
	m.A[1] = -3
	m.F = Flag(true)
	return uint16(m.C)
}
func idx(m *S, i int) int8 { return m.A[i] }
func loop(n int) int {
	t := 0
	for i := 0; i < n; i++ {
		if i%2 == 0 {
			continue
		}
		if i > 7 {
			break
		}
		t += i
	}
	return t
}
func sw(x int) int {
	switch x {
	case 1, 2:
		return 10
	case 3:
		x += 1
	default:
		return -1
	}
	return x
}
func mk(n int) []byte {
	s := make([]byte, n)
	s[0] |= 255
	s[1] = 7
	return s
}
func callchain(a int) int { return loop(sw(a)) + len(mk(3)) }

func (m *S) Bump(n uint8) uint8 {
	m.U += n
	return m.U
}
func (a Arr) First() int8 {
	a[1] = 0
	return a[0]
}

func bad_mixed(a uint8, b uint16) uint16 { return a | b }
func bad_named(c Color, u uint16) uint16 { return c | u }
func bad_assign(m *S) { m.F = true == true; m.F = bool(m.F) }
func bad_const(a uint8) uint8 { return a & 256 }
func bad_conv() uint8 { return uint8(300) }
func bad_negshift(a uint8) uint8 { return a << -1 }
func bad_boolint(a bool) int { return int(a) }
func bad_index(m *S) int8 { return m.A[3] }
func bad_undefined() int { return nope }
func bad_field(m *S) int { return m.Nope }
func bad_ret() uint8 { return 256 }
func bad_cond(a int) int {
	if a {
		return 1
	}
	return 0
}
func bad_arg() uint8 { return wrap8(true) }
func bad_shiftcount(a uint8, f bool) uint8 { return a << f }
'''


def test_eval_semantics():
    ev = g.GoEval(g.parse_file(GO_SEMANTICS))
    c = ev.call
    check(c("wrap8", 300) == 44 and c("wrap8", -1) == 255)
    check(c("sign8", 200) == -56 and c("sign8", 127) == 127 and c("sign8", -129) == 127)
    check(c("shl8", 0x81, 1) == 2 and c("shl8", 1, 8) == 0 and c("shl8", 1, 1000) == 0)
    check(c("shlu", 3, 7) == 128, "shift count may have any integer type")
    check(c("shl_i8", 1) == -128 and c("shl_i8", 3) == -128 and c("shl_i8", 2) == 0)
    check(c("sar", -256, 4) == -16 and c("sar", -1, 40) == -1 and c("sar", 5, 40) == 0)
    check(c("shr", 0xFFFFFF00, 4) == 0x0FFFFFF0 and c("shr", 1, 64) == 0)
    check(c("add8", 127, 1) == -128 and c("sub8u", 0, 1) == 255 and c("mul16", 300, 300) == 24464)
    check(c("div", -7, 2) == -3 and c("div", 7, -2) == -3 and c("rem", -7, 2) == -1
          and c("rem", 7, -2) == 1)
    check(c("div", -(1 << 63), -1) == -(1 << 63), "int64 overflow of division wraps")
    expect_raises(g.EvalError, c, "div", 1, 0, contains="divide by zero")
    check(c("neg8", -128) == -128 and c("not8", 0x0F) == 0xF0 and c("noti8", 0) == -1)
    check(c("andnot", 0xFF, 0x0F) == 0xF0 and c("maskc", 0xAB) == 0xA1)
    check(c("cmp", -1, 0) is True and c("cmp", 0, 5) is True and c("cmp", 0, 1) is False)
    check(c("konst") == 607 and c("bigconst") == 5, "untyped constants have arbitrary precision")
    check(c("extend", 0x800000) == -8388608 and c("extend", 0x7FFFFF) == 0x7FFFFF
          and c("extend", 0xFFFFFB) == -5)
    s = ev.zero_value("S")
    check(s == {"C": 0, "F": False, "A": [0, 0, 0], "X": 0, "U": 0})
    check(ev.call_method("S", "Bump", s, 250) == 250 and ev.call_method("S", "Bump", s, 10) == 4
          and s["U"] == 4, "pointer receiver mutates, uint8 += wraps")
    check(ev.call_method("Arr", "First", [9, 8, 7]) == 9)
    s["U"] = 0
    check(c("usefield", s) == 0x500 and s["A"] == [0, -3, 0] and s["F"] is True,
          "pointer parameters alias the caller's dict")
    check(c("idx", s, 1) == -3)
    expect_raises(g.EvalError, c, "idx", s, 3, contains="out of range")
    expect_raises(g.EvalError, c, "idx", s, -1, contains="out of range")
    check(c("loop", 100) == 1 + 3 + 5 + 7 and c("sw", 1) == 10 and c("sw", 3) == 4
          and c("sw", 9) == -1)
    check(c("mk", 2) == [255, 7])
    expect_raises(g.EvalError, c, "mk", 1, contains="out of range")
    expect_raises(g.EvalError, c, "mk", -1)
    check(c("callchain", 3) == 1 + 3 + 3)
    expect_raises(g.EvalError, c, "shl8", 1, -1, contains="negative shift")
    for name, needle in [
        ("bad_mixed", "mismatched types uint8 and uint16"),
        ("bad_named", "mismatched types Color and uint16"),
        ("bad_assign", "bool as Flag"),
        ("bad_const", "256 overflows uint8"),
        ("bad_conv", "300 overflows uint8"),
        ("bad_negshift", "negative"),
        ("bad_boolint", "cannot convert"),
        ("bad_index", "out of bounds"),
        ("bad_undefined", "undefined: nope"),
        ("bad_field", "no field or method Nope"),
        ("bad_ret", "256 overflows uint8"),
        ("bad_cond", "non-boolean condition"),
        ("bad_arg", "argument to wrap8"),
        ("bad_shiftcount", "must be an integer"),
    ]:
        args = {"bad_mixed": (1, 2), "bad_named": (1, 2), "bad_assign": (s,), "bad_const": (1,),
                "bad_negshift": (1,), "bad_boolint": (True,), "bad_index": (s,),
                "bad_field": (s,), "bad_cond": (1,), "bad_shiftcount": (1, True)}.get(name, ())
        e = expect_raises(g.EvalError, c, name, *args)
        check(needle in str(e), f"{name}: {needle!r} not in {e}")
    # value validation
    expect_raises(g.EvalError, ev.check_value, "S", {"C": 70000, "F": False, "A": [0, 0, 0],
                                                      "X": 0, "U": 0}, contains="out of range")
    expect_raises(g.EvalError, ev.check_value, "S", {"C": 0}, contains="keys")
    expect_raises(g.EvalError, ev.check_value, "Arr", [0, 0], contains="length 3")
    expect_raises(g.EvalError, ev.zero_value, "Missing")
    check(ev.zero_value("Arr") == [0, 0, 0] and ev.zero_value("Flag") is False
          and ev.zero_value("[2]Color") == [0, 0])


def test_runtime_helpers():
    h = g.load_runtime_helpers()
    check(set(h.names()) == {"getNbitsToCopy", "getMask", "min", "smartShift", "Bool2byte",
                             "Byte2bool"})
    check(h.signature("smartShift") == ([("n", "byte"), ("k", "int")], "byte"))
    check(h.call("getMask", 0, 4) == 0b1111 and h.call("getMask", 2, 5) == 0b1111100
          and h.call("getMask", 2, 4) == 0b111100)
    for k in range(8):
        for c in range(0, 9 - k):
            check(h.call("getMask", k, c) == (1 << (k + c)) - (1 << k))
    for i in range(0, 40, 3):
        for n in (1, 3, 8, 13, 24, 64):
            for j in range(n):
                check(h.call("getNbitsToCopy", i, j, n) == min(n - j, 8 - j % 8, 8 - i % 8))
    check(h.call("getNbitsToCopy", -3, 0, 24) == 8, "Go % truncates toward zero: 8-(-3) = 11")
    check(h.call("min", 3, -2) == -2 and h.call("min", -(1 << 63), 0) == -(1 << 63))
    for n in (0, 1, 0x81, 0xFF, 0x1FF):
        for k in range(-9, 10):
            nn = n & 0xFF
            want = (nn >> k) if k > 0 else ((nn << -k) & 0xFF if k < 0 else nn)
            check(h.call("smartShift", n, k) == want, (n, k))
    check(h.call("Bool2byte", True) == 1 and h.call("Bool2byte", False) == 0)
    check(h.call("Byte2bool", 0) is False and h.call("Byte2bool", 2) is True
          and h.call("Byte2bool", 256) is False)
    check(h.call("getMask", 0, 64) == -1 and h.call("getMask", 0, 63) == (1 << 63) - 1,
          "int is 64 bit and wraps")
    expect_raises(g.EvalError, h.call, "getMask", 0, -1, contains="negative shift")
    expect_raises(g.EvalError, h.call, "min", 1)
    expect_raises(g.EvalError, h.call, "Bool2byte", 1)
    expect_raises(g.EvalError, h.call, "nope")


# -- cross-check against the Python runtime -----------------------------------
def rand_int(rng, lo, hi):
    r = rng.random()
    if r < 0.15:
        return lo
    if r < 0.30:
        return hi
    if r < 0.40:
        return max(lo, min(hi, rng.choice([-1, 0, 1])))
    return rng.randint(lo, hi)


class Gen:
    """Random in-range Go values driven by the standard-mode processor trees."""

    def __init__(self, main, imports, enum_values):
        self.files = {"": main, **imports}
        self.enum_values = enum_values

    def value_of_type(self, pkg, name, rng):
        return self.value(pkg, g.processor_tree(self.files[pkg], name), rng, (pkg, name))

    def value(self, pkg, tree, rng, struct=None):
        k = tree["kind"]
        if k == "message":
            gf = self.files[struct[0]]
            fields = gf.types[struct[1]].fields
            check(len(fields) == len(tree["fields"]))
            return {f.name: self.value(struct[0], t["processor"], rng)
                    for f, t in zip(fields, tree["fields"])}
        if k == "bool":
            return rng.random() < 0.5
        if k == "byte":
            return rand_int(rng, 0, 255)
        if k == "uint":
            return rand_int(rng, 0, (1 << tree["nbits"]) - 1)
        if k == "int":
            return rand_int(rng, -(1 << (tree["nbits"] - 1)), (1 << (tree["nbits"] - 1)) - 1)
        if k == "enum":
            return rng.choice(self.enum_values[struct])
        if k == "array":
            return [self.value(pkg, tree["elem"], rng) for _ in range(tree["cap"])]
        if k == "alias":
            return self.value(pkg, tree["to"], rng)
        if k == "ref":
            name = tree["name"]
            p = pkg
            if "." in name:
                p, name = name.split(".")
            return self.value(p, g.processor_tree(self.files[p], name), rng, (p, name))
        raise AssertionError(k)


def py_fields(obj):
    return [f.name for f in dataclasses.fields(obj) if not f.name.startswith("_enum_field_proxy__")]


def py_set(obj, gv):
    """Copy Go-shaped value gv (dict) into generated Python message object obj."""
    names = py_fields(obj)
    check(len(names) == len(gv))
    for name, v in zip(names, gv.values()):
        cur = getattr(obj, name)
        setattr(obj, name, py_conv(cur, v))


def py_conv(cur, v):
    if isinstance(v, dict):
        py_set(cur, v)
        return cur
    if isinstance(v, list):
        return [py_conv(c, x) for c, x in zip(cur, v)]
    return v


def py_get(obj, template):
    if isinstance(template, dict):
        return {k: py_get(getattr(obj, n), t)
                for (k, t), n in zip(template.items(), py_fields(obj))}
    if isinstance(template, list):
        return [py_get(o, t) for o, t in zip(obj, template)]
    if isinstance(template, bool):
        return bool(obj)
    return int(obj)


def enum_values_of(files):
    out = {}
    for pkg, gf in files.items():
        cur = None
        for c in gf.consts:
            if not c.in_block:
                cur = None
                continue
            if c.type is not None:
                cur = (pkg, c.type)
                out[cur] = []
            if cur is not None:
                out[cur].append(c.value)
    return out


def test_crosscheck(work):
    sys.path.insert(0, f"{work}/py")
    rng = random.Random(20260925)
    # ---- example schema (drone)
    std = g.parse_file(open(f"{work}/go_std/example_bp.go").read())
    opt = g.parse_file(open(f"{work}/go_opt/example_bp.go").read())
    ev = g.GoEval(opt)
    mod = importlib.import_module("example_bp")
    z = ev.zero_value("Drone")
    check(z["Flight"]["Velocity"] == [0, 0, 0] and len(z["Propellers"]) == 4
          and z["Power"]["IsCharging"] is False)
    check(ev.run_encode("Drone", z) == bytes(67) == bytes(mod.Drone().encode()))
    # hand-built value with negative int24 / int32 fields
    v = ev.zero_value("Drone")
    v["Status"] = 4
    v["Position"] = {"Latitude": 0xDEADBEEF, "Longitude": 1, "Altitude": 0xFFFFFFFF}
    v["Flight"]["Pose"] = {"Yaw": -2, "Pitch": -(1 << 31), "Roll": (1 << 31) - 1}
    v["Flight"]["Velocity"] = [-1, 0, 123456]
    v["Propellers"][2] = {"Id": 200, "Status": 2, "Direction": 1}
    v["Power"] = {"Battery": 99, "Status": 2, "IsCharging": True}
    v["Network"] = {"Signal": 15, "HeartbeatAt": -1600000000}
    v["LandingGear"]["Status"] = 1
    v["PressureSensor"]["Pressures"] = [-5, -(1 << 23)]
    keep = g._clone(v)
    d = mod.Drone()
    py_set(d, v)
    want = bytes(d.encode())
    got = ev.run_encode("Drone", v)
    check(got == want, f"\n go: {got.hex()}\n py: {want.hex()}")
    check(v == keep, "run_encode must not modify its argument")
    back = ev.run_decode("Drone", got)
    check(back == v, "decode inverts encode (sign extension of int24 via <<= 8; >>= 8)")
    check(back["PressureSensor"]["Pressures"] == [-5, -(1 << 23)])
    d2 = mod.Drone()
    d2.decode(bytearray(got))
    check(py_get(d2, z) == back)
    # decode ORs into an existing value (Go semantics of `|=`), bools are assigned
    pre = ev.zero_value("Power")
    pre["Battery"] = 0x80
    pre["IsCharging"] = True
    enc = ev.run_encode("Power", {"Battery": 1, "Status": 0, "IsCharging": False})
    check(ev.run_decode("Power", enc, pre) == {"Battery": 0x81, "Status": 0, "IsCharging": False})
    expect_raises(g.EvalError, ev.run_decode, "Drone", got[:-1], contains="out of range")
    expect_raises(g.EvalError, ev.run_encode, "Drone", {"Status": 0})
    bad = g._clone(v)
    bad["Status"] = 256
    expect_raises(g.EvalError, ev.run_encode, "Drone", bad, contains="out of range")
    expect_raises(g.EvalError, ev.run_encode, "Nope", {})
    # the standard-mode file has Encode/Decode that need the runtime: clear error
    expect_raises(g.EvalError, g.GoEval(std).run_encode, "Drone", v)
    gen = Gen(std, {}, enum_values_of({"": std}))
    for tn in ("Drone", "Flight", "Network", "PressureSensor", "Propeller", "Power"):
        for _ in range(25):
            val = gen.value_of_type("", tn, rng)
            o = getattr(mod, tn)()
            py_set(o, val)
            b = ev.run_encode(tn, val)
            check(b == bytes(o.encode()), f"{tn} {val}")
            check(ev.run_decode(tn, b) == val, f"{tn} roundtrip {val}")

    # ---- custom schema with imports, 2-D arrays, bool aliases, odd signed widths
    files_std = {n: g.parse_file(open(f"{work}/go_std/{n}_bp.go").read())
                 for n in ("main", "shared", "base2")}
    files_opt = {n: g.parse_file(open(f"{work}/go_opt/{n}_bp.go").read())
                 for n in ("main", "shared", "base2")}
    imports_std = {"shared": files_std["shared"], "bb": files_std["base2"]}
    imports_opt = {"shared": files_opt["shared"], "bb": files_opt["base2"]}
    ev = g.GoEval(files_opt["main"], imports=imports_opt)
    expect_raises(g.EvalError, g.GoEval(files_opt["main"]).zero_value, "Outer",
                  contains="not given in imports")
    mod = importlib.import_module("main_bp")
    z = ev.zero_value("Outer")
    check(z["Grid"] == [[[0, 0, 0], [0, 0, 0]], [[0, 0, 0], [0, 0, 0]]])
    check(z["Pair"] == {"A": 0, "Ok": False, "Color": 0} and z["E"] == {} and z["Oos"] == [False] * 3)
    check(ev.run_encode("Empty", {}) == b"" and ev.run_decode("Empty", b"") == {})
    gen = Gen(files_std["main"], imports_std,
              enum_values_of({"": files_std["main"], **imports_std}))
    seen_neg = False
    for tn in ("Outer", "Inner", "InnerDeep"):
        for _ in range(30):
            val = gen.value_of_type("", tn, rng)
            if tn == "Inner":
                seen_neg = seen_neg or (val["Small"] < 0 and val["Mid"] < 0 and val["Big"] < 0)
            pyname = {"InnerDeep": "Inner_Deep"}.get(tn, tn)  # Python keeps nested scope names
            o = getattr(mod, pyname)()
            py_set(o, val)
            b = ev.run_encode(tn, val)
            check(b == bytes(o.encode()), f"{tn} {val}\n go {b.hex()}\n py {bytes(o.encode()).hex()}")
            check(ev.run_decode(tn, b) == val, f"{tn} roundtrip")
            o2 = getattr(mod, pyname)()
            o2.decode(bytearray(b))
            check(py_get(o2, ev.zero_value(tn)) == val)
    check(seen_neg, "negative int3/int24/int63 values were exercised")
    v = ev.zero_value("Inner")
    v.update(Small=-4, Mid=-1, Big=-(1 << 62))
    check(ev.run_decode("Inner", ev.run_encode("Inner", v)) == v)
    # bool2byte / byte2bool come from the parsed -O file
    check(ev.call("bool2byte", True) == 1 and ev.call("byte2bool", 0) is False)
    check(ev.has_func("Encode", "Outer") and not ev.has_func("BpSetByte", "Outer"))

    # a corrupted generator output is detected: wrong conversion type in a decoder line
    text = open(f"{work}/go_opt/example_bp.go").read()
    needle = "m.Status |= DroneStatus(byte(s[0] ) & 7)"
    check(needle in text)
    mut = g.GoEval(g.parse_file(text.replace(needle, "m.Status |= uint8(byte(s[0] ) & 7)")))
    expect_raises(g.EvalError, mut.run_decode, "Drone", bytes(67), contains="mismatched types")
    mut = g.GoEval(g.parse_file(text.replace(needle, "m.Status |= DroneStatus(byte(s[67] ) & 7)")))
    expect_raises(g.EvalError, mut.run_decode, "Drone", bytes(67), contains="out of range")
    mut = g.GoEval(g.parse_file(text.replace(needle, "m.Status |= DroneStatus(byte(s[0] ) & 256)")))
    expect_raises(g.EvalError, mut.run_decode, "Drone", bytes(67), contains="overflows")


# -- static checks --------------------------------------------------------------
def test_static_negative():
    sc = g.static_check_text
    base = '''package p

import (
	"strconv"
	bp "github.com/hit9/bitproto/lib/go"
)

var formatInt = strconv.FormatInt
var _ = bp.Useless

type T struct {
	A uint8 `json:"a"`
	B [2]U `json:"b"`
}
type U struct {
	X int8
}

func (m *T) Get(di *bp.DataIndexer) byte {
	switch di.F() {
	case 1:
		return byte(m.A)
	case 2:
		return byte(m.B[di.I(0)].X)
	default:
		return 0
	}
}
'''
    check(sc(base) == [], sc(base))

    def has(text, needle):
        probs = sc(text)
        check(any(needle in p for p in probs), f"{needle!r} not in {probs}")

    has(base.replace("return 0\n\t}", "return 0\n\t}}"), "unbalanced")
    has(base.replace("byte(m.A)", "byte(m.A"), "closes")
    has(base.replace("switch di.F() {", "switch di.F() {{"), "never closed")
    has(base + '\nvar s = "abc\n', "lexical error")
    has(base + "\n/* open", "lexical error")
    has(base + "\nfunc f() { goto x }\n", "syntax error")
    has(base + "\ntype T int\n", "T redeclared")
    has(base + "\nconst formatInt = 1\n", "formatInt redeclared")
    has(base + "\nfunc (m *T) Get() {}\n", "method T.Get already declared")
    has(base.replace("B [2]U", "A [2]U"), "duplicate field A")
    has(base.replace("case 2:", "case 1:"), "duplicate case 1")
    check(sc(base.replace("var _ = bp.Useless\n", "")) == [], "bp still used via bp.DataIndexer")
    has(base.replace("var formatInt = strconv.FormatInt\n", ""), '"strconv" imported and not used')
    has(base.replace("byte(m.A)", "byte(m.C)"), "no field or method C")
    has(base.replace("m.B[di.I(0)].X", "m.B[di.I(0)].Y"), "no field or method Y")
    has(base.replace("byte(m.A)", "byte(q.A)"), "undefined: q")
    has(base.replace("byte(m.A)", "bite(m.A)"), "undefined: bite")
    has(base.replace("A uint8", "A uint9"), "undefined: uint9")
    has(base.replace("byte(m.A)", "byte(xx.A)"), "undefined: xx")
    has(base.replace("B [2]U", "B [2]pkg.U"), "undefined: pkg")
    has(base + "\nfunc (m *T) A() {}\n", "field and method with the same name A")
    has(base + '\nimport "os"\n', "import declaration after other declarations")
    has(base + "\nfunc f() int {\n\tx := 1\n\treturn 0\n}\n", "declared and not used: x")
    has(base + "\nfunc f(a int) int {\n\ta := 1\n\treturn a\n}\n", "no new variables")
    check(sc(base + "\nfunc f(a int) int {\n\tif a > 0 {\n\t\ta := 1\n\t\treturn a\n\t}\n\treturn 0\n}\n") == [])
    has(base + "\nfunc f() int {\n\tx := 1\n\tx := 2\n\treturn x\n}\n", "no new variables")
    has(base + "\nfunc (m *V) F() {}\n", "receiver type V is not declared")
    # imported package contents
    imp = g.parse_file("package shared\ntype Color uint8\ntype Pair struct {\n\tA int8\n\tb int8\n}\n"
                       "const MAX int = 3\nfunc helper() {}\n")
    user = '''package q
import shared "x/shared_bp"
type M struct {
	C shared.Color
	P shared.Pair
}
func (m *M) F() int8 { return m.P.A }
'''
    check(g.static_check(g.parse_file(user), {"shared": imp}) == [])
    check(sc(user) == [])
    probs = sc(user.replace("shared.Color", "shared.Colour"), {"shared": imp})
    check(any("undefined: shared.Colour" in p for p in probs), probs)
    check(sc(user.replace("shared.Color", "shared.Colour")) == [], "unknown without imported")
    probs = sc(user.replace("shared.Color", "shared.MAX"), {"shared": imp})
    check(any("shared.MAX is not a type" in p for p in probs), probs)
    probs = sc(user.replace("m.P.A", "m.P.Z"), {"shared": imp})
    check(any("no field or method Z" in p for p in probs), probs)
    probs = sc(user.replace("m.P.A", "m.P.b"), {"shared": imp})
    check(any("unexported" in p for p in probs), probs)
    # never raises on garbage
    for junk in ["", "}}}", "package", "package p\nfunc", "\x00\x01", "package p\ntype T struct {",
                 "package p\nfunc f() { x := ", "(" * 5000, "package p\nvar x = " + "(" * 3000 + "1"
                 + ")" * 3000]:
        check(isinstance(sc(junk), list))
    check(sc("") != [] and sc("}}}") != [])


def in_process_go(schema, outdir, opt):
    from bitproto.parser import parse
    from bitproto.renderer import render
    os.makedirs(outdir, exist_ok=True)
    proto = parse(schema, traditional_mode=opt)
    return render(proto, "go", outdir, optimization_mode=opt)


def test_static_sweep(work):
    """No false problems on real generator output for valid schemas."""
    import bitproto
    check(bitproto.__file__.startswith(REPO + "/"), bitproto.__file__)
    schemas = sorted(glob.glob(f"{REPO}/tests/test_encoding/encoding-cases/*/*.bitproto")
                     + glob.glob(f"{REPO}/tests/test_compiler/parser-cases/*.bitproto")
                     + glob.glob(f"{REPO}/example/*.bitproto")
                     + [f"{work}/schemas/{n}.bitproto" for n in ("main", "shared", "base2")])
    generated = 0
    known = {"imports-late": 0, "unused-import": 0}
    devnull = open(os.devnull, "w")
    old_err = sys.stderr
    sys.stderr = devnull  # the compiler prints lint warnings
    try:
        for i, schema in enumerate(schemas):
            for opt in (False, True):
                out = f"{work}/sweep/{i}{'o' if opt else 's'}"
                try:
                    files = in_process_go(schema, out, opt)
                except Exception:
                    continue  # deliberately invalid schema, or extensible in -O mode
                for path in files:
                    generated += 1
                    text = open(path).read()
                    gf = g.parse_file(text)
                    check(g.static_check(gf) == g.static_check_text(text))
                    rest = []
                    for p in g.static_check_text(text):
                        # Two genuine defects of the generator (real Go rejects these files):
                        if opt and gf.imports[2:] and "import declaration after other" in p:
                            known["imports-late"] += 1
                        elif "imported as" in p and "and not used" in p and \
                                "option_reference_imported_constants" in schema:
                            known["unused-import"] += 1
                        else:
                            rest.append(p)
                    check(rest == [], f"{schema} opt={opt}: {rest}")
                    for tn, gt in gf.types.items():
                        if opt:
                            continue
                        if gf.func("BpProcessor", tn):
                            g.processor_tree(gf, tn)
                        if gt.kind == "struct":
                            at = g.accessor_tables(gf, tn)
                            check(at["problems"] == [])
                            check(not any("unparsed" in c for k in g._CASE_PARSERS for c in at[k]))
                    if opt and not gf.imports[2:]:
                        ev = g.GoEval(gf)
                        for tn, gt in gf.types.items():
                            if gt.kind == "struct" and gf.func("Encode", tn):
                                z = ev.zero_value(tn)
                                b = ev.run_encode(tn, z)
                                check(len(b) == g.size_methods(gf)[tn])
                                check(ev.run_decode(tn, bytes([0xFF]) * len(b)) is not None)
                                check(ev.run_decode(tn, b) == z)
    finally:
        sys.stderr = old_err
        devnull.close()
    check(generated >= 60, generated)
    check(known["unused-import"] > 0, known)  # imports-late was a generator defect, repaired in /repo (fix: Go optimization-mode ... imports)
    # the import-ordering defect is specific to -O mode
    check(g.static_check_text(open(f"{work}/go_std/main_bp.go").read(),
                              {"shared": g.parse_file(open(f"{work}/go_std/shared_bp.go").read()),
                               "bb": g.parse_file(open(f"{work}/go_std/base2_bp.go").read())}) == [])
    probs = g.static_check_text(open(f"{work}/go_opt/main_bp.go").read())
    check(probs == [], probs)  # the -O import-ordering defect was repaired in /repo
    late = "package p\nvar x = 1\nimport \"strconv\"\nvar y = strconv.Itoa\n"
    check(any("import declaration after" in p for p in g.static_check_text(late)), "late import not reported")
    # field/method name collision produced by the generator for a field called `size`
    probs = g.static_check_text(open(f"{work}/go_std/collide_bp.go").read())
    check(len(probs) == 1 and "field and method with the same name Size" in probs[0], probs)
    check(g.static_check_text(open(f"{REPO}/lib/go/bitproto.go").read()) == [])


def test_performance(work):
    text = open(f"{work}/go_opt/big_bp.go").read()
    nlines = text.count("\n")
    check(nlines > 4000)
    best = min(_timeit(lambda: g.parse_file(text)) for _ in range(3))
    per_1000 = best * 1000 / nlines
    check(per_1000 < 0.2, f"parsing 1000 lines takes {per_1000:.3f}s")
    gf = g.parse_file(text)
    enc = gf.func("Encode", "Big")
    nst = len(enc.body)
    check(nst > 2000, nst)
    ev = g.GoEval(gf)
    v = ev.zero_value("Big")
    v["Body"] = [(i * 0x9E3779B97F4A7C15) & (2 ** 64 - 1) for i in range(130)]
    v["Tail"] = [(-1) ** i * (i << 30) for i in range(20)]
    v["Head"] = 5
    b = ev.run_encode("Big", v)  # compiles
    best = min(_timeit(lambda: ev.run_encode("Big", v)) for _ in range(3))
    check(best * 2000 / nst < 0.1, f"evaluating 2000 statements takes {best * 2000 / nst:.3f}s")
    check(ev.run_decode("Big", b) == v)
    return per_1000, best * 2000 / nst


def _timeit(fn):
    t0 = time.perf_counter()
    fn()
    return time.perf_counter() - t0


def main():
    import bitproto
    import bitprotolib
    assert bitproto.__file__.startswith(REPO + "/"), bitproto.__file__
    assert bitprotolib.__file__.startswith(REPO + "/"), bitprotolib.__file__
    work = tempfile.mkdtemp(prefix="gotext-test-", dir="/tmp")
    try:
        os.makedirs(f"{work}/schemas")
        for name, text in [("shared", SHARED), ("base2", BASE2), ("main", MAIN), ("big", BIG),
                           ("collide", COLLIDE)]:
            with open(f"{work}/schemas/{name}.bitproto", "w") as fh:
                fh.write(text)
        shutil.copy(f"{REPO}/example/example.bitproto", f"{work}/schemas/example.bitproto")
        ext = f"{REPO}/tests/test_encoding/encoding-cases/extensible/drone_extended.bitproto"
        jobs = [("go", "example", False), ("go", "example", True), ("py", "example", False)]
        for n in ("shared", "base2", "main"):
            jobs += [("go", n, False), ("go", n, True), ("py", n, False)]
        jobs += [("go", "big", True), ("go", "collide", False)]
        for lang, name, opt in jobs:
            out = f"{work}/{lang}_opt" if opt else (f"{work}/{lang}_std" if lang == "go" else f"{work}/py")
            rc, log = bitproto_cli(lang, f"{work}/schemas/{name}.bitproto", out, opt)
            assert rc == 0, f"bitproto {lang} {name} opt={opt} failed:\n{log}"
        rc, log = bitproto_cli("go", ext, f"{work}/go_std")
        assert rc == 0, log

        test_string_literals()
        test_tokenizer()
        test_parser_small()
        test_generated_parse(work)
        test_structure(work)
        test_eval_semantics()
        test_runtime_helpers()
        test_crosscheck(work)
        test_static_negative()
        test_static_sweep(work)
        p, e = test_performance(work)
    finally:
        shutil.rmtree(work, ignore_errors=True)
    print(f"checks: {NCHECKS}; parse {p * 1000:.1f} ms/1000 lines; eval {e * 1000:.1f} ms/2000 statements")
    print("OK")


if __name__ == "__main__":
    main()
