#!/usr/bin/env python3
"""Anchors vlib/ref.py (the specification used by every oracle) on material that is independent of me:

 1. README.md worked example: message Data with every field at its maximum encodes to FF FF FF FF and decodes back;
 2. docs/language.rst sizes: Pen = 6 bits... (message size = sum of fields; extensible message 1+16 bits; byte[4]' gains 2 bytes);
 3. the four upstream golden digests in tests/test_encoding/test_encoding.py (arrays, scatter, signed, complexx): the upstream
    py/main.py programs are run against modules generated from the working tree, sha256(stdout) must equal the golden digest,
    and the printed bytes are decoded and re-encoded by the reference (must reproduce them) and compared leaf by leaf with what
    the generated module decoded.

The repository's parser is used here only to read the upstream schemas into my model.  Exit 0 = anchored.
"""
import hashlib
import importlib
import os
import re
import shutil
import subprocess
import sys
import tempfile

VERIF = os.path.dirname(os.path.dirname(os.path.abspath(__file__)))
sys.path.insert(0, VERIF)
from vlib import env, ref, sut_compiler, sut_py  # noqa: E402
from vlib.model import Alias, Arr, Base, Const, Enum, Field, File, Message, Ref  # noqa: E402

env.assert_repo_imports()
import bitproto._ast as A  # noqa: E402


def to_model(proto) -> File:
    f = File(proto.name, os.path.splitext(os.path.basename(proto.filepath))[0])
    memo = {}

    def ty(t):
        if isinstance(t, A.Bool):
            return Base("bool")
        if isinstance(t, A.Byte):
            return Base("byte")
        if isinstance(t, A.Uint):
            return Base("uint", t.cap)
        if isinstance(t, A.Int):
            return Base("int", t.cap)
        if isinstance(t, A.Array):
            return Arr(ty(t.element_type), t.cap, t.extensible)
        return Ref(memo[id(t)])

    def scope(node, parent):
        for name, d in node.members.items():
            if isinstance(d, A.Constant):
                parent.add(Const(name, d.value))
            elif isinstance(d, A.Alias):
                memo[id(d)] = parent.add(Alias(name, ty(d.type)))
            elif isinstance(d, A.Enum):
                memo[id(d)] = parent.add(Enum(name, d.nbits(), [(n, fl.value) for n, fl in d.members.items()]))
            elif isinstance(d, A.Message):
                m = Message(name, ext=d.extensible)
                parent.add(m)
                memo[id(d)] = m
                scope(d, m)
            elif isinstance(d, A.MessageField):
                parent.add(Field(name, ty(d.type), d.number))

    scope(proto, f)
    return f


def main():
    ok = True
    # 1. README
    f = File("example")
    m = f.add(Message("Data"))
    for n, (name, w) in zip([1, 2, 3, 4, 6, 7], [("the", 3), ("bit", 3), ("level", 5), ("data", 4), ("interchange", 11), ("format", 6)]):
        m.add(Field(name, Base("uint", w), n))
    v = {1: 7, 2: 7, 3: 31, 4: 15, 6: 2047, 7: 63}
    got = ref.encode(m, v)
    print("README Data:", got.hex(), "nbits", ref.nbits(m))
    ok &= got == b"\xff\xff\xff\xff" and ref.decode(m, got) == v and ref.nbits(m) == 32
    # 2. language guide sizes
    pen = Message("Pen")
    for n, t in ((1, Base("bool")), (2, Base("uint", 3)), (3, Base("uint", 3))):
        pen.add(Field(f"f{n}", t, n))
    ext = Message("ExtensibleMessage", ext=True)
    ext.add(Field("old_field", Base("bool"), 1))
    packet = Message("Packet")
    packet.add(Field("words", Arr(Base("byte"), 4, ext=True), 1))
    sizes = (ref.nbits(pen), ref.nbits(ext), ref.nbytes(packet))
    print("language guide sizes (1+3+3-bit message, ExtensibleMessage' 1+16 bits, byte[4]' 4+2 bytes):", sizes)
    ok &= sizes == (7, 17, 6)
    # 3. golden digests
    src = open(os.path.join(env.REPO, "tests/test_encoding/test_encoding.py")).read()
    for case in ("arrays", "scatter", "signed", "complexx"):
        golden = re.search(r'"%s",.*?golden_sha256="([0-9a-f]{64})"' % case, src, re.S).group(1)
        cdir = os.path.join(env.REPO, "tests/test_encoding/encoding-cases", case)
        tmp = tempfile.mkdtemp(prefix="refanchor-")
        try:
            schema = os.path.join(cdir, f"{case}.bitproto")
            proto = sut_compiler.parse_file(schema)
            sut_compiler.render_file(proto, "py", tmp)
            shutil.copy(os.path.join(cdir, "py", "main.py"), tmp)
            out = subprocess.run([env.PYTHON, "main.py"], cwd=tmp, env=env.child_env(), capture_output=True, timeout=120).stdout
            digest = hashlib.sha256(out.strip()).hexdigest()
            data = bytes(int(x) for x in out.split())
            model = to_model(proto)
            from vlib.model import messages_of
            cands = [mm for mm in messages_of(model) if ref.nbytes(mm) == len(data)]
            anchored = False
            for mm in cands:
                val = ref.decode(mm, data)
                if ref.encode(mm, val) != data:
                    continue
                mods = sut_py.PyModules(tmp, model)
                try:
                    obj = mods.new(mm)
                    obj.decode(bytearray(data))
                    same = mods.read(mm, obj) == val
                finally:
                    mods.close()
                if same:
                    anchored = True
                    print(f"golden {case}: digest {'matches' if digest == golden else 'DIFFERS'}; {len(data)} bytes; reference decode/encode of message "
                          f"{mm.name} reproduces them and agrees with the generated module on {ref.count_leaves(mm)} leaves")
                    break
            ok &= anchored and digest == golden
            if not anchored:
                print(f"golden {case}: NOT anchored (digest match {digest == golden}, candidates {[c.name for c in cands]})")
        finally:
            shutil.rmtree(tmp, ignore_errors=True)
    print("REFERENCE ANCHORED" if ok else "REFERENCE NOT ANCHORED")
    return 0 if ok else 1


sys.exit(main())
