#!/usr/bin/env python3
"""Writes MANIFEST.json from the table below (kept in one place so it stays valid)."""
import json, os

HERE = os.path.dirname(os.path.dirname(os.path.abspath(__file__)))

CHECKS = {
 "C01": dict(technique="reference-model monitor + per-step trace monitor on the real Python runtime + contracts",
   text="Runs the real compiler and generated Python encoders on thousands of generated schemas x boundary values; an independent bit-list reference decides the bytes, a trace monitor on bp.py checks every bit-copy step (exactly-once, conservation, layout order, bounds), icontract postconditions watch the helpers and the compiler's size arithmetic. Held on the executions listed in the evidence, nothing more.",
   note="Trusts vlib/ref.py as the specification and the generator's notion of validity; bounded by generator reach.", ref="2/C01"),
 "C02": dict(technique="reference-model + round-trip monitor with decode-trace layout check",
   text="Every generated message value is encoded, decoded into a fresh object (own bytes and reference bytes), compared leaf by leaf and re-encoded, also after the process decoded foreign buffers (other prefixes, zeros, ones); the decode trace must follow the reference layout; grids cover enum member sets x bit offsets, all signed widths, extensible-array capacity/element combinations.",
   note="Trusts vlib/ref.py; enum leaves are declared members. One recorded finding (py-enum-default-or).", ref="2/C02"),
 "C03": dict(technique="differential execution of generated C (gcc/clang, -O0..-O3, 1 TU/sep) vs reference and Python, ASan/UBSan + guard pages",
   text="Generated C plus the C runtime from the working tree are built in several configurations and executed; Encode bytes are compared with the reference and with the Python encoder, Decode of reference bytes with the value; sanitizers and exact-fit guard pages watch every call.",
   note="x86-64 LP64 host, gcc 12/clang 14; UBSan alignment check excluded by design.", ref="2/C03"),
 "C04": dict(technique="metamorphic monitor: -O builds (4 endian variants) vs standard build vs reference on a per-bit basis of values",
   text="For traditional schemas each -O variant (--endian little/big/both, both with -DBP_BIG_ENDIAN) is compiled, built and run on zero/all-ones/every-single-bit/min/max/-1/random values; bytes and decoded leaves must equal the standard-mode build and the reference.",
   note="Basis sweep is complete for today's statement shapes only; Go clause decided by my evaluator of Go integer semantics (when enabled).", ref="2/C04"),
 "C07": dict(technique="guard pages + ASan/UBSan + canaries around exact-fit buffers; overdrive metamorphic monitor; constant cross-check",
   text="Exact-fit wire buffers and structs (end- and start-aligned to PROT_NONE pages, canaries, ASan) during every Encode/Decode in standard and -O mode; every integer leaf overdriven with out-of-range storage (C) / ints (Python) and the wire compared with the reduced value's wire; byte-length constants of .h/.go/.py compared with ceil(N/8).",
   note="Guard pages see only the outer objects; x86-64.", ref="2/C07"),
 "C16": dict(technique="reference-model monitor on parsed JSON (Python to_json/to_dict, C Json in guard/ASan builds)",
   text="JSON text of Python and of the generated C formatter is parsed (key order kept, true/false distinguished from 1/0) and compared with the reference JSON value for generated schemas x values; the C buffer is exact-fit with guards and dirty before the call (the text must be terminated where the returned length says).",
   note="Trusts ref.json_value; x86-64 printf width classes only.", ref="2/C16"),
}

CHECKS.update({
 "C05": dict(technique="reference-model monitor over schema-evolution chains (older generated decoders on newer buffers; Python trace monitor, C guard pages + ASan)",
   text="Chains of 2-3 schema versions built from the two permitted extension steps at any depth; values of the newest version encoded by the reference and the newest generated encoders are decoded by every older version's generated Python module and (sample) C driver on exact-fit buffers (C also on the emulated big-endian host); each older Python decoder sees, in one process, senders of its own version, of every version between and of the newest; oracle = projection of the value onto the older schema.",
   note="Trusts ref.project/encode; Go runtime cannot be executed here (same formula by reading only).", ref="2/C05"),
 "C06": dict(technique="emulated big-endian host (clang -O0 IR with every 16/32/64-bit load/store/initializer byte-swapped, big-endian detection macros on) running the real runtime, generated code and -O branches against the reference, with failing little-endian controls + storage-layout emulation + valgrind-lackey access-width traces + -O big-endian branch differential",
   text="No big-endian CPU exists here. (0) An emulated big-endian host: the C sources are compiled to unoptimised LLVM IR, every multi-byte integer memory access and constant initializer is byte-swapped, and the program (runtime + generated code + driver, selected by the code's own __BYTE_ORDER__ test) runs natively on big-endian memory images - probe grid and generated schemas of every kind, standard mode and -O both/big, sign extension and prefixes judged, little-endian code on the same memory as failing control. (1-3) the -DBP_BIG_ENDIAN runtime runs on storage the driver lays out big-endian over the whole width x offset grid and traditional schemas; lackey traces show wire accesses are single bytes and -O big-endian struct accesses are whole fields (little-endian builds are the failing control); the -O big-endian branch is compared with the little-endian one and the reference.",
   note="x86-64 only: the emulated host models memory byte order exactly and nothing else of a big-endian CPU (alignment, ABI, back end); constructs the IR rewriter does not understand make a build inconclusive; access widths observed at -O0.", ref="2/C06"),
 "C14": dict(technique="enumeration of the finite probe space through Python runtime (trace monitor), C runtime (LE/BE, -O0/-O2/-O3, ASan, guard pages), -O code; BpCopyBufferBits vs bit-list model",
   text="The finite space {bool, byte, uint1..64, int1..64} x offsets 0..7 x {scalar, array element incl. batch path, alias, alias of array, array of alias, 2-D rows} x basis values is run through every executable runtime; the thorough tier enumerates it completely (cells_observed == cells_in_space is reported), quick uses a reduced basis.",
   note="Go -O statements are evaluated, not run; big-endian decode of signed odd widths is judged on the emulated big-endian host (emu-BE-*) only, not under the storage-layout emulation.", ref="2/C14"),
})

CHECKS.update({
 "C08": dict(technique="acceptance-rule monitor: 120-entry violation/boundary catalogue injected into generated schemas (import chains, cut-off-at-eof), accepted schemas also in the layouts an editor leaves (no final newline, comment on the last line, CRLF); exception class, cited file/line set, CLI exit status and files observed",
   text="Each case injects one catalogue construct (a violation of a listed constraint or its valid twin on the other side of the limit) at a random scope/depth/file of a generated valid schema; the compiler must accept iff the construct is valid, reject with a ParserError citing the offending file and a line of the construct, and the real CLI must exit non-zero without writing files. Both directions are judged; every sixth case is the untouched valid schema.",
   note="The catalogue is my reading of the statement; constraints the statement does not list are not generated.", ref="2/C08"),
 "C11": dict(technique="reference-model monitor: independent scope resolver vs the parsed AST binding and the encoded layout, on purpose-built shadowing schemas",
   text="Schemas reuse four type names across file scope, nested scopes and imported files with a distinct width per definition (some enums without fields); every reference text is chosen first and resolved by an independent implementation of the documented rule; the compiler's binding (file, line, name), width and the generated Python encoder's bytes must agree; unresolvable references (also in imported files naming the importer's definitions) must be rejected at their line.",
   note="References where 'stop at innermost declaring scope' and 'continue outward' differ are counted, not judged.", ref="2/C11"),
 "C12": dict(technique="metamorphic monitor over schema rewrites (both sides real generated code, Python always, C on a sample)",
   text="Random sequences of the statement's rewrites (rename, reorder, alias introduce/inline, nest/un-nest, move to import, literal->constant expression incl. operands beyond 2^53/2^64 and unparenthesised chains, renumber, layout noise incl. several statements per line) applied to generated schemas; encoded bytes of mapped values must be identical.",
   note="Trusts vlib/rewrite.py to preserve numbers and resolved types.", ref="2/C12"),
 "C13": dict(technique="reference evaluator for constant expressions + read-back of emitted literals (Python import, compiled C program, Go lexical decoding)",
   text="Expression trees with minimal parentheses (precedence/associativity decide), hex/decimal literals, references across imports, all boolean spellings, strings with every escape and non-ASCII; parsed values, capacities and option values compared with an own evaluator; emitted literals read back in all three languages.",
   note="/ judged only for non-negative operands; C built with -std=c99 (trigraphs on); two recorded findings (Go typed int / C #define beyond 64 bits); Go strings decoded by my implementation of Go's lexical rules.", ref="2/C13"),
 "C18": dict(technique="differential monitor over repeated/interleaved compilations + cache-coherence monitor on every memoised AST method",
   text="sha256 of every generated file across fresh processes (hash seeds 0/1/2/random), paths, cwd (also one that holds different files under every relative import path - decoys), output directories, -q, in-process repeats, shared parse, interleaving with another schema, an output directory that already holds older files under the same names, -O -F name lists across hash seeds, compilation right after an earlier compilation chosen to leave state behind (trailing comments, renaming options, compilations failing half way); every memoised AST method is recomputed on each call and compared.",
   note="Only generated files are compared.", ref="2/C18"),
})

CHECKS.update({
 "C09": dict(technique="fuzzing monitor: token/character/byte mutation, random token strings, truncation, hostile shapes (depth, size, integers around the print limit); exception-class and per-input alarm watchdog; render of every accepted text; CLI traceback scan (+ atheris in thorough)",
   text="Tens of thousands of mutated and hostile inputs per run go through the real parser; anything escaping that is not a ParserError/OSError, or an input on which the watched executor process twice burns 40 s of CPU, is a violation (hostile shapes include small DAGs whose tree expansion is exponential; import graphs on disk: cycles across directories, dot segments, symlinks, absolute paths); byte-level damaged files (not UTF-8) go through parse(path) as main and as imported file; every accepted text is rendered in all languages and modes and any non-RendererError is a violation.",
   note="Bounded by generator/mutator reach; thorough adds coverage-guided fuzzing; two recorded findings (recursion limit, alias size beyond the print limit).", ref="2/C09"),
 "C10": dict(technique="toolchain-as-oracle monitor: gcc -std=c99, link, g++, C vs C++ layout programs, Python ast/import/instantiate/execute, static Go checker",
   text="Composition-heavy generated schemas are rendered in every language/mode and handed to the real toolchains: per-file C99 compile, link with a caller of every API function (duplicate symbols), the same caller built by g++ through the header, sizeof/offsetof tables from real C and C++ programs, existence of #include targets, Python duplicate declarations/import/instantiation/method execution, and the static Go requirements via my Go parser.",
   note="Go only statically (no toolchain); recorded findings: empty struct size in C++, unused Go imports, Go transitive imports, C API function vs typedef, Python class-body rebinding, Python import of a hyphenated file name, one output file for two files with one base name.", ref="2/C10"),
 "C15": dict(technique="reference naming model vs names observed in .h text, nm symbol tables, parsed Go, imported Python modules; prefix twin differential (layout programs + driver bytes)",
   text="The exact sets of declared struct/typedef/function/macro names, exported symbols, Go declarations and Python public names are compared with a naming model written from the docs; with c.name_prefix the un-prefixed twin must give identical Go/Python output, struct members, layout and encoded bytes, and every prefixed C name must be the prefix in front of the very name the twin declares (also for digit-bearing type names, whose own spelling is compared normalised).",
   note="Names restricted to plain style-guide words; nested Go enum/alias names compared normalised.", ref="2/C15"),
 "C17": dict(technique="differential monitor over CLI invocations (-O/-F/--endian) with textual function extraction",
   text="Real CLI invocations are compared with each other: refusals (extensible marker anywhere incl. imports, py -O, -F without -O) must be diagnostics with non-zero exit and no file; -O -F must define exactly the named messages' functions, textually identical to the unfiltered output (random subsets, container/contained message pairs each alone and both, short names shared by several messages, and with --endian little/big against the unfiltered output of the same --endian), with everything else unchanged; --endian may change only bodies and the detection preamble.",
   note="Functions are delimited by the generator's own layout.", ref="2/C17"),
 "C19": dict(technique="structural monitor: parsed Go output vs schema model and vs the Python module's processor tree; Go helper bodies evaluated with Go integer semantics vs executed Python helpers",
   text="Per message: struct fields/types/tags, size constant and Size(), the resolved BpProcessor() tree (vs model and vs the tree the imported Python module builds) and the four accessor switch tables; the five pure Go runtime helpers are evaluated over their whole reachable domain against the executed Python helpers.",
   note="Go is parsed/evaluated by vlib/sut_gotext.py (trusted), never executed.", ref="2/C19"),
 "C20": dict(technique="position oracle from the printer (line/column of every name token) + lint stderr monitor + C08 catalogue for error lines + CLI -q/-c differential",
   text="Conforming schemas must lint clean, each clear naming violation / zero-less enum must be warned about at its file:line (also when several offending definitions share one source line), -c must fail for 1, 255, 256, 257, 512 warnings alike, every definition/reference position must equal the name token's position (also on the first line), parser errors must cite a line of the offending construct under heavy layout noise, output must be identical with and without -q and -c must fail exactly on error or warning.",
   note="Only clear case violations are asserted to warn; one recorded finding (typedef deprecation warning not counted by -c).", ref="2/C20"),
})

NOT_YET = {}

def main():
    props = [json.loads(l)["id"] for l in open(os.path.join(HERE, "properties.jsonl"))]
    checks = []
    for pid in props:
        if pid not in CHECKS:
            continue
        c = CHECKS[pid]
        checks.append({
            "property_id": pid,
            "quick_cmd": f"./check {pid} --tier quick",
            "thorough_cmd": f"./check {pid} --tier thorough",
            "evidence_file": f"evidence/{pid}.json",
            "replay_cmd_template": f"./check {pid} --replay {{path}}",
            "engine": "runtime-monitoring",
            "level_claimed": {"category": c.get("category", "exploration"), "text": c["text"], "design_ref": c["ref"]},
            "level_note": c["note"],
            "technique": c["technique"],
        })
    na = [{"property_id": p, "reason": NOT_YET.get(p, "check not built yet in this session; planned in DESIGN.md section 2 (runtime monitoring applies)")}
          for p in props if p not in CHECKS]
    man = {
        "version": 1,
        "setup_cmd": "./setup.sh",
        "hooks": {
            "guard": "HIT9_BITPROTO_VERIF",
            "enable": "no source hooks: checks instrument from outside (module-global rebinding, icontract wrappers, compiler flags such as -DBP_BIG_ENDIAN, sanitizers); the guard name is reserved and unused",
            "baseline_off_cmd": "cd /repo && /venv/bin/python -m pytest -ra -q -p no:cacheprovider --timeout=900 --continue-on-collection-errors",
            "source_commits": [],
            "add_only": True,
        },
        "engines": [{"name": "runtime-monitoring", "path": "vlib/", "serves_properties": [c["property_id"] for c in checks],
                     "kind_free_text": "generated workloads driven through the real compiler, Python runtime and C runtime/generated C under trace monitors, contracts, sanitizers, guard pages and reference-model oracles"}],
        "checks": checks,
        "not_applicable": na,
        "notes": "All checks: ./check <id> --tier quick|thorough; VERIF_SEED selects the workload; known findings in known_findings.json.",
    }
    with open(os.path.join(HERE, "MANIFEST.json"), "w") as fh:
        json.dump(man, fh, indent=1)
    print("checks:", [c["property_id"] for c in checks], "not claimed:", [n["property_id"] for n in na])

main()
