#!/bin/sh
# tools/thorough_smoke.sh [scale] [checks...] - runs the thorough tier of every check (or the listed ones) with a reduced budget scale, one line per run
scale="${1:-0.1}"; shift
cd "$(dirname "$0")/.."
[ $# -gt 0 ] || set -- C01 C02 C03 C04 C05 C06 C07 C08 C09 C10 C11 C12 C13 C14 C15 C16 C17 C18 C19 C20
for c in "$@"; do
  t0=$(date +%s)
  out=$(VERIF_BUDGET_SCALE=$scale ./check $c --tier thorough 2>&1); rc=$?
  echo "$c thorough scale=$scale exit=$rc $(( $(date +%s) - t0 ))s $(echo "$out" | grep -E '^(VIOLATION|INCONCLUSIVE|unlisted)' | head -3 | tr '\n' ' ' | cut -c1-500) | $(echo "$out" | tail -1 | cut -c1-100)"
done
