#!/usr/bin/env python3
"""Confirm and import a seeded change written by an independent sub-agent.

  tools/seeded_import.py <seeded id> <property> <agent output dir> [--checks C05,C03]

Confirms in fresh scratch worktrees of /repo HEAD: patch applies, pinned 62 tests pass with it, demo.sh fails with it and
passes without it.  Then copies patch.diff/demo.sh/notes.md to seeded/<id>/ and writes meta.json (no check is run here;
tools/selftest.py seeded <id> does that).
"""
import json, os, shutil, subprocess, sys, tempfile

VERIF = os.path.dirname(os.path.dirname(os.path.abspath(__file__)))
sys.path.insert(0, os.path.join(VERIF, "tools"))
import selftest as S


def main():
    sid, prop, out = sys.argv[1], sys.argv[2], sys.argv[3]
    checks = [prop]
    if "--checks" in sys.argv:
        checks = sys.argv[sys.argv.index("--checks") + 1].split(",")
    patch = os.path.join(out, "patch.diff")
    demo = os.path.join(out, "demo.sh")
    ran = []
    d1 = S.make_worktree("confirm-a")
    d2 = S.make_worktree("confirm-b")
    try:
        r = S.sh(["git", "-C", d1, "apply", patch])
        ran.append("git apply patch.diff (scratch worktree of /repo HEAD)")
        if r.returncode:
            print("PATCH DOES NOT APPLY", r.stderr)
            return 1
        ok, tail = S.baseline(d1)
        ran.append("pinned 62 tests with the change: " + ("pass" if ok else "FAIL " + tail))
        with_change = subprocess.run(["bash", demo, d1], capture_output=True, text=True, timeout=900)
        without = subprocess.run(["bash", demo, d2], capture_output=True, text=True, timeout=900)
        ran.append(f"demo.sh with the change: exit {with_change.returncode}; without: exit {without.returncode}")
        print("\n".join(ran))
        print("demo output with change:", (with_change.stdout + with_change.stderr)[-600:])
        if not ok or with_change.returncode == 0 or without.returncode != 0:
            print("NOT CONFIRMED")
            return 1
    finally:
        S.drop_worktree(d1)
        S.drop_worktree(d2)
    dst = os.path.join(VERIF, "seeded", sid)
    os.makedirs(dst, exist_ok=True)
    for n in ("patch.diff", "demo.sh", "notes.md"):
        if os.path.exists(os.path.join(out, n)):
            shutil.copy(os.path.join(out, n), os.path.join(dst, n))
    files = sorted({l[6:].strip() for l in open(patch) if l.startswith("+++ b/")})
    notes = open(os.path.join(out, "notes.md")).read() if os.path.exists(os.path.join(out, "notes.md")) else ""
    meta = {"id": sid, "property": prop, "checks": checks, "files_changed": files,
            "needs_to_manifest": "see notes.md", "confirmed": ran,
            "written_by": "independent sub-agent given only the property text and a scratch worktree"}
    json.dump(meta, open(os.path.join(dst, "meta.json"), "w"), indent=1)
    print("imported", dst)
    return 0


sys.exit(main())
