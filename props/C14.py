"""C14 - Every width x bit-offset x signedness combination is bit-exact in every runtime."""
import os
import shutil
import traceback

from vlib import harness, ref, sut_c, sut_compiler, sut_py
from vlib.model import Base
from vlib.monitors import contracts, py_trace
from props import ccommon, pycommon, probes

# emu-BE-*: emulated big-endian host (vlib/be_emu.py) - the only big-endian configuration in which the sign step and every decode are judged
STD_Q = ["gcc-O0-sep", "gcc-O2-single", "gcc-asan-ubsan", "gcc-O0-BE", "emu-BE-O1"]
STD_T = STD_Q + ["clang-O2-sep", "gcc-O3-single", "gcc-O2-BE", "clang-O2-BE", "gcc-asan-BE", "emu-BE-O0", "emu-BE-O2"]
OPT_Q = [("little", [], "gcc-O0-sep"), ("big", [], "gcc-O0-sep")]
OPT_T = OPT_Q + [("both", [], "emu-BE-O1"), ("big", [], "emu-BE-O2"), ("both", [], "gcc-O2-single"), ("both", ["-DBP_BIG_ENDIAN"], "gcc-O2-single"), ("little", [], "gcc-asan-ubsan"),
                 ("big", [], "gcc-asan-ubsan"), ("little", [], "clang-O2-sep"), ("big", [], "clang-O3-single")]


def be_decode_judged(t: Base) -> bool:
    """In the big-endian emulation the sign-extension step reads storage natively (see DESIGN C06), so decodes of
    signed widths other than 8/16/32/64 are not judged there; encodes always are."""
    return not (t.kind == "int" and t.width not in (8, 16, 32, 64))


def copy_bits_sweep(ctx, d):
    """BpCopyBufferBits(n, dst, src, di, si) against a bit-list model, on exact-fit buffers."""
    res = ctx.res
    rng = ctx.rng("copybits")
    nmax = 200 if not ctx.quick else 96
    jobs = []
    idx = 0
    for n in range(1, nmax + 1):
        for di in range(8):
            for si in range(8):
                idx += 1
                if idx % ctx.nshards == ctx.shard:
                    jobs.append((n, di, si))
    for config in (["gcc-O0-sep", "gcc-asan-ubsan"] if ctx.quick else ["gcc-O0-sep", "gcc-O2-sep", "clang-O2-sep", "gcc-asan-ubsan", "gcc-O0-BE"]):
        exe = sut_c.build_rt_driver(d, config)
        cmds, meta = [], []
        for (n, di, si) in jobs:
            for rep in range(2 if ctx.quick else 3):
                sn = -(-(si + n) // 8)
                dn = -(-(di + n) // 8)
                src = bytearray(rng.getrandbits(8) for _ in range(sn)) if rep else bytearray([0xFF] * sn)
                dst = bytearray(dn)
                if di:
                    dst[0] = rng.getrandbits(di) if rep else (1 << di) - 1  # earlier field's bits below di must survive
                sb = ref.unpack(bytes(src))
                db = ref.unpack(bytes(dst))
                for k in range(n):
                    db[di + k] = sb[si + k]
                exp = ref.pack(db)
                cmds.append(f"C {n} {di} {si} {rep % 2} {dst.hex()} {src.hex()}")
                meta.append((n, di, si, bytes(dst), bytes(src), exp))
        for (n, di, si, dst, src, exp), r in zip(meta, sut_c.run_driver(exe, cmds)):
            res.count("copybits_calls")
            res.count(f"copybits_calls:{config}")
            w = {"n": n, "di": di, "si": si, "dst_before": dst.hex(), "src": src.hex(), "config": config}
            if isinstance(r, sut_c.Crash):
                res.violation("copybits-" + ccommon.crash_key(ccommon.Reply(r), "C"), f"BpCopyBufferBits({n},di={di},si={si}) [{config}]: {r!r}"[:900], {**w, "crash": r.detail[-2000:]})
                continue
            parts = r.split()
            if parts[0] == "CANARY":
                res.violation("copybits-canary", f"BpCopyBufferBits({n},di={di},si={si}) [{config}] wrote outside its buffers: {r[:80]}", w)
                parts = ["OK"] + parts[3:]
            if parts[1] != exp.hex() or parts[2] != src.hex():
                res.violation("copybits-result", f"BpCopyBufferBits({n},di={di},si={si}) [{config}]: destination {parts[1]} expected {exp.hex()}"
                              + ("" if parts[2] == src.hex() else " and the source was modified"), w)
        os.unlink(exe)


def worker(ctx):
    res = ctx.res
    bp, tr = pycommon.setup_monitors()
    full = not ctx.quick
    if full:
        res.count("full_basis")
    # shard -> (pad width, half of the type list); 16 shards cover the whole space
    plan = [(s % 8, s // 8) for s in range(16)]
    mine = [p for i, p in enumerate(plan) if i % ctx.nshards == ctx.shard]
    for (offset, chunk) in mine:
        types = probes.ALL_TYPES[:65] if chunk == 0 else probes.ALL_TYPES[65:]
        root, pairs = probes.probe_file(offset, types, f"probe_o{offset}_c{chunk}")
        top = ctx.casedir(f"o{offset}c{chunk}")
        wit = {"pad": offset, "chunk": chunk}
        try:
            paths = __import__("vlib.emit", fromlist=["write_schema"]).write_schema(root, top)
            dstd = os.path.join(top, "std")
            sut_compiler.compile_schema(root, top, ["c", "py"], outdir=dstd, paths=paths)
            res.sample({"pad_bits": offset, "types": [t.text() for t in types[:6]] + ["..."], "example_message":
                        open(paths[root.basename]).read().split("message ")[1][:400]}, 2)
            # probe values
            work = []  # (message, type, name, value)
            for m, t in pairs:
                for name, v in probes.probe_values(m, t, full):
                    work.append((m, t, name, v))
                    res.case(True, t.text(), offset, name)  # an evaluation = one probe (type, pad width, probed leaf/value)
                    for it in ref.leaves(m, v):
                        if it.path[0] in (2, 3, 4, 5, 6, 7, 8, 9, 10, 12):
                            res.observe("cells", f"{t.text()}@{it.offset % 8}:{probes.position_of(it.path)}")
            # ---- Python runtime ---------------------------------------------
            mods = sut_py.PyModules(dstd, root)
            try:
                for (m, t, name, v) in work:
                    w = {**wit, "message": m.name, "type": t.text(), "probe": name}
                    exp = ref.encode(m, v)
                    try:
                        tr.begin()
                        try:
                            data = bytes(mods.build(m, v).encode())
                        finally:
                            calls, problems = tr.end()
                        fresh = mods.new(m)
                        fresh.decode(bytearray(exp))
                        got = mods.read(m, fresh)
                    except Exception as e:
                        res.violation("probe-py-exception", f"{m.name} {name}: {type(e).__name__}: {e}", {**w, "traceback": traceback.format_exc()[-1200:]})
                        continue
                    res.count("py_probes")
                    if data != exp or problems:
                        res.violation("probe-py-encode", f"Python {t.text()} pad={offset} {name}: wire {data.hex()} expected {exp.hex()} {problems}", w)
                    if got != ref.normalise(m, v):
                        res.violation("probe-py-decode", f"Python {t.text()} pad={offset} {name}: decode differs from the value", {**w, "got": got})
            finally:
                mods.close()
            # ---- C runtime, standard mode -----------------------------------
            dg = sut_c.DriverGen(root)
            reqs, meta = [], []
            for (m, t, name, v) in work:
                exp = ref.encode(m, v)
                reqs.append(("E", m, ref.leaf_values(m, v)))
                meta.append(("E", m, t, name, v, exp))
                reqs.append(("D", m, exp))
                meta.append(("D", m, t, name, v, exp))
            for config in (STD_Q if ctx.quick else STD_T):
                exe = sut_c.build(dstd, root, config)
                sess = ccommon.CSession(exe, dg, config, "std")
                if not ccommon.selftest_driver(res, sess, pairs[3][0], None, wit):
                    continue
                is_be = config.endswith("-BE")
                for (op, m, t, name, v, exp), r in zip(meta, sess.run(reqs, timeout=900)):
                    judge_probe(ctx, "std", config, op, m, t, name, v, exp, r, wit, skip_decode=is_be and not be_decode_judged(t))
                os.unlink(exe)
            # positive control: the little-endian build on big-endian-laid storage must get multi-byte values wrong
            exe = sut_c.build(dstd, root, "gcc-O0-LE-on-BE-storage")
            ctl = [(m, t, name, v) for (m, t, name, v) in work if t.width > 8][:200]
            rs = ccommon.CSession(exe, dg, "control", "std").run([("E", m, ref.leaf_values(m, v)) for (m, t, name, v) in ctl])
            wrong = sum(1 for (m, t, name, v), r in zip(ctl, rs) if r.status == "OK" and r.payload(1) != ref.encode(m, v).hex())
            res.count("be_monitor_positive_control_failures_seen", wrong)
            os.unlink(exe)
            # ---- C optimisation mode ----------------------------------------
            dgo = sut_c.DriverGen(root, with_json=False)
            built = {}
            for (endian, defs, config) in (OPT_Q if ctx.quick else OPT_T):
                if endian not in built:
                    dd = os.path.join(top, "opt-" + endian)
                    sut_compiler.compile_schema(root, top, ["c"], outdir=dd, optimize=True, endian=endian, paths=paths)
                    built[endian] = dd
                vname = endian + ("+BP_BIG_ENDIAN" if defs else "")
                exe = sut_c.build(built[endian], root, config, optimize=True, extra_flags=defs, driver_src=dgo.source())
                sess = ccommon.CSession(exe, dgo, config, "opt-" + vname)
                for (op, m, t, name, v, exp), r in zip(meta, sess.run(reqs, timeout=900)):
                    judge_probe(ctx, "opt-" + vname, config, op, m, t, name, v, exp, r, wit)
                os.unlink(exe)
            if GO:
                from props import gocommon
                dgo_dir = os.path.join(top, "go")
                sut_compiler.compile_schema(root, top, ["go"], outdir=dgo_dir, optimize=True, paths=paths)
                gocommon.judge_go_probes(ctx, root, dgo_dir, work, wit)
        finally:
            shutil.rmtree(top, ignore_errors=True)
    d = ctx.casedir("rt")
    copy_bits_sweep(ctx, d)
    res.count("trace_single_byte_steps", tr.total_steps)


def judge_probe(ctx, mode, config, op, m, t, name, v, exp, r, wit, skip_decode=False):
    res = ctx.res
    w = {**wit, "message": m.name, "type": t.text(), "probe": name, "mode": mode, "config": config, "op": op}
    if r.crash:
        res.violation(f"probe-{ccommon.crash_key(r, op)}", f"{t.text()} pad={wit['pad']} {name} [{mode} {config}] {op}: {r.crash!r}"[:900],
                      {**w, "crash": r.crash.detail[-2000:]})
        return
    if r.status == "CANARY":
        res.violation("probe-c-canary", f"{t.text()} pad={wit['pad']} {name} [{mode} {config}] {op}: wrote outside the object ({r.canary})", w)
    elif r.status != "OK":
        res.inconclusive.append(f"driver error {r.raw!r}"[:200])
        return
    res.count(f"c_probes:{mode}:{config}")
    if op == "E":
        if r.payload(1) != exp.hex():
            res.violation(f"probe-c-encode:{'BE' if '-BE' in config else 'LE'}:{mode.split('-')[0]}",
                          f"C {t.text()} pad={wit['pad']} {name} [{mode} {config}]: wire {r.payload(1)} expected {exp.hex()}", w)
    else:
        if skip_decode:
            res.count("be_decodes_not_judged_signed_nonstandard")
            return
        got = sut_c.leaves_from_reply(m, r.payload(1))
        want = ref.leaf_values(m, ref.normalise(m, v))
        if got != want:
            res.violation(f"probe-c-decode:{'BE' if '-BE' in config else 'LE'}:{mode.split('-')[0]}",
                          f"C {t.text()} pad={wit['pad']} {name} [{mode} {config}]: decoded leaves {got} expected {want}", w)


GO = True


def extra(res):
    cells = res.sets.get("cells", set())
    return {"cells_observed": len(cells), "cells_in_space": 130 * 8 * 6,
            "exhaustive": len(cells) == 130 * 8 * 6 and res.counters.get("full_basis", 0) > 0 and not res.budget_exhausted}


if __name__ == "__main__":
    import sys
    harness.main(
        "C14", "props.C14", worker,
        rule=("the finite space {bool, byte, uint1..64, int1..64} x start offset 0..7 x position {scalar, array element (capacities 1,2,3,5,9; "
              "8/16/32/64-bit elements take the C batch path), alias, alias of array, array of alias elements, 2-D array of alias-of-array rows}: one probe message per (type, pad width) whose "
              "fields put every position at every offset; per probed leaf each basis value alone (0, all-ones, single bits, min, max, -1, "
              "0x55.., 0xAA..) and all leaves together; run through the Python runtime (trace monitor), the C runtime in standard mode "
              "(gcc/clang -O0/-O2/-O3, ASan+UBSan, guard pages, big-endian builds on big-endian-laid storage) and -O code (little/big/both); "
              "plus BpCopyBufferBits(n<=200, di, si) against a bit-list model; a cell = (type, offset, position); quick tier uses a reduced "
              "basis (bits 0, 7, 8, w/2, w-1) and a sample of positions per type, thorough enumerates the space completely"),
        assumptions=["vlib/ref.py is the specification", "big-endian emulation does not judge decodes of signed non-8/16/32/64 widths (sign step reads storage natively)",
                     "Go -O statements evaluated by vlib/sut_gotext.py when enabled"],
        required_counters=["py_probes", "copybits_calls", "c_probes:std:gcc-O0-sep", "c_probes:std:gcc-O0-BE", "c_probes:std:emu-BE-O1", "c_probes:opt-little:gcc-O0-sep",
                           "c_probes:opt-big:gcc-O0-sep", "be_monitor_positive_control_failures_seen", "go_probes"],
        extra_coverage=extra,
    )
