"""C18 - Compilation is deterministic."""
import hashlib
import os
import shutil

from vlib import gen, harness, sut_compiler
from vlib.emit import write_schema
from vlib.gen import GenCfg
from vlib.model import is_extensible_anywhere
from vlib.monitors import cache_coherence, contracts
from props import pycommon

LANGS = ["c", "go", "py"]


# Schemas compiled EARLIER in the same process, chosen to leave something behind if any state outlives a compilation: a pending
# trailing comment (with and without final newline, after the closing brace), options that change names, definitions with the
# names the generator uses, and compilations that FAIL half way (inside a message, an enum, a string, an import).
RESIDUE = [
    ("trailing-comment-no-newline", "proto residue_a\nmessage Holder { uint3 a = 1 }\n// pending trailing comment of an earlier file"),
    ("trailing-comment", "proto residue_b\nmessage Holder { uint3 a = 1 }\n// pending trailing comment of an earlier file\n"),
    ("inline-comment-after-brace", "proto residue_c\nmessage Holder { uint3 a = 1 } // inline comment after the last brace\n"),
    ("comment-after-proto-only", "proto residue_d\n// a file that holds nothing but a comment\n"),
    ("name-prefix-and-packing", "proto residue_e\noption c.name_prefix = \"zz_\"\noption c.struct_packing_alignment = 2\noption py.module_name = \"other_mod\"\n"
                                "message Holder { uint3 a = 1 }\n"),
    ("every-kind", "proto residue_f\nconst WIDTH = 5\nenum Kind : uint3 { KIND_A = 0; KIND_B = 1 }\ntype Row = uint7[WIDTH]\n"
                   "message Holder' { Row r = 1; Kind k = 2; byte[WIDTH]' b = 3; message Inner { bool f = 1 }; Inner i = 4 }\n"),
    ("fails-inside-message", "proto residue_g\nmessage Holder {\n    uint3 a = 1\n    // comment inside\n    Unknown u = 2\n}\n"),
    ("cut-off-inside-enum", "proto residue_h\nmessage Holder { uint3 a = 1 }\nenum Kind : uint3 {\n    // comment before the end of input\n    KIND_A = 0\n"),
    ("unterminated-string", "proto residue_i\n// doc\nconst TEXT = \"unterminated\nmessage Holder { uint3 a = 1 }\n"),
    ("missing-import", "proto residue_j\n// doc comment before a failing import\nimport \"no_such_file.bitproto\"\nmessage Holder { uint3 a = 1 }\n"),
    ("illegal-character", "proto residue_k\nmessage Holder { uint3 a = 1 }\n// comment\n$\n"),
    ("nested-failure", "proto residue_l\nmessage Outer { message Inner { enum Deep : uint2 { DEEP_A = 0 }\n // comment\n Deep d = 1; Deep d = 2 } }\n"),
]


def digest_dir(d):
    out = {}
    for n in sorted(os.listdir(d)):
        p = os.path.join(d, n)
        if os.path.isfile(p) and "_bp." in n:
            out[n] = hashlib.sha256(open(p, "rb").read()).hexdigest()
    return out


def cfg_for(rng, k):
    c = pycommon.cfg_for_case(rng, k)
    c.msg_bits = min(c.msg_bits, 1500)
    c.big_caps = False
    if k % 4 == 1:
        c.n_imports = (1, 2)
        c.p_import_chain, c.p_transitive_ref, c.p_subdir = 0.5, 0.3, 0.5
    if k % 5 == 0:
        c.name_prefix, c.packing = 0.8, 0.5
    if k % 4 == 3:
        c.extensible = False   # more traditional schemas: the -O modes (and -O -F name lists) apply to them only
    return c


def worker(ctx):
    res = ctx.res
    cache_coherence.install()
    contracts.install()
    if ctx.quick:
        n_cases = ctx.per_shard(64)
        ctx.set_budget(240)
    else:
        n_cases = ctx.per_shard(800)
        ctx.set_budget(3300)
    prev = None  # (root, paths) of the previous case, for interleavings
    for k in range(n_cases):
        if ctx.out_of_time():
            break
        case_id = ctx.shard + k * ctx.nshards
        rng = ctx.rng("case", case_id)
        if ctx.replay is not None:
            case_id = ctx.replay["witness"]["case"]
            rng = __import__("random").Random(f"{ctx.replay['seed']}:C18:{ctx.replay['witness']['shard']}:case:{case_id}")
        root = gen.gen_schema(rng, cfg_for(rng, case_id))
        top = ctx.casedir(case_id)
        src = os.path.join(top, "src")
        os.makedirs(src)
        wit = {"case": case_id, "shard": ctx.shard}
        try:
            paths = write_schema(root, src, rng=rng, semi=0.3, comments=0.3, blanks=0.2, path_style="random", compact=0.2)
            wit["schema"] = pycommon.describe(root, paths)
            main = paths[root.basename]
            trad = not is_extensible_anywhere(root)
            modes = [(l, False) for l in LANGS] + ([("c", True), ("go", True)] if trad else [])

            def cli_variant(name, lang, opt, outdir, file_arg, cwd, hashseed, quiet):
                os.makedirs(os.path.join(cwd, outdir), exist_ok=True)
                args = [lang, file_arg, outdir] + (["-O"] if opt else []) + (["-q"] if quiet else [])
                rc, out, err = sut_compiler.cli(args, cwd=cwd, hashseed=hashseed)
                res.count("cli_compilations")
                if rc != 0:
                    return None
                return digest_dir(os.path.join(cwd, outdir))

            # a SIBLING schema that imports the same files under other names is compiled BEFORE this schema's first compilation in this
            # process (every second case with imports): if anything about an imported file is remembered across compilations, the in-process
            # reference below is already contaminated and the fresh CLI processes disagree with it
            if root.imports and case_id % 2 == 0:
                import posixpath
                lines = [f"proto sibling_of_{root.proto_name}"]
                for k2, imp in enumerate(root.imports):
                    sp = imp.path_text or posixpath.relpath(imp.file.relpath, start=root.subdir or ".")
                    lines.append(f'import "{sp}"' if imp.as_name else f'import other_name_{k2} "{sp}"')
                lines.append("message SiblingOnly { bool a = 1 }")
                sib = os.path.join(os.path.dirname(main), "sibling_schema.bitproto")
                with open(sib, "w") as fh:
                    fh.write("\n".join(lines) + "\n")
                try:
                    sp_ = sut_compiler.parse_file(sib)
                    sdir = os.path.join(top, "sibling-out")
                    for l2 in LANGS:
                        os.makedirs(os.path.join(sdir, l2))
                        sut_compiler.render_file(sp_, l2, os.path.join(sdir, l2))
                    res.count("sibling_compilations")
                except Exception as e:
                    if type(e).__module__.startswith("bitproto"):
                        res.count("sibling_schema_rejected")   # e.g. two imports binding one name: not this check's business
                    else:
                        raise
                finally:
                    os.unlink(sib)
            # reference: in-process compilation of the main file (first compilation of this schema in this process)
            ref_dig = {}
            try:
                for (lang, opt) in modes:
                    od = os.path.join(top, f"ref-{lang}-{int(opt)}")
                    os.makedirs(od)
                    proto = sut_compiler.parse_file(main, traditional=opt)
                    sut_compiler.render_file(proto, lang, od, optimize=opt)
                    ref_dig[(lang, opt)] = digest_dir(od)
            except Exception as e:
                harness.compile_failed(res, e, wit)
                continue
            res.case(gen.is_nontrivial(gen.schema_signature(root)), wit["schema"])
            res.sample({"schema": wit["schema"], "modes": [f"{l}{' -O' if o else ''}" for l, o in modes]}, 2)

            def compare(name, lang, opt, dig):
                res.count("variants_compared")
                res.observe("variant_kinds", name.split(":")[0])
                if dig is None:
                    res.violation("nondeterministic-acceptance", f"variant {name} ({lang}{' -O' if opt else ''}) failed although the reference compilation succeeded", {**wit, "variant": name})
                    return
                if dig != ref_dig[(lang, opt)]:
                    diff = sorted(n for n in set(dig) | set(ref_dig[(lang, opt)]) if dig.get(n) != ref_dig[(lang, opt)].get(n))
                    res.violation(f"nondeterministic-output:{name.split(':')[0]}", f"variant {name} ({lang}{' -O' if opt else ''}) produced different bytes in {diff}",
                                  {**wit, "variant": name, "lang": lang, "optimize": opt, "files": diff})

            # ---- fresh processes ---------------------------------------------------
            rel = os.path.relpath(main, top)
            for vi, (lang, opt) in enumerate(modes):
                seeds = ["0", "1", "2", "random"] if not ctx.quick else [["0", "random"], ["1", "random"], ["2", "random"]][(case_id + vi) % 3]
                for hs in seeds:
                    od = os.path.join(top, f"cli-{lang}-{int(opt)}-hs{hs}")
                    compare(f"hashseed:{hs}", lang, opt, cli_variant("hs", lang, opt, od, main, top, hs, False))
                od = os.path.join(top, f"cli-{lang}-{int(opt)}-rel")
                compare("relative-path-and-cwd", lang, opt, cli_variant("rel", lang, opt, os.path.relpath(od, top), rel, top, "0", False))
                od = os.path.join(top, f"cli-{lang}-{int(opt)}-q", "deeper", "dir")
                compare("quiet-and-other-outdir", lang, opt, cli_variant("q", lang, opt, od, main, src, "3", True))
                if root.imports and vi == (case_id % len(modes)):
                    # a working directory that holds DIFFERENT files under every relative import path the schema uses
                    # (and under the bare file names): a resolution that consults the cwd finds the decoy
                    import posixpath
                    decoy = os.path.join(top, f"decoy-{lang}-{int(opt)}", "d1", "d2", "d3", "d4")
                    os.makedirs(decoy)
                    for g in root.all_files():
                        for imp in g.imports:
                            spellings = {posixpath.relpath(imp.file.relpath, start=g.subdir or "."), imp.file.filename, imp.file.relpath}
                            for sp in spellings:
                                dp = os.path.normpath(os.path.join(decoy, sp))
                                os.makedirs(os.path.dirname(dp), exist_ok=True)
                                with open(dp, "w") as fh:
                                    fh.write(f"proto {imp.file.proto_name}\nmessage DecoyOnly {{ uint7 decoy = 1 }}\n")
                    res.count("decoy_cwd_variants")
                    od = os.path.join(top, f"cli-{lang}-{int(opt)}-decoy")
                    compare("decoy-files-in-cwd", lang, opt, cli_variant("decoy", lang, opt, od, main, decoy, "4", False))
                if vi == (case_id + 1) % len(modes):
                    # an output directory that already holds files under the names about to be written: the output of an older schema
                    # version (longer, shorter, with other non-ASCII text), an identical file, an empty file
                    od = os.path.join(top, f"cli-{lang}-{int(opt)}-stale")
                    os.makedirs(od)
                    stale_kind = ["longer", "shorter", "identical-plus-tail", "empty", "longer-non-ascii"][case_id % 5]
                    for name in sorted(ref_dig[(lang, opt)]):   # exactly the files this compilation writes (imported files are compiled separately)
                        if True:
                            refp = os.path.join(top, f"ref-{lang}-{int(opt)}", name)
                            cur = open(refp, encoding="utf-8").read() if os.path.exists(refp) else ""
                            text = {"longer": cur + "\n// older output, longer than today's\n" * 40,
                                    "shorter": cur[: max(0, len(cur) // 3)],
                                    "identical-plus-tail": cur + "x",
                                    "empty": "",
                                    "longer-non-ascii": "// \u00e9\u4e2d\u6587 \U0001f600 older output\n" * 30 + cur + "\u00e9" * 50}[stale_kind]
                            with open(os.path.join(od, name), "w", encoding="utf-8") as fh:
                                fh.write(text)
                    res.count("stale_outdir_variants")
                    compare("output-directory-holds-older-output:" + stale_kind, lang, opt, cli_variant("stale", lang, opt, od, main, top, "0", False))
                if opt and (lang == "c" or case_id % 3 == 0):
                    # options that take a LIST of names: -O -F with every message name (and an unknown one), across hash seeds
                    from vlib.model import messages_of as _mo
                    names = [mm.name for mm in _mo(root)] + ["NoSuchMessage"]
                    rng.shuffle(names)
                    digs = []
                    for hs in ["0", "2", "3", "random"] + ([] if ctx.quick else ["1", "random", "random"]):
                        od = os.path.join(top, f"cli-{lang}-F-hs{hs}-{len(digs)}")
                        os.makedirs(od, exist_ok=True)
                        rc, out, err = sut_compiler.cli([lang, main, od, "-O", "-F", ",".join(names)], cwd=top, hashseed=hs)
                        res.count("cli_compilations")
                        digs.append(digest_dir(od) if rc == 0 else None)
                    res.count("filter_list_variants")
                    res.count("variants_compared")
                    if any(dg != digs[0] for dg in digs):
                        res.violation("nondeterministic-output:filter-list-and-hashseed", f"`{lang} -O -F {','.join(names)}` produces different bytes (or fails) under different PYTHONHASHSEED",
                                      {**wit, "variant": "filter-list", "lang": lang, "names": names})
                if vi == 0:
                    # default output directory (next to the schema) from another cwd
                    rc, out, err = sut_compiler.cli([lang, os.path.relpath(main, "/")], cwd="/", hashseed="5")
                    res.count("cli_compilations")
                    beside = os.path.dirname(main)
                    compare("default-outdir", lang, opt, digest_dir(beside) if rc == 0 else None)
                    for n in list(os.listdir(beside)):
                        if "_bp." in n:
                            os.unlink(os.path.join(beside, n))
            # ---- same process: repeated and interleaved -----------------------------
            for rep in range(2):
                for (lang, opt) in (modes if rep == 0 else list(reversed(modes))):
                    od = os.path.join(top, f"again{rep}-{lang}-{int(opt)}")
                    os.makedirs(od)
                    proto = sut_compiler.parse_file(main, traditional=opt)
                    sut_compiler.render_file(proto, lang, od, optimize=opt)
                    compare(f"in-process-repeat:{rep}", lang, opt, digest_dir(od))
            # one parse rendered for every language, in both orders
            proto = sut_compiler.parse_file(main)
            for order, ls in (("fwd", LANGS), ("rev", list(reversed(LANGS)))):
                for lang in ls:
                    od = os.path.join(top, f"shared-{order}-{lang}")
                    os.makedirs(od)
                    sut_compiler.render_file(proto, lang, od)
                    compare(f"one-parse-many-renders:{order}", lang, False, digest_dir(od))
            # after an earlier compilation that may leave something behind (pending comments, options, open scopes, a failure)
            for j in range(2 if ctx.quick else 4):
                rname, rtext = RESIDUE[(case_id * 2 + j) % len(RESIDUE)]
                rdir = os.path.join(top, f"residue-{j}")
                os.makedirs(rdir)
                rpath = os.path.join(rdir, "residue.bitproto")
                with open(rpath, "w") as fh:
                    fh.write(rtext)
                lang, opt = modes[(case_id + j) % len(modes)]
                try:
                    rp = sut_compiler.parse_file(rpath)
                    for l2 in LANGS:
                        os.makedirs(os.path.join(rdir, l2))
                        sut_compiler.render_file(rp, l2, os.path.join(rdir, l2))
                    res.count("residue_compilations_succeeded")
                except Exception as e:
                    if not type(e).__module__.startswith("bitproto") and not isinstance(e, OSError):
                        raise
                    res.count("residue_compilations_failed_as_intended")
                od = os.path.join(top, f"after-residue-{j}")
                os.makedirs(od)
                try:
                    proto = sut_compiler.parse_file(main, traditional=opt)
                    sut_compiler.render_file(proto, lang, od, optimize=opt)
                    dig = digest_dir(od)
                except Exception as e:
                    if not type(e).__module__.startswith("bitproto"):
                        raise
                    dig = None
                res.count("after_residue_variants")
                compare(f"after-earlier-compilation:{rname}", lang, opt, dig)
            # interleaved with the previous schema: parse A, parse B, render A, render B
            if prev is not None and os.path.exists(prev):
                try:
                    pa = sut_compiler.parse_file(main)
                    pb = sut_compiler.parse_file(prev)
                    for lang in LANGS:
                        oa, ob = os.path.join(top, f"inter-a-{lang}"), os.path.join(top, f"inter-b-{lang}")
                        os.makedirs(oa), os.makedirs(ob)
                        sut_compiler.render_file(pb, lang, ob)
                        sut_compiler.render_file(pa, lang, oa)
                        compare("interleaved-with-other-schema", lang, False, digest_dir(oa))
                except Exception as e:
                    res.violation("nondeterministic-acceptance", f"interleaved compilation raised {type(e).__name__}: {e}", wit)
            # keep this schema's sources for the next case's interleaving
            keep = os.path.join(ctx.tmp, "prev-src")
            shutil.rmtree(keep, ignore_errors=True)
            shutil.copytree(src, keep)
            for dp, _, fns in os.walk(keep):  # absolute import paths must follow the copy
                for fn in fns:
                    if fn.endswith(".bitproto"):
                        t = open(os.path.join(dp, fn)).read()
                        if os.path.abspath(src) in t:
                            open(os.path.join(dp, fn), "w").write(t.replace(os.path.abspath(src), os.path.abspath(keep)))
            prev = os.path.join(keep, os.path.relpath(main, src))
        finally:
            shutil.rmtree(top, ignore_errors=True)
        if ctx.replay is not None:
            break
    for p in cache_coherence.PROBLEMS:
        res.violation("cache-incoherent", p, {"problem": p})
    for name, n in cache_coherence.COUNTS.items():
        res.count("cache_checks:" + name, n)
    res.count("cache_checks_total", sum(cache_coherence.COUNTS.values()))


if __name__ == "__main__":
    harness.main(
        "C18", "props.C18", worker,
        rule=("case = generated valid schema; reference = first in-process compilation (c, go, py; c -O and go -O when traditional); variants: "
              "fresh CLI processes with PYTHONHASHSEED 0/1/2/random, relative path + other cwd, -q + other output directory, a cwd holding different "
              "files under every relative import path of the schema (decoys), an output directory that already holds older/other files under the same names, default output "
              "directory; in-process repeats in forward and reverse language order, one parse rendered for all languages in both orders, "
              "parse A/parse B/render B/render A interleaving with the previous schema; compilation right after an earlier compilation chosen to leave state "
              "behind (file ending in a comment with/without newline, comment after the last brace, name-changing options, every definition kind, "
              "and compilations that fail inside a message/enum/string/import or at an illegal character); sha256 of every generated file compared; the "
              "cache-coherence monitor recomputes every memoised AST method on every call; non-trivial/distinct as in C01"),
        assumptions=["the generated files are the only observable output that matters (stderr lint text is not compared)"],
        required_counters=["variants_compared", "cli_compilations", "decoy_cwd_variants", "stale_outdir_variants", "filter_list_variants", "sibling_compilations", "after_residue_variants", "residue_compilations_succeeded",
                           "residue_compilations_failed_as_intended"],
    )
