"""C20 - Lint is advisory and diagnostics point at the right line."""
import copy
import hashlib
import os
import re
import shutil

from vlib import gen, harness, sut_compiler, violations
from vlib.emit import Printer
from vlib.gen import GenCfg
from vlib.model import Alias, Arr, Const, Enum, Field, File, Import, Message, Option, Ref, file_of, iter_defs, messages_of, qualified_path
from vlib.monitors import contracts
from props import pycommon
from props.C08 import acceptable_lines

WARN_RE = re.compile(r"warning:\s+(\S+?):L(\d+) (\S+) => ([^\n\x1b]*)")


def conforming_cfg(rng, k):
    c = GenCfg(msg_bits=300, max_fields=5, n_top=(2, 6), max_depth=3, p_nested=0.5)
    # independent of k % 3 (the mode), so that every mode - the invalid one included - also runs with imported files and second-level imports
    c.n_imports = [(0, 0), (1, 1), (2, 2)][rng.randrange(3)]
    c.p_import_chain = 0.6
    c.digit_fields = 0.25  # rate_2, x_1, imu_a_x, crc32: all lower case, all snake_case
    return c


def force_zero_members(root):
    for g in root.all_files():
        for d in iter_defs(g):
            if isinstance(d, Enum) and not any(v == 0 for _, v in d.members):
                d.members[0] = (d.members[0][0], 0) if d.members else ("%s_UNSET" % d.name.upper(), 0)
                if len({v for _, v in d.members}) != len(d.members):
                    d.members = d.members[:1]


def perturb(root, rng):
    """Clear case-convention violations / enums without a zero member, in the MAIN file only (lint reports the file it is run on).
    Returns [(definition, rule)]."""
    out = []
    defs = list(iter_defs(root))
    cands = []
    for d in defs:
        if isinstance(d, (Message, Enum, Alias)):
            cands.append((d, "type-not-pascal"))
        if isinstance(d, Const):
            cands.append((d, "constant-not-upper"))
        if isinstance(d, Enum) and d.members:
            cands.append((d, "enum-member-not-upper"))
            if len(d.members) >= 1:
                cands.append((d, "enum-without-zero"))
        if isinstance(d, Message):
            for f in d.fields:
                cands.append((f, "field-not-snake"))
    rng.shuffle(cands)
    taken = set()
    for d, rule in cands[: rng.randint(1, 4)]:
        if id(d) in taken:
            continue
        taken.add(id(d))
        def pascal(upper_snake_name):
            return "".join(p.capitalize() for p in upper_snake_name.split("_") if p)

        if rule == "type-not-pascal":
            # PascalCase -> all lower snake (alpha_bravo) or UPPER_SNAKE (ALPHA_BRAVO): both clearly not PascalCase
            d.name = re.sub(r"(?<!^)(?=[A-Z])", "_", d.name).lower()
            if "_" not in d.name:
                d.name = d.name + "_x"
            if rng.random() < 0.5:
                d.name = d.name.upper()
                rule = "type-not-pascal:UPPER_SNAKE"
            out.append((d, rule))
        elif rule == "constant-not-upper":
            # (a CLEAR violation has lower-case letters: PascalCase of `V_29600` is `V29600`, still upper case - false alarm of the thorough tier)
            new = d.name.lower() if rng.random() < 0.5 else pascal(d.name)
            if not any(ch.islower() for ch in new):
                new = d.name.lower()
            if not any(ch.islower() for ch in new):
                continue
            d.name = new
            out.append((d, rule))
        elif rule == "enum-member-not-upper":
            k = rng.randrange(len(d.members))
            n0 = d.members[k][0]
            new = n0.lower() if rng.random() < 0.5 else pascal(n0)
            if not any(ch.islower() for ch in new):
                new = n0.lower()
            if not any(ch.islower() for ch in new):
                continue
            d.members[k] = (new, d.members[k][1])
            out.append((("ef#", d, k), rule))
        elif rule == "enum-without-zero":
            vals = [v for _, v in d.members]
            if 0 in vals:
                k = vals.index(0)
                free = next(x for x in range(1, 1 << d.width) if x not in vals) if (1 << d.width) > len(vals) else None
                if free is None:
                    continue
                d.members[k] = (d.members[k][0], free)
            out.append((d, rule))
        else:
            if rng.random() < 0.5 or "_" not in d.name:
                d.name = "".join(p.capitalize() for p in d.name.split("_"))  # snake -> Pascal
            else:
                d.name = d.name.upper()  # snake -> UPPER_SNAKE
                rule = "field-not-snake:UPPER_SNAKE"
            out.append((d, rule))
    return out


def join_first_lines(p: Printer) -> str:
    """`proto x; <second line>` on one line: names on the FIRST line of a file must also get exact columns."""
    lines = p.lines
    if len(lines) < 2 or not lines[0].startswith("proto ") or "//" in lines[0] or not lines[1] or lines[1].startswith(("//", " ")):
        return "\n".join(lines) + "\n"
    shift = len(lines[0].rstrip(";")) + 2
    first = lines[0].rstrip(";") + "; " + lines[1]
    p.lines = [first] + lines[2:]

    def adj(v):
        ln, col = v
        if ln == 2:
            return (1, col + shift)
        return (ln - 1, col) if ln > 2 else v

    p.pos = {k: adj(v) for k, v in p.pos.items()}
    p.close_line = {k: (v - 1 if v > 2 else 1) for k, v in p.close_line.items()}
    p.refs = [(adj((ln, col))[0], adj((ln, col))[1], t, tg) for (ln, col, t, tg) in p.refs]
    return "\n".join(p.lines) + "\n"


def ast_node(proto, d):
    node = proto
    for n in qualified_path(d):
        node = node.members[n]
    return node


def compact_lines(ctx, parse, lint, n):
    """Several offending definitions on ONE source line (line breaks are optional in the language): each of them must still get its own
    warning.  Texts are written directly (the printer puts one definition per line)."""
    res = ctx.res
    W = ["Amber", "Birch", "Cedar", "Dune", "Ember", "Fjord", "Grove", "Heath"]
    for k in range(n):
        rng = ctx.rng("compact", ctx.shard, k)
        rng.shuffle(W)
        cnt = rng.choice([2, 2, 3, 4])
        sep = rng.choice([" ", "  ", "   "])  # (no `;` after a closing brace: the grammar takes it only after statements)
        lines, expect = ["proto compact"], []   # expect: (line number, rule, [offending names])
        kinds = ["enum-without-zero", "type-not-pascal:message", "field-not-snake", "constant-not-upper", "type-not-pascal:alias", "enum-member-not-upper",
                 "type-not-pascal:enum"]
        rng.shuffle(kinds)
        for rule in kinds[:rng.randint(2, 5)]:
            tag = W[len(lines) % len(W)]
            if rule == "enum-without-zero":
                names = [f"{tag}Kind{chr(65 + j)}" for j in range(cnt)]
                text = sep.join(f"enum {nm} : uint3 {{ {tag.upper()}_{chr(65 + j)}_ONE = {j + 1} }}" for j, nm in enumerate(names))
            elif rule == "type-not-pascal:message":
                names = [f"{tag.lower()}_msg_{chr(97 + j)}" for j in range(cnt)]
                text = sep.join(f"message {nm} {{ uint3 a = 1 }}" for nm in names)
            elif rule == "type-not-pascal:enum":
                names = [f"{tag.lower()}_enum_{chr(97 + j)}" for j in range(cnt)]
                text = sep.join(f"enum {nm} : uint3 {{ {tag.upper()}_E{chr(65 + j)}_ZERO = 0 }}" for j, nm in enumerate(names))
            elif rule == "field-not-snake":
                names = [f"Bad{tag}{chr(65 + j)}" for j in range(cnt)]
                text = f"message {tag}Holder {{ " + "; ".join(f"uint3 {nm} = {j + 1}" for j, nm in enumerate(names)) + " }"
            elif rule == "constant-not-upper":
                names = [f"{tag.lower()}_const_{chr(97 + j)}" for j in range(cnt)]
                text = "; ".join(f"const {nm} = {j + 1}" for j, nm in enumerate(names))
            elif rule == "type-not-pascal:alias":
                names = [f"{tag.lower()}_alias_{chr(97 + j)}" for j in range(cnt)]
                text = "; ".join(f"type {nm} = uint{j + 2}" for j, nm in enumerate(names))
            else:
                names = [f"{tag.lower()}_member_{chr(97 + j)}" for j in range(cnt)]
                text = f"enum {tag}Members : uint4 {{ {tag.upper()}_M_ZERO = 0; " + "; ".join(f"{nm} = {j + 1}" for j, nm in enumerate(names)) + " }"
            lines.append(text)
            expect.append((len(lines), rule, names))
        text = "\n".join(lines) + "\n"
        d = ctx.casedir(f"compact{k}")
        wit = {"part": "compact-lines", "k": k, "shard": ctx.shard, "schema": {"compact.bitproto": text}}
        try:
            path = os.path.join(d, "compact.bitproto")
            with open(path, "w") as fh:
                fh.write(text)
            try:
                with sut_compiler.quiet_stderr():
                    proto = parse(path)
                with sut_compiler.quiet_stderr() as buf:
                    lint(proto)
            except Exception as e:
                res.violation("lint-case-rejected", f"[compact] {type(e).__name__}: {str(e)[:200]}", wit)
                continue
            warnings = [(os.path.basename(f), int(ln), tok, msg) for f, ln, tok, msg in WARN_RE.findall(buf.getvalue())]
            if not warnings:
                res.inconclusive.append("no recognisable lint warning for a schema full of violations (diagnostic format changed?)")
                continue
            named = any(tok in nm_list for (_, _, tok, _) in warnings for (_, _, nm_list) in expect)
            for (ln, rule, names) in expect:
                here = [w for w in warnings if w[0] == "compact.bitproto" and w[1] == ln and "ndent" not in w[3]]
                res.count("compact_line_definitions_checked", len(names))
                missing = [nm for nm in names if not any(w[2] == nm for w in here)] if named else []
                if len(here) < len(names) or missing:
                    res.violation("lint-missing-warning:" + rule.split(":")[0] + ":several-on-one-line",
                                  f"{len(names)} definitions on compact.bitproto:L{ln} break `{rule}`, {len(here)} warnings cite that line" +
                                  (f"; none names {missing}" if missing else ""), {**wit, "line": ln, "rule": rule, "names": names, "warnings": here[:8]})
        finally:
            shutil.rmtree(d, ignore_errors=True)


def warning_counts(ctx):
    """check-only mode exits non-zero for ANY positive number of warnings - also for 255, 256, 257, 512 (an exit status has 8 bits)."""
    res = ctx.res
    d = ctx.casedir("counts")
    try:
        for n in (0, 1, 255, 256, 257, 512):
            path = os.path.join(d, f"count{n}.bitproto")
            with open(path, "w") as fh:
                fh.write("proto counts\n" + "".join(f"const lower_case_{k} = {k}\n" for k in range(n)) + "message Holder {\n    bool flag = 1\n}\n")
            rc, so, se = sut_compiler.cli(["-c", path])
            printed = len(WARN_RE.findall(se + so))
            res.count("check_only_runs_by_warning_count")
            if printed != n:
                res.inconclusive.append(f"{n} lower-case constants gave {printed} recognisable warnings (diagnostic format changed?)")
                continue
            if (rc != 0) != (n > 0):
                res.violation("check-only-exit-status:by-count", f"-c exits {rc} for a schema with {n} warnings", {"part": "warning-counts", "warnings": n, "exit": rc})
    finally:
        shutil.rmtree(d, ignore_errors=True)


def worker(ctx):
    res = ctx.res
    contracts.install()
    parse, _, render, lint, errors = sut_compiler.bitproto_api()
    if ctx.shard == 0 and (ctx.replay is None or ctx.replay["witness"].get("part") == "warning-counts"):
        warning_counts(ctx)
        if ctx.replay is not None:
            return
    if ctx.replay is None or ctx.replay["witness"].get("part") == "compact-lines":
        compact_lines(ctx, parse, lint, 12 if ctx.quick else 200)
        if ctx.replay is not None:
            return
    if ctx.quick:
        n_cases, cli_every = ctx.per_shard(960), 6
        ctx.set_budget(240)
    else:
        n_cases, cli_every = ctx.per_shard(24000), 8
        ctx.set_budget(3300)
    names = sorted(violations.CATALOGUE)
    for k in range(n_cases):
        if ctx.out_of_time():
            break
        case_id = ctx.shard + k * ctx.nshards
        rng = ctx.rng("case", case_id)
        if ctx.replay is not None:
            case_id = ctx.replay["witness"]["case"]
            rng = __import__("random").Random(f"{ctx.replay['seed']}:C20:{ctx.replay['witness']['shard']}:case:{case_id}")
        root = gen.gen_schema(rng, conforming_cfg(rng, case_id))
        force_zero_members(root)
        mode = ["conforming", "perturbed", "invalid"][case_id % 3]
        perturbed, inj = [], None
        if mode == "perturbed":
            perturbed = perturb(root, rng)
        elif mode == "invalid":
            entry = names[(case_id // 3) % len(names)]
            try:
                inj = violations.CATALOGUE[entry](root, rng)
            except Exception:
                inj = None
            if inj is None or inj.accept:
                mode = "conforming" if inj is None else "valid-twin"
        typedefs = []
        if mode in ("conforming", "perturbed") and rng.random() < 0.3:
            # the deprecated spelling `typedef <type> <Name>`: accepted, with a warning that must say where
            for dd in root.items:
                if isinstance(dd, Alias) and rng.random() < 0.6:
                    dd.typedef_syntax = True
                    typedefs.append(dd)
        d = ctx.casedir(case_id)
        wit = {"case": case_id, "shard": ctx.shard, "mode": mode}
        try:
            printers, texts = {}, {}
            for g in root.all_files():
                p = Printer(g, rng=rng, comments=0.4, blanks=0.4, semi=0.3, typedef=0.0)
                p.render()
                texts[g.filename] = join_first_lines(p) if (g is root and case_id % 2 == 0) else "\n".join(p.lines) + "\n"
                printers[g.basename] = p
            subdirs = {g.filename: g.subdir for g in root.all_files()}
            os.makedirs(os.path.join(d, "sub"), exist_ok=True)
            for fn, t in texts.items():
                os.makedirs(os.path.join(d, subdirs.get(fn, "")), exist_ok=True)
                with open(os.path.join(d, subdirs.get(fn, ""), fn), "w") as fh:
                    fh.write(t)
            with open(os.path.join(d, "okimport.bitproto"), "w") as fh:
                fh.write("proto okimport\nmessage OkImported { bool a = 1 }\n")
            wit["schema"] = texts
            main = os.path.join(d, root.filename)
            res.case(True, texts)
            res.sample({"mode": mode, "schema": texts}, 2)
            res.count("mode:" + mode)
            # ---- parse ---------------------------------------------------------------------
            err = None
            try:
                with sut_compiler.quiet_stderr() as pbuf:
                    proto = parse(main)
            except errors.ParserError as e:
                err = e
            except Exception as e:
                res.violation(f"parse-internal:{type(e).__name__}", f"parse raised {type(e).__name__}: {e}", wit)
                continue
            if mode == "invalid":
                if err is None:
                    res.count("invalid_accepted_judged_by_C08")
                else:
                    ok = acceptable_lines(inj, printers)
                    cited = (os.path.basename(err.filepath or ""), err.lineno)
                    res.count("error_lines_checked")
                    if ok and cited not in ok:
                        res.violation("error-wrong-line:" + inj.kind.split(":")[0], f"[{inj.kind}] {type(err).__name__} cites {cited[0]}:L{cited[1]}, the offending construct is at {sorted(ok)[:5]}",
                                      {**wit, "kind": inj.kind, "cited": cited, "acceptable": sorted(ok)})
                if case_id % cli_every == 0:
                    rc, so, se = sut_compiler.cli(["-c", main])
                    res.count("check_only_runs")
                    if (rc != 0) != (err is not None):
                        res.violation("check-only-exit-status", f"-c exits {rc} for a schema with a parser error", {**wit, "stderr": se[-300:]})
                continue
            if err is not None:
                res.violation("lint-case-rejected", f"[{mode}] schema rejected: {type(err).__name__}: {str(err)[:200]}", wit)
                continue
            # ---- positions of definitions and references ---------------------------------------
            P = printers[root.basename]
            if typedefs:
                said = [l for l in pbuf.getvalue().splitlines() if "syntax warning" in l]
                res.count("typedef_warnings_checked", len(typedefs))
                for dd in typedefs:
                    ln = P.pos[id(dd)][0]
                    if not any(re.search(r"%s:L%d\b" % (re.escape(root.filename), ln), l) for l in said):
                        res.violation("syntax-warning-without-position", f"`typedef` at {root.filename}:L{ln} ({dd.name}): no warning cites that file and line (printed: {said[:2]})",
                                      {**wit, "line": ln, "printed": said[:4]})
            bad_pos = []
            for dd in iter_defs(root):
                node = ast_node(proto, dd)
                items = [(dd, node)]
                if isinstance(dd, Message):
                    items += [(f, node.members[f.name]) for f in dd.fields]
                    items += [(o, node.members[o.name]) for o in dd.items if isinstance(o, Option)]
                for md, an in items:
                    res.count("definition_positions_checked")
                    want = P.pos[id(md)]
                    got = (an.lineno, an.token_col_start)
                    if got != want:
                        bad_pos.append((getattr(md, "name", "?"), got, want))
                if isinstance(dd, Enum):
                    for idx, (mn, mv) in enumerate(dd.members):
                        res.count("definition_positions_checked")
                        an = node.members[mn]
                        want = P.pos[("ef#", id(dd), idx)]
                        if (an.lineno, an.token_col_start) != want:
                            bad_pos.append((mn, (an.lineno, an.token_col_start), want))
            for o in root.items:
                if isinstance(o, Option):
                    res.count("definition_positions_checked")
                    an = proto.members[o.name]
                    if (an.lineno, an.token_col_start) != P.pos[id(o)]:
                        bad_pos.append((o.name, (an.lineno, an.token_col_start), P.pos[id(o)]))
            if bad_pos:
                first_line = all(w[0] == 1 for _, _, w in bad_pos)
                res.violation("definition-position" + (":first-line" if first_line else ""),
                              f"(line, column) of name tokens differ from the source text: {bad_pos[:4]} (name, recorded, actual)", {**wit, "positions": bad_pos[:10]})
            want_refs = sorted((ln, col, t) for (ln, col, t, tg) in P.refs)
            got_refs = sorted((r.lineno, r.token_col_start, r.token) for r in proto.references if os.path.basename(r.filepath) == root.filename)
            res.count("reference_positions_checked", len(want_refs))
            if want_refs != got_refs:
                missing = [x for x in want_refs if x not in got_refs][:4]
                extra = [x for x in got_refs if x not in want_refs][:4]
                res.violation("reference-position", f"recorded references differ from the source text: in text but not recorded {missing}; recorded but not in text {extra}",
                              {**wit, "missing": missing, "extra": extra})
            # ---- lint ---------------------------------------------------------------------------
            with sut_compiler.quiet_stderr() as buf:
                try:
                    n_warn = lint(proto)
                except Exception as e:
                    res.violation(f"lint-internal:{type(e).__name__}", f"lint raised {type(e).__name__}: {e}", wit)
                    continue
            warnings = [(os.path.basename(f), int(ln), tok, msg) for f, ln, tok, msg in WARN_RE.findall(buf.getvalue())]
            res.count("lint_runs")
            if n_warn > 0 and not warnings and "warning" not in buf.getvalue():
                res.inconclusive.append("lint() reports warnings but nothing recognisable was printed (diagnostic format changed?)")
                continue
            if n_warn != len(warnings):
                res.violation("lint-count", f"lint() returned {n_warn} but printed {len(warnings)} warnings", {**wit, "stderr": buf.getvalue()[-600:]})
            all_warnings = list(warnings)
            joined = (case_id % 2 == 0)
            if joined:
                # `proto x; <statement>` on one line exists to test first-line columns; a statement that does not start its
                # line is not "4-space indentation", so an indent warning about line 1 is not a false warning
                warnings = [w for w in warnings if not (w[1] == 1 and "ndent" in w[3])]
            if mode in ("conforming", "valid-twin"):
                res.count("conforming_linted")
                if mode == "conforming" and warnings:
                    res.violation("lint-false-warning", f"style-conforming schema produces warnings: {warnings[:3]}", {**wit, "warnings": warnings[:8]})
            else:
                lines_warned = {(f, ln) for f, ln, _, _ in warnings}
                for target, rule in perturbed:
                    key = ("ef#", id(target[1]), target[2]) if isinstance(target, tuple) else id(target)
                    ln = P.pos[key][0]
                    res.count("perturbations_checked")
                    res.count("perturbations:" + rule)
                    if (root.filename, ln) not in lines_warned:
                        res.violation("lint-missing-warning:" + rule, f"{rule} at {root.filename}:L{ln} produces no warning citing that line (warnings: {warnings[:4]})",
                                      {**wit, "rule": rule, "line": ln, "warnings": warnings[:8]})
                bad_files = [w for w in warnings if w[0] != root.filename]
                if bad_files:
                    res.violation("lint-wrong-file", f"warnings cite another file: {bad_files[:3]}", wit)
            # ---- lint is advisory: same files with and without; -c exit status ----------------------
            if case_id % cli_every == 0:
                o1, o2 = os.path.join(d, "o1"), os.path.join(d, "o2")
                os.makedirs(o1), os.makedirs(o2)
                lang = ["c", "py", "go"][(case_id // cli_every) % 3]
                r1 = sut_compiler.cli([lang, main, o1])
                r2 = sut_compiler.cli([lang, main, o2, "-q"])
                res.count("advisory_pairs_compared")
                h = lambda dd: {n: hashlib.sha256(open(os.path.join(dd, n), "rb").read()).hexdigest() for n in sorted(os.listdir(dd))}
                if r1[0] != r2[0] or h(o1) != h(o2) or r1[0] != 0:
                    res.violation("lint-not-advisory", f"with lint: exit {r1[0]} files {sorted(os.listdir(o1))}; with -q: exit {r2[0]} files {sorted(os.listdir(o2))}", wit)
                rc, so, se = sut_compiler.cli(["-c", main])
                res.count("check_only_runs")
                want_fail = len(all_warnings) > 0 or len(typedefs) > 0
                if (rc != 0) != want_fail:
                    key = "check-only-exit-status"
                    if rc == 0 and not all_warnings and typedefs:
                        key = "check-only-exit-status:typedef-deprecation-only"  # known finding
                    res.violation(key, f"-c exits {rc} with {len(all_warnings)} lint warnings, {len(typedefs)} typedef deprecation warnings and no error", {**wit, "stderr": se[-300:]})
        finally:
            shutil.rmtree(d, ignore_errors=True)
        if ctx.replay is not None:
            break


if __name__ == "__main__":
    harness.main(
        "C20", "props.C20", worker,
        rule=("case = generated style-conforming schema (4-space indentation, PascalCase/snake_case/UPPER_CASE, zero member in every enum) printed with heavy "
              "comment/blank-line/semicolon noise, every second case with `proto x; <next statement>` joined on the first line; three modes: conforming (no "
              "warning allowed), perturbed (1-4 clear violations: PascalCase->lower_snake type names, snake->Pascal field, lower-case constant/enum member, "
              "enum without zero; each must be warned about at its file:line) and invalid (one entry of the C08 violation catalogue: the parser error must "
              "cite a line of the offending construct); always: (line, column) of every definition, field, option, enum member and of every recorded "
              "reference equal the position of the name token in the text; lint() count = printed warnings; on a sample the CLI output with and without "
              "-q is byte-identical and -c exits non-zero exactly when there is an error or a warning"),
        assumptions=["only clear case violations are asserted to warn; nothing is asserted about indentation warnings except that conforming files have none",
                     "columns are 1-based (language server contract)"],
        required_counters=["check_only_runs_by_warning_count", "compact_line_definitions_checked", "definition_positions_checked", "reference_positions_checked", "lint_runs", "conforming_linted", "perturbations_checked",
                           "error_lines_checked", "advisory_pairs_compared", "check_only_runs", "perturbations:type-not-pascal", "perturbations:type-not-pascal:UPPER_SNAKE", "perturbations:field-not-snake", "perturbations:field-not-snake:UPPER_SNAKE",
                           "perturbations:constant-not-upper", "perturbations:enum-member-not-upper", "perturbations:enum-without-zero"],
    )
