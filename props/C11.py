"""C11 - Names resolve to the innermost visible earlier definition."""
import os
import shutil
import traceback

from vlib import gen, harness, ref, sut_compiler, sut_py
from vlib.emit import Printer, ScopeTable, members_of, resolve
from vlib.model import Alias, Arr, Base, Const, Enum, Field, File, Import, Message, Ref, file_of, iter_defs, messages_of, qualified_path
from vlib.monitors import contracts
from props import pycommon

TYPE_NAMES = ["Alpha", "Bravo", "Cargo", "Delta"]
FIELD_NAMES = ["alt", "bias", "cell", "dose", "edge", "fuel", "gain", "hue", "item", "jolt", "knob", "lane", "mass", "nib", "ohm", "port",
               "qty", "rate", "seq", "tag", "unit", "vol", "watt", "axis", "yaw", "zeta", "idx", "kind", "mode", "node"]
CONST_NAMES = ["LEN", "CAP", "NUM"]


class ShadowGen:
    """Builds model + scope tables together, so every reference text is chosen first and its meaning computed by the
    documented rule (emit.resolve) at that exact point of the text."""

    def __init__(self, rng, res):
        self.rng = rng
        self.res = res
        self.width = 0
        self.member_seq = 0
        self.unjudged = 0
        self.refs = []  # (field, text, target)

    def next_width(self):
        self.width += 1
        return self.width  # every enum has its own width: a wrong binding changes the layout

    def new_enum(self, name, parent):
        w = self.next_width()
        self.member_seq += 1
        vals = sorted({0, (1 << w) - 1, self.rng.getrandbits(w)})
        if self.rng.random() < 0.15:
            vals = []   # an enum without fields is a definition like any other (the language guide's own scoping example uses them)
            self.res.count("enums_without_fields")
        return Enum(name, w, [(f"E{self.member_seq}_V{k}", v) for k, v in enumerate(vals)], parent=parent)

    def candidates(self, chain, f):
        """Plausible reference texts at this point: every visible simple name and dotted paths below it."""
        out = []
        for table in chain:
            for n, d in table.names.items():
                if isinstance(d, (Enum, Message, Alias)):
                    out.append(n)
                if isinstance(d, (Message, File)):
                    for n2, d2 in members_of(d).items():
                        if isinstance(d2, (Enum, Message, Alias)):
                            out.append(f"{n}.{n2}")
                        if isinstance(d2, Message):
                            for n3, d3 in members_of(d2).items():
                                if isinstance(d3, (Enum, Message)):
                                    out.append(f"{n}.{n2}.{n3}")
        return sorted(set(out))

    def add_field(self, m, chain, used, number):
        rng = self.rng
        cands = self.candidates(chain, file_of(m))
        if cands and rng.random() < 0.85:
            for _ in range(6):
                text = rng.choice(cands)
                a, b = resolve(chain, text, True), resolve(chain, text, False)
                if a is not b:
                    self.unjudged += 1  # the statement does not say whether lookup continues outward: not judged
                    continue
                if not isinstance(a, (Enum, Message, Alias)):
                    continue
                if isinstance(a, Message) and (a is m or ref.nbits(a) > 3000):
                    continue
                t = Ref(a, forced_path=text)
                if rng.random() < 0.25 and not (isinstance(a, Alias) and isinstance(a.type, Arr)):
                    t = Arr(t, rng.choice([1, 2, 3]))
                fl = Field(rng.choice([n for n in FIELD_NAMES if n not in used]), t, number, parent=m)
                used.add(fl.name)
                m.items.append(fl)
                chain[-1].declare(fl.name, fl)
                self.refs.append((fl, text, a))
                return
        fl = Field(rng.choice([n for n in FIELD_NAMES if n not in used]), Base("uint", rng.randint(1, 9)), number, parent=m)
        used.add(fl.name)
        m.items.append(fl)
        chain[-1].declare(fl.name, fl)

    def fill_message(self, m, chain, depth):
        rng = self.rng
        chain.append(ScopeTable(m))
        used = set()
        local_types = set()
        n_items = rng.randint(2, 6)
        number = 0
        for _ in range(n_items):
            r = rng.random()
            if r < 0.3 and depth < 3:
                name = rng.choice([n for n in TYPE_NAMES if n not in local_types] or [None])
                if name:
                    local_types.add(name)
                    if rng.random() < 0.5:
                        e = self.new_enum(name, m)
                        m.items.append(e)
                        chain[-1].declare(name, e)
                    else:
                        sub = Message(name, parent=m)
                        self.fill_message(sub, chain, depth + 1)
                        m.items.append(sub)
                        chain[-1].declare(name, sub)
                    continue
            number += rng.randint(1, 5)
            self.add_field(m, chain, used, number)
        chain.pop()

    def gen_file(self, pname, imports):
        rng = self.rng
        f = File(pname)
        chain = [ScopeTable(f)]
        pending = list(imports)
        used_top = set()
        for _ in range(rng.randint(3, 7)):
            # imports are legal anywhere at file scope: half of them come after some definitions
            while pending and rng.random() < 0.6:
                g, as_name = pending.pop(0)
                imp = f.add(Import(g, as_name))
                chain[0].declare(imp.bound_name, g)
            avail = [n for n in TYPE_NAMES if n not in used_top]
            if not avail:
                break
            name = rng.choice(avail)
            used_top.add(name)
            r = rng.random()
            if r < 0.3:
                d = f.add(self.new_enum(name, f))
            elif r < 0.4:
                w = self.next_width()
                d = f.add(Alias(name, Base("uint", w)))
            else:
                d = Message(name, parent=f)
                self.fill_message(d, chain, 1)
                f.items.append(d)
            chain[0].declare(name, d)
        for g, as_name in pending:
            imp = f.add(Import(g, as_name))
            chain[0].declare(imp.bound_name, g)
        return f, chain


def ast_definition_key(node):
    return (os.path.basename(node.filepath), node.lineno, node.name)


def worker(ctx):
    res = ctx.res
    contracts.install()
    if ctx.quick:
        n_cases = ctx.per_shard(2400)
        ctx.set_budget(200)
    else:
        n_cases = ctx.per_shard(20000)
        ctx.set_budget(3300)
    for k in range(n_cases):
        if ctx.out_of_time():
            break
        case_id = ctx.shard + k * ctx.nshards
        rng = ctx.rng("case", case_id)
        if ctx.replay is not None:
            case_id = ctx.replay["witness"]["case"]
            rng = __import__("random").Random(f"{ctx.replay['seed']}:C11:{ctx.replay['witness']['shard']}:case:{case_id}")
        sg = ShadowGen(rng, res)
        imports = []
        n_imp = rng.choice([0, 1, 1, 2])
        for j in range(n_imp):
            g, _ = sg.gen_file(f"lib{j}", [])
            imports.append((g, rng.choice([None, f"ns{j}"])))
        root, chain = sg.gen_file("main", imports)
        res.count("unjudged_outward_continuation_candidates", sg.unjudged)
        # a slice with one unresolvable reference appended: must be rejected at that line
        bad_line = None
        bad_file = root
        if case_id % 5 == 3 and root.imports:
            # the reference sits in an IMPORTED file and names something only the importing file declares (before the import):
            # file scope is the outermost scope, so this denotes nothing and must be rejected
            for imp in root.imports:
                before = [it for it in root.items[: root.items.index(imp)] if isinstance(it, (Enum, Message, Alias))]
                lib = imp.file
                victim = next((m for m in lib.items if isinstance(m, Message)), None)
                own = {getattr(it, "name", None) for it in lib.items}
                names = [d.name for d in before if d.name not in own]
                if victim is not None and names:
                    inner = {it.name for it in victim.items}
                    names = [n for n in names if n not in inner]
                    if not names:
                        continue
                    used = {f.name for f in victim.fields}
                    bad = Field(next(n for n in FIELD_NAMES if n not in used), Ref(None, forced_path=rng.choice(names)), 250, parent=victim)
                    victim.items.append(bad)
                    bad_line, bad_file = bad, lib
                    res.count("unresolvable_reference_in_imported_file_cases")
                    break
        if bad_line is None and case_id % 5 == 4:
            victim = next((m for m in root.items if isinstance(m, Message)), None)
            later = [d.name for d in root.items if isinstance(d, (Enum, Message, Alias))]
            if victim is not None:
                cands = [n for n in TYPE_NAMES + [f"{a}.{b}" for a in TYPE_NAMES for b in TYPE_NAMES] + ["ns0.Zulu", "lib0.Zulu", "Alpha.Zulu"]]
                rng.shuffle(cands)
                # evaluate at the end of `victim`: visible = what precedes victim at file scope + victim's own members
                tbl_file = ScopeTable(root)
                for it in root.items:
                    if it is victim:
                        break
                    if isinstance(it, Import):
                        tbl_file.declare(it.bound_name, it.file)
                    elif hasattr(it, "name"):
                        tbl_file.declare(it.name, it)
                tbl_msg = ScopeTable(victim)
                for it in victim.items:
                    tbl_msg.declare(it.name, it)
                for text in cands:
                    if resolve([tbl_file, tbl_msg], text, True) is None and resolve([tbl_file, tbl_msg], text, False) is None:
                        used = {f.name for f in victim.fields}
                        bad = Field(next(n for n in FIELD_NAMES if n not in used), Ref(None, forced_path=text), 250, parent=victim)
                        victim.items.append(bad)
                        bad_line = bad
                        break
        d = ctx.casedir(case_id)
        wit = {"case": case_id, "shard": ctx.shard}
        try:
            printers = {}
            texts = {}
            for g in root.all_files():
                p = Printer(g)
                texts[g.filename] = p.render()
                printers[g.basename] = p
                with open(os.path.join(d, g.filename), "w") as fh:
                    fh.write(texts[g.filename])
            wit["schema"] = texts
            main_path = os.path.join(d, root.filename)
            parse, _, render, _, errors = sut_compiler.bitproto_api()
            if bad_line is not None:
                res.count("unresolvable_reference_cases")
                exp_line = printers[bad_file.basename].pos[id(bad_line)][0]
                try:
                    with sut_compiler.quiet_stderr():
                        parse(main_path)
                    res.violation("unresolvable-accepted", f"reference {bad_line.type.forced_path!r} denotes nothing visible at line {exp_line} but the schema is accepted",
                                  {**wit, "reference": bad_line.type.forced_path, "line": exp_line})
                except errors.ParserError as e:
                    if not isinstance(e, (errors.ReferencedTypeNotDefined, errors.ReferencedNotType)) or e.lineno != exp_line \
                            or os.path.basename(e.filepath) != bad_file.filename:
                        res.violation("unresolvable-wrong-diagnostic", f"expected an undefined-type error at line {exp_line}, got {type(e).__name__} at L{e.lineno}",
                                      {**wit, "reference": bad_line.type.forced_path})
                except Exception as e:
                    res.violation("unresolvable-crash", f"{type(e).__name__}: {e}", wit)
                res.case(True, texts)
                continue
            try:
                with sut_compiler.quiet_stderr():
                    proto = parse(main_path)
            except Exception as e:
                res.violation("shadowing-schema-rejected", f"valid shadowing schema rejected: {type(e).__name__}: {str(e)[:300]}", wit)
                continue
            res.case(len(sg.refs) >= 2, texts)
            res.sample({"schema": texts, "references": [(t, ".".join(qualified_path(a)), file_of(a).filename) for _, t, a in sg.refs[:8]]}, 2)
            # ---- (1) identity of the resolved definition in the parsed AST ---------
            def ast_message(m):
                node = proto
                f = file_of(m)
                if f is not root:
                    imp = next(i for i in root.imports if i.file is f)
                    node = proto.members[imp.bound_name]
                for n in qualified_path(m):
                    node = node.members[n]
                return node

            shadowed = 0
            for (fl, text, target) in sg.refs:
                am = ast_message(fl.parent)  # references inside imported files are judged in the child-parse context
                if file_of(fl) is not root:
                    res.count("references_checked_inside_imported_files")
                af = am.members[fl.name]
                t = af.type
                if isinstance(fl.type, Arr):
                    t = t.element_type
                exp = (file_of(target).filename, printers[file_of(target).basename].pos[id(target)][0], target.name)
                got = ast_definition_key(t)
                res.count("references_checked")
                # how many visible scopes/imports declare the same simple name: shadowing actually exercised
                first = text.split(".")[0]
                n_decl = sum(1 for g in root.all_files() for dd in iter_defs(g) if getattr(dd, "name", None) == first)
                if n_decl >= 2:
                    res.count("references_with_competing_declarations")
                if got != exp:
                    res.violation("wrong-binding", f"{fl.parent.name}.{fl.name}: `{text}` denotes {exp[2]} declared at {exp[0]}:L{exp[1]}, compiler bound it to {got[2]} at {got[0]}:L{got[1]}",
                                  {**wit, "field": fl.name, "reference": text, "expected": exp, "got": got})
                if t.nbits() != ref.nbits(target):
                    res.violation("wrong-binding-width", f"{fl.parent.name}.{fl.name}: `{text}` has {ref.nbits(target)} bits, compiler says {t.nbits()}", {**wit, "field": fl.name})
            # ---- (2) the encoding the field gets -------------------------------------
            try:
                for g in root.all_files():
                    with sut_compiler.quiet_stderr():
                        render(parse(os.path.join(d, g.filename)), "py", outdir=d)
                mods = sut_py.PyModules(d, root)
            except Exception as e:
                res.count("python_unavailable")
                res.observe("python_unavailable_classes", f"{type(e).__name__}: {str(e)[:70]}")
                continue
            try:
                for m in [m for g in root.all_files() for m in messages_of(g)]:
                    if any(isinstance(it.etype, Enum) and not it.etype.members for it in ref.leaves(m)):
                        res.count("layout_probe_skipped_enum_without_fields")   # no in-range value exists for such a leaf (C01's premise); bindings are judged on the AST
                        continue
                    for v in gen.gen_values(rng, m, 4):
                        try:
                            got = bytes(mods.build(m, v).encode())
                        except Exception as e:
                            res.violation("shadow-encode-exception", f"{m.name}: {type(e).__name__}: {e}", {**wit, "message": m.name, "traceback": traceback.format_exc()[-800:]})
                            continue
                        res.count("layouts_compared")
                        if got != ref.encode(m, v):
                            res.violation("wrong-binding-layout", f"{m.name}: encoded layout differs from the layout of the definitions the names denote",
                                          {**wit, "message": m.name, "value": v, "got": got.hex(), "expected": ref.encode(m, v).hex()})
            finally:
                mods.close()
        finally:
            shutil.rmtree(d, ignore_errors=True)
        if ctx.replay is not None:
            break


if __name__ == "__main__":
    harness.main(
        "C11", "props.C11", worker,
        rule=("case = schema built on purpose from four type names reused in file scope, nested scopes (depth <= 3) and 0-2 imported files (own name or "
              "`as` name), every enum/alias with its own width; each reference text (simple or dotted up to 3 components) is chosen first and its "
              "meaning computed by an independent implementation of the documented rule at that point of the text; judged: identity (file, line, name) "
              "of the definition the compiler bound, its width, and the bytes the generated Python encoder gives; every fifth case appends one reference "
              "that denotes nothing visible and must be rejected at its line; references on which 'stop at the innermost declaring scope' and "
              "'continue outward' disagree are counted, not judged; non-trivial = >= 2 judged references"),
        assumptions=["emit.resolve implements the statement's rule; dotted paths whose first component is declared in an inner scope lacking the rest are not judged"],
        required_counters=["references_checked", "references_with_competing_declarations", "layouts_compared", "unresolvable_reference_cases", "unresolvable_reference_in_imported_file_cases", "references_checked_inside_imported_files"],
    )
