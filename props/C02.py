"""C02 - Python decode(encode(v)) == v, and re-encoding reproduces the bytes."""
from vlib import harness
from props import pycommon


def worker(ctx):
    if ctx.quick:
        n_cases, n_values = ctx.per_shard(640), 14
        ctx.set_budget(300)
    else:
        n_cases, n_values = ctx.per_shard(12000), 40
        ctx.set_budget(3000)
    if ctx.replay is not None:
        n_cases = 1
    pycommon.run_cases(ctx, n_cases, n_values, {"roundtrip": True})
    if ctx.replay is None:
        pycommon.run_grids(ctx)


if __name__ == "__main__":
    harness.main(
        "C02", "props.C02", worker,
        rule=("case = generated valid schema compiled by the real compiler and imported; every message is encoded, decoded into a "
              "fresh object (own bytes and reference bytes), compared leaf by leaf and re-encoded, with the decode trace compared "
              "with the reference layout; plus grids: enum member sets x bit offsets, every signed width x {min,-1,max,sign bit}, "
              "extensible array (capacity, element bits) on both sides of cap^2 = 16 + cap*elem, each followed by a field; "
              "non-trivial/distinct as in C01"),
        assumptions=["vlib/ref.py is the specification", "values are in range (enum leaves are declared members)"],
        required_counters=["roundtrips_compared", "reencodes_compared", "grid_enum_cases", "grid_signed_cases", "grid_extarray_cases"],
    )
