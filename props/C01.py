"""C01 - Python encoder emits exactly the specified bit layout."""
from vlib import harness
from props import pycommon


def worker(ctx):
    if ctx.quick:
        n_cases, n_values = ctx.per_shard(320), 16
        ctx.set_budget(240)
    else:
        n_cases, n_values = ctx.per_shard(6000), 40
        ctx.set_budget(2400)
    if ctx.replay is not None:
        n_cases = 1
    pycommon.run_cases(ctx, n_cases, n_values, {"layout": True})


if __name__ == "__main__":
    harness.main(
        "C01", "props.C01", worker,
        rule=("case = generated valid schema (all feature dials) compiled by the real compiler and imported; every message of "
              "every file is encoded for boundary-biased values and compared byte-for-byte with the independent bit-list "
              "reference while the trace monitor watches every bit-copy step; non-trivial = >=2 leaves and (a leaf straddling a "
              "byte boundary or nested/array/alias/extensible/import construct); distinct by sha256 of the schema text"),
        assumptions=["vlib/ref.py is the specification (anchored on README/FAQ examples and upstream golden digests)",
                     "generator reach bounds the claim: held on the executions listed, not for all schemas"],
        required_counters=["encode_compared"],
    )
