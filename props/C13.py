"""C13 - Constants evaluate arithmetically and reach every target language intact."""
import os
import re
import shutil
import subprocess

from vlib import env, gen, harness, sut_compiler, sut_py
from vlib.emit import string_literal
from vlib.monitors import contracts

UPPER = ["ALPHA", "BRAVO", "CARGO", "DELTA", "EMBER", "FLINT", "GAMMA", "HARBOR", "IRIS", "JADE", "KITE", "LUMEN", "METRO", "NOVA", "ORBIT",
         "PIXEL", "QUARTZ", "RIDGE", "SOLAR", "TANGO", "UMBRA", "VECTOR", "WAVE", "XENON", "YARD", "ZEPHYR"]
STRING_ALPHABET = list("abcXYZ019 _-+*/=<>()[]{}.,:;!@#$%^&|~`") + ["'", '"', "\\", "\n", "\t", "\r", "é", "ß", "中", "文", "😀", " ", "%d", "%s", "//", "/*", "*/",
                                                                     "?", "?", "??!", "??/", "??=", "??(", "???", "\x00", "\x01", "\x7f", "\x1b"] + gen.UNICODE_SPECIALS


class Node:
    def __init__(self, text, value, prec):
        self.text, self.value, self.prec = text, value, prec


def gen_expr(rng, consts, depth, stats):
    """Random expression over non-negative literals and earlier integer constants.  Returns Node(text, value, precedence).
    `/` is only generated where both operands are non-negative and the divisor is non-zero (floor and truncation agree)."""
    if depth <= 0 or rng.random() < 0.25:
        r = rng.random()
        if consts and r < 0.35:
            name, v = rng.choice(consts)
            stats["refs"] += 1
            return Node(name, v, 3)
        v = rng.choice([0, 1, 2, 3, 7, 8, 10, 16, 255, 256, 1000, 65535, rng.randint(0, 99), rng.randint(0, 1 << 20), rng.randint(0, 1 << 40)])
        if rng.random() < 0.04:
            v = rng.choice([(1 << 63) - 1, 1 << 63, (1 << 64) - 1, 1 << 64, (1 << 70) + 5])  # masks and limits: around the targets' widest integer types
            stats["literal_around_2^64"] += 1
        if r < 0.6:
            stats["hex"] += 1
            return Node(rng.choice([hex(v), "0x" + format(v, "X"), "0x00" + format(v, "x")]), v, 3)
        return Node(str(v) if rng.random() < 0.9 else "00" + str(v), v, 3)
    op = rng.choices(["+", "-", "*", "/"], [3, 4, 3, 4])[0]
    a = gen_expr(rng, consts, depth - 1, stats)
    b = gen_expr(rng, consts, depth - 1, stats)
    if op == "/" and (a.value < 0 or b.value <= 0):
        op = rng.choice(["+", "-", "*"])
    if op == "*" and abs(a.value * b.value) >= 1 << 62:
        op = "-"
    prec = 1 if op in "+-" else 2
    # parenthesise only where needed for the tree to mean what we computed, plus sometimes redundantly
    at = a.text if a.prec >= prec else f"({a.text})"
    need_b = b.prec < prec or (b.prec == prec and b.prec < 3)  # left-associative: right operand of equal level needs parentheses
    bt = f"({b.text})" if need_b else b.text
    if rng.random() < 0.15:
        at = f"({at})"
    if rng.random() < 0.1:
        bt = f"({bt})"
    if op == "+":
        v = a.value + b.value
    elif op == "-":
        v = a.value - b.value
    elif op == "*":
        v = a.value * b.value
    else:
        v = a.value // b.value
    stats["ops:" + op] += 1
    if a.prec == prec and a.prec < 3 and not at.startswith("("):
        stats["left_assoc_chains"] += 1
    sp = rng.choice([" ", " ", ""])
    return Node(f"{at}{sp}{op}{sp}{bt}", v, prec)


DENSE = ['"', "\\", "\x00", "\n", "\t", "'", "a", "Z", "0", "{", "}", ":", ",", "/", "?", "%", "\u00e9", "\U0001f600"]


def gen_string(rng):
    n = rng.choice([0, 1, 2, 5, 9, 20, 20, 70, 130, 260])
    if n >= 70:
        # long texts without a blank (JSON, paths, quoted lists) dense with characters that need an escape: whatever lays a long
        # literal out over several lines must not cut through an escape sequence
        return "".join(rng.choice(DENSE) for _ in range(n))
    s = "".join(rng.choice(STRING_ALPHABET) for _ in range(n))
    return s


def c_program(header, names):
    lines = ['#include <stdio.h>', '#include <string.h>', f'#include "{header}"', "int main(void) {"]
    for name, v in names:
        if isinstance(v, bool):
            lines.append(f'    printf("{name} b %d\\n", (int)({name}));')
        elif isinstance(v, int):
            lines.append(f'    printf("{name} i %llu\\n", (unsigned long long)({name}));' if v >= (1 << 63) else f'    printf("{name} i %lld\\n", (long long)({name}));')
        else:
            lines.append(f'    {{ const char *s = {name}; size_t n = sizeof({name}) - 1; printf("{name} s "); for (size_t k = 0; k < n; k++) printf("%02x", (unsigned char)s[k]); printf(".\\n"); }}')
    lines.append("    return 0; }")
    return "\n".join(lines) + "\n"


def worker(ctx):
    from collections import Counter
    res = ctx.res
    contracts.install()
    try:
        from vlib import sut_gotext
        go_decode = sut_gotext.decode_go_string_literal
    except Exception:
        go_decode = None
    if ctx.quick:
        n_cases, c_every = ctx.per_shard(480), 3
        ctx.set_budget(200)
    else:
        n_cases, c_every = ctx.per_shard(9600), 3
        ctx.set_budget(3300)
    parse, _, render, _, errors = sut_compiler.bitproto_api()
    for k in range(n_cases):
        if ctx.out_of_time():
            break
        case_id = ctx.shard + k * ctx.nshards
        rng = ctx.rng("case", case_id)
        if ctx.replay is not None:
            case_id = ctx.replay["witness"]["case"]
            rng = __import__("random").Random(f"{ctx.replay['seed']}:C13:{ctx.replay['witness']['shard']}:case:{case_id}")
        stats = Counter()
        names = rng.sample(UPPER, len(UPPER))
        names = [a + "_" + b for a in names[:6] for b in names[6:12]]
        rng.shuffle(names)
        with_import = case_id % 3 == 0
        lib_consts, lib_lines = [], ["proto constlib"]
        if with_import:
            for _ in range(rng.randint(2, 5)):
                nm = names.pop()
                e = gen_expr(rng, [(n, v) for n, v in lib_consts if isinstance(v, int) and not isinstance(v, bool)], rng.randint(0, 3), stats)
                lib_consts.append((nm, e.value))
                lib_lines.append(f"const {nm} = {e.text}")
        as_name = rng.choice([None, "cl"])
        ns = as_name or "constlib"
        lines = ["proto constmain"]
        if with_import:
            lines.append(f'import {as_name + " " if as_name else ""}"constlib.bitproto"')
        consts = []  # (name, value) in main
        visible = [(f"{ns}.{n}", v) for n, v in lib_consts]
        for _ in range(rng.randint(6, 16)):
            nm = names.pop()
            r = rng.random()
            ints = [(n, v) for n, v in visible if isinstance(v, int) and not isinstance(v, bool)]
            if r < 0.65:
                e = gen_expr(rng, ints, rng.randint(0, 4), stats)
                lines.append(f"const {nm} = {e.text}" + (";" if rng.random() < 0.3 else ""))
                v = e.value
            elif r < 0.75:
                v = rng.random() < 0.5
                lines.append(f"const {nm} = {rng.choice(['true', 'yes'] if v else ['false', 'no'])}")
                stats["bools"] += 1
            elif r < 0.8 and visible:
                src, v = rng.choice(visible)  # plain reference to an earlier constant of any kind
                lines.append(f"const {nm} = {src}")
                stats["plain_refs"] += 1
            else:
                v = gen_string(rng)
                lines.append(f"const {nm} = {string_literal(v, rng)}")
                stats["strings"] += 1
                for ch in ('"', "\\", "\n", "\t", "\r", "'"):
                    if ch in v:
                        stats["string_escape:" + repr(ch)] += 1
                if any(ord(c) > 127 for c in v):
                    stats["string_non_ascii"] += 1
                if "??" in v:
                    stats["string_trigraph"] += 1
                if "\x00" in v:
                    stats["string_nul"] += 1
            consts.append((nm, v))
            visible.append((nm, v))
        # capacities and an option taken from constants
        caps = [(n, v) for n, v in visible if isinstance(v, int) and not isinstance(v, bool) and 1 <= v <= 200]
        uses = []
        lines.append("message Holder {")
        fno = 0
        for (n, v) in caps[:4]:
            fno += 1
            lines.append(f"    byte[{n}] f{'abcdefgh'[fno]} = {fno}")
            uses.append((f"f{'abcdefgh'[fno]}", v))
        total_bytes = sum(v for _, v in uses)
        opt = next(((n, v) for n, v in visible if isinstance(v, int) and not isinstance(v, bool) and v >= max(total_bytes, 1) and v < 1 << 31), None)
        if opt:
            lines.insert(len(lines) - len(uses), f"    option max_bytes = {opt[0]}")
        lines.append("}")
        d = ctx.casedir(case_id)
        text = "\n".join(lines) + "\n"
        wit = {"case": case_id, "shard": ctx.shard, "schema": {"constmain.bitproto": text}}
        try:
            with open(os.path.join(d, "constmain.bitproto"), "w") as fh:
                fh.write(text)
            if with_import:
                wit["schema"]["constlib.bitproto"] = "\n".join(lib_lines) + "\n"
                with open(os.path.join(d, "constlib.bitproto"), "w") as fh:
                    fh.write(wit["schema"]["constlib.bitproto"])
            try:
                with sut_compiler.quiet_stderr():
                    proto = parse(os.path.join(d, "constmain.bitproto"))
            except Exception as e:
                res.violation("const-schema-rejected", f"valid constant schema rejected: {type(e).__name__}: {str(e)[:300]}", wit)
                continue
            res.case(True, text)
            res.sample({"schema": wit["schema"], "expected": [(n, v) for n, v in consts[:6]]}, 2)
            for key, n in stats.items():
                res.count("gen:" + key, n)
            # ---- (1) evaluated values in the parsed schema ------------------------------
            for n, v in consts:
                c = proto.members.get(n)
                res.count("parsed_constants_compared")
                if c is None or type(c.value) is not type(v) or c.value != v:
                    expr = next(l for l in lines if l.startswith(f"const {n} ="))
                    res.violation("const-evaluation", f"`{expr}` evaluates to {v!r}, compiler says {getattr(c, 'value', None)!r}", {**wit, "constant": n, "expected": v})
            holder = proto.members["Holder"]
            for fname, v in uses:
                res.count("capacities_compared")
                if holder.members[fname].type.cap != v:
                    res.violation("const-capacity", f"Holder.{fname}: capacity constant is {v}, array has capacity {holder.members[fname].type.cap}", wit)
            if opt:
                res.count("option_values_compared")
                ov = holder.get_option_as_int_or_raise("max_bytes")
                if ov != opt[1]:
                    res.violation("const-option", f"option max_bytes = {opt[0]} is {opt[1]}, compiler says {ov}", wit)
            # ---- (2) emission ------------------------------------------------------------
            judged = list(consts)
            is_int = lambda v: isinstance(v, int) and not isinstance(v, bool)
            try:
                with sut_compiler.quiet_stderr():
                    if with_import:
                        lp = parse(os.path.join(d, "constlib.bitproto"))
                        for lang in ("py", "c", "go"):
                            render(lp, lang, outdir=d)
                    for lang in ("py", "c", "go"):
                        render(proto, lang, outdir=d)
            except Exception as e:
                res.violation("const-render-exception", f"render raised {type(e).__name__}: {e}", wit)
                continue
            # Python: evaluated by the interpreter
            try:
                import importlib, sys
                sys.path.insert(0, d)
                importlib.invalidate_caches()
                for mn in ("constmain_bp", "constlib_bp"):
                    sys.modules.pop(mn, None)
                mod = importlib.import_module("constmain_bp")
            except Exception as e:
                res.violation("const-python-import", f"generated Python does not import: {type(e).__name__}: {e}", wit)
                mod = None
            finally:
                if d in sys.path:
                    sys.path.remove(d)
            if mod is not None:
                for n, v in judged:
                    res.count("python_literals_compared")
                    got = getattr(mod, n, "<missing>")
                    if type(got) is not type(v) or got != v:
                        res.violation("const-python-literal", f"{n}: declared {v!r}, Python module holds {got!r}", {**wit, "constant": n})
                for mn in ("constmain_bp", "constlib_bp"):
                    sys.modules.pop(mn, None)
            # Go: literal decoded by Go's lexical rules
            gotext = open(os.path.join(d, "constmain_bp.go")).read()
            try:
                from vlib import sut_gotext as G
                goconsts = {c.name: c for c in G.parse_file(gotext).consts}
            except Exception as e:
                res.violation("const-go-unparsable", f"Go output cannot be parsed (a literal broken over lines?): {str(e)[:200]}", wit)
                goconsts = None
            for n, v in (judged if goconsts is not None else []):
                c = goconsts.get(n)
                if c is None:
                    res.violation("const-go-missing", f"{n}: no constant {n} in the Go output", {**wit, "constant": n})
                    continue
                typ, lit = c.type, c.value_text
                try:
                    if isinstance(v, bool):
                        ok = typ == "bool" and lit == ("true" if v else "false")
                    elif isinstance(v, int):
                        ok = typ == "int" and re.fullmatch(r"-?(0|[1-9][0-9]*)", lit.replace(" ", "")) is not None and int(lit.replace(" ", "")) == v
                    else:
                        ok = typ == "string" and go_decode is not None and go_decode(lit) == v
                except ValueError:
                    ok = False
                res.count("go_literals_compared")
                if not ok:
                    res.violation("const-go-literal", f"{n}: declared {v!r}, Go output has `{typ} = {lit[:80]}`", {**wit, "constant": n})
                elif is_int(v) and typ == "int" and not (-(1 << 63) <= v < (1 << 63)):
                    # the digits are right, the declaration is not: a typed `int` constant cannot hold the value (Go: "constant overflows int")
                    res.violation("const-go-literal:overflows-int", f"{n} = {v}: Go output declares `const {n} int = {lit[:40]}`, which overflows int", {**wit, "constant": n})
            # C: compiled and printed
            if case_id % c_every == 0 and judged:
                for n, v in judged:
                    if is_int(v) and not (-(1 << 63) <= v < (1 << 64)):
                        res.violation("const-c-literal:exceeds-64-bits", f"{n} = {v}: emitted as a plain `#define`, no C integer type holds the value", {**wit, "constant": n})
                judged = [(n, v) for n, v in judged if not (is_int(v) and not (-(1 << 63) <= v < (1 << 64)))]
                src = os.path.join(d, "cprint.c")
                with open(src, "w") as fh:
                    fh.write(c_program("constmain_bp.h", judged))
                exe = os.path.join(d, "cprint")
                p = subprocess.run(["gcc", "-std=c99", "-w", "-I", d, "-I", env.CLIB_DIR, src, "-o", exe], capture_output=True, text=True)
                if p.returncode != 0:
                    res.violation("const-c-compile", f"C program using the emitted constants does not compile: {p.stderr[:300]}", wit)
                    continue
                out = subprocess.run([exe], capture_output=True, text=True, timeout=30).stdout
                got = {}
                for line in out.splitlines():
                    parts = line.split(" ", 2)
                    if len(parts) == 3:
                        got[parts[0]] = (parts[1], parts[2])
                for n, v in judged:
                    res.count("c_literals_compared")
                    kind, val = got.get(n, ("?", "?"))
                    if isinstance(v, bool):
                        ok = kind == "b" and val == str(int(v))
                    elif isinstance(v, int):
                        ok = kind == "i" and val == str(v)
                    else:
                        ok = kind == "s" and val == v.encode().hex() + "."
                    if not ok:
                        res.violation("const-c-literal", f"{n}: declared {v!r}, compiled C prints {val[:80]}", {**wit, "constant": n})
        finally:
            shutil.rmtree(d, ignore_errors=True)
        if ctx.replay is not None:
            break


if __name__ == "__main__":
    harness.main(
        "C13", "props.C13", worker,
        rule=("case = schema with 6-16 constants (every third case also an imported file with constants referenced as lib.NAME or as.NAME): integer "
              "expression trees over non-negative decimal/hex literals and earlier constants with minimal parentheses (so precedence and left "
              "associativity decide the value; `/` only with non-negative operands and non-zero divisor), booleans in all four spellings, plain "
              "references, strings over the lexer's alphabet with every supported escape and non-ASCII text; capacities and max_bytes taken from "
              "constants; judged: value in the parsed schema, capacity/option value, Python module attribute, Go literal decoded by Go's lexical "
              "rules, and (every third case) a compiled C program printing every macro"),
        assumptions=["own evaluator (ordinary arithmetic) is the specification", "C programs are built with -std=c99 (trigraphs on)",
                     "Go string literals are decoded by vlib/sut_gotext.py, not by Go"],
        required_counters=["parsed_constants_compared", "capacities_compared", "option_values_compared", "python_literals_compared", "go_literals_compared",
                           "c_literals_compared", "gen:ops:-", "gen:ops:/", "gen:ops:*", "gen:left_assoc_chains", "gen:hex", "gen:refs", "gen:strings",
                           "gen:string_escape:'\"'", "gen:string_escape:'\\\\'", "gen:string_escape:'\\n'", "gen:string_non_ascii", "gen:string_trigraph", "gen:string_nul"],
    )
