"""C16 - JSON output is valid JSON that states the message's values (Python part; C part in props/c_common)."""
from vlib import harness
from props import pycommon


def worker(ctx):
    if ctx.quick:
        n_cases, n_values = ctx.per_shard(480), 10
        ctx.set_budget(240)
    else:
        n_cases, n_values = ctx.per_shard(8000), 30
        ctx.set_budget(2400)
    if ctx.replay is not None:
        n_cases = 1
    pycommon.run_cases(ctx, n_cases, n_values, {"json": True})


if __name__ == "__main__":
    harness.main(
        "C16", "props.C16", worker,
        rule=("case = generated valid schema compiled and imported; for every message and boundary-biased value to_json() is parsed "
              "with json.loads (object_pairs_hook keeps key order) and compared strictly (true/false vs 1/0 distinguished) with the "
              "reference JSON value; to_dict() compared the same way; non-trivial/distinct as in C01"),
        assumptions=["vlib/ref.py json_value is the specification"],
        required_counters=["json_texts_parsed", "dicts_compared"],
    )
