"""C16 - JSON output is valid JSON that states the message's values (Python to_json/to_dict and the generated C Json functions)."""
from vlib import harness
from props import ccommon, pycommon


def worker(ctx):
    if ctx.replay is not None:
        if ctx.replay["witness"].get("config"):
            return ccommon.run_std_cases(ctx, 1, 12, {"json": True})
        return pycommon.run_cases(ctx, 1, 10, {"json": True})
    if ctx.quick:
        ctx.set_budget(90)
        pycommon.run_cases(ctx, ctx.per_shard(480), 10, {"json": True})
        ctx.set_budget(110)
        ccommon.run_std_cases(ctx, ctx.per_shard(64), 12, {"json": True})
    else:
        ctx.set_budget(1500)
        pycommon.run_cases(ctx, ctx.per_shard(8000), 30, {"json": True})
        ctx.set_budget(1800)
        ccommon.run_std_cases(ctx, ctx.per_shard(640), 40, {"json": True})


if __name__ == "__main__":
    harness.main(
        "C16", "props.C16", worker,
        rule=("case = generated valid schema compiled and imported; for every message and boundary-biased value to_json() is parsed "
              "with json.loads (object_pairs_hook keeps key order) and compared strictly (true/false vs 1/0 distinguished) with the "
              "reference JSON value; to_dict() compared the same way; the generated C Json<Name> functions are run in guard-page and "
              "ASan+UBSan builds on an exact-fit buffer (size from a measuring call) and their text judged by the same oracle, so Python "
              "and C are equal as JSON values whenever both pass; non-trivial/distinct as in C01"),
        assumptions=["vlib/ref.py json_value is the specification"],
        required_counters=["json_texts_parsed", "dicts_compared", "c_json_compared", "builds:gcc-asan-ubsan"],
    )
