"""C03 - C standard mode writes/reads the same bytes as the specification and Python."""
from vlib import harness
from props import ccommon


def worker(ctx):
    if ctx.quick:
        n_cases, n_values = ctx.per_shard(64), 24
        ctx.set_budget(300)
    else:
        n_cases, n_values = ctx.per_shard(640), 60
        ctx.set_budget(3000)
    if ctx.replay is not None:
        n_cases = 1
    ccommon.run_std_cases(ctx, n_cases, n_values, {"wire": True})


if __name__ == "__main__":
    harness.main(
        "C03", "props.C03", worker,
        rule=("case = generated valid schema compiled to C by the real compiler, driver written against the documented names, built "
              "in several configurations (gcc/clang, -O0..-O3/-Os, separate and single translation unit, ASan+UBSan) and run: "
              "Encode output compared with the reference bytes and with the Python encoder's bytes, Decode of the reference bytes "
              "into a zeroed struct compared leaf by leaf; exact-fit guard pages / sanitizers watch every call; "
              "non-trivial/distinct as in C01"),
        assumptions=["vlib/ref.py is the specification", "x86-64 little-endian LP64 host; gcc 12 / clang 14",
                     "alignment check of UBSan excluded (unaligned word access is by design and outside the property)"],
        required_counters=["c_encode_compared", "c_decode_compared", "three_way_compared", "driver_selftests", "builds:gcc-asan-ubsan"],
    )
