"""C06 - The wire is little-endian whatever the host byte order.

No big-endian CPU exists here; three observables stand in (DESIGN 2/C06):
 1. functional: the runtime built with -DBP_BIG_ENDIAN operating on storage the driver lays out big-endian
    (width x offset grid and whole traditional messages), with a positive control on every run;
 2. access width (valgrind lackey): the big-endian runtime touches the wire one byte at a time, and the big-endian
    branch of -O code touches message fields only as whole values; the little-endian builds violate both (control);
 3. the -O big-endian branch (value based, so it also runs correctly on x86) against the little-endian branch and the reference.
"""
import os
import shutil

from vlib import gen, harness, ref, sut_c, sut_compiler
from vlib.gen import GenCfg
from vlib.model import Base, messages_of
from vlib.monitors import contracts, lackey
from props import ccommon, probes, pycommon
from props.C14 import be_decode_judged, judge_probe


def be_cfg(rng, k):
    c = ccommon.cfg_for_case(rng, k, traditional=True)
    c.std_signed_only = True
    c.msg_bits = min(c.msg_bits, 600)
    c.big_caps = False
    c.packing = 0.0
    return c


def grid(ctx):
    """Width x offset x position grid on big-endian-laid storage (reduced basis in quick, full in thorough)."""
    res = ctx.res
    full = not ctx.quick
    plan = [(s % 8, s // 8) for s in range(16)]
    for (offset, chunk) in [p for i, p in enumerate(plan) if i % ctx.nshards == ctx.shard]:
        types = probes.ALL_TYPES[:65] if chunk == 0 else probes.ALL_TYPES[65:]
        root, pairs = probes.probe_file(offset, types, f"be_probe_o{offset}_c{chunk}")
        top = ctx.casedir(f"g{offset}{chunk}")
        wit = {"pad": offset, "chunk": chunk, "part": "grid"}
        try:
            sut_compiler.compile_schema(root, top, ["c"])
            dg = sut_c.DriverGen(root)
            reqs, meta = [], []
            for m, t in pairs:
                for name, v in probes.probe_values(m, t, full):
                    exp = ref.encode(m, v)
                    reqs.append(("E", m, ref.leaf_values(m, v)))
                    meta.append(("E", m, t, name, v, exp))
                    reqs.append(("D", m, exp))
                    meta.append(("D", m, t, name, v, exp))
                    for it in ref.leaves(m, v):
                        if it.path[0] in (2, 3, 4, 5, 6, 7, 8, 9, 10, 12):
                            res.observe("grid_cells", f"{t.text()}@{it.offset % 8}:{probes.position_of(it.path)}")
            res.case(True, "grid", offset, chunk)
            for config in (["gcc-O0-BE" if (offset + chunk) % 2 else "gcc-asan-BE"] if ctx.quick else ["gcc-O0-BE", "gcc-O2-BE", "clang-O2-BE", "gcc-asan-BE"]):
                exe = sut_c.build(top, root, config)
                sess = ccommon.CSession(exe, dg, config, "std")
                ccommon.selftest_driver(res, sess, pairs[2][0], None, wit)
                for (op, m, t, name, v, exp), r in zip(meta, sess.run(reqs, timeout=900)):
                    judge_probe(ctx, "std", config, op, m, t, name, v, exp, r, wit, skip_decode=not be_decode_judged(t))
                    res.count("be_grid_probes")
                os.unlink(exe)
            # emulated big-endian HOST (be_emu): nothing reads storage natively any more, so every decode is judged, sign step included
            config = "emu-BE-O1" if ctx.quick else ["emu-BE-O0", "emu-BE-O1", "emu-BE-O2"][(offset + chunk) % 3]
            try:
                exe = sut_c.build(top, root, config)
            except sut_c.BuildError as e:
                res.inconclusive.append(f"emulated big-endian build of the probe file failed: {e} {e.log[-300:]}"[:600])
            else:
                sess = ccommon.CSession(exe, dg, config, "std")
                if ccommon.selftest_driver(res, sess, pairs[2][0], None, wit):
                    for (op, m, t, name, v, exp), r in zip(meta, sess.run(reqs, timeout=900)):
                        judge_probe(ctx, "std", config, op, m, t, name, v, exp, r, wit)
                        res.count("emu_be_grid_probes")
                        if op == "D" and not be_decode_judged(t):
                            res.count("emu_be_grid_signed_nonstandard_decodes_judged")
                os.unlink(exe)
            # default (little-endian) build must agree on native storage (same wire) ...
            exe = sut_c.build(top, root, "gcc-O0-sep")
            for (op, m, t, name, v, exp), r in zip(meta, ccommon.CSession(exe, dg, "gcc-O0-sep", "std").run(reqs, timeout=900)):
                judge_probe(ctx, "std", "gcc-O0-sep", op, m, t, name, v, exp, r, wit)
            os.unlink(exe)
            # ... and must FAIL on big-endian-laid storage: proves the monitor can see a byte-order error
            exe = sut_c.build(top, root, "gcc-O0-LE-on-BE-storage")
            ctl = [(m, t, v) for (op, m, t, name, v, exp) in meta if op == "E" and t.width > 8][:300]
            rs = ccommon.CSession(exe, dg, "control", "std").run([("E", m, ref.leaf_values(m, v)) for (m, t, v) in ctl])
            res.count("positive_control_functional", sum(1 for (m, t, v), r in zip(ctl, rs) if r.status == "OK" and r.payload(1) != ref.encode(m, v).hex()))
            os.unlink(exe)
        finally:
            shutil.rmtree(top, ignore_errors=True)


def whole_messages(ctx, n_cases, n_values):
    """Traditional schemas (signed widths 8/16/32/64 only) through the big-endian runtime build on big-endian storage."""
    res = ctx.res
    for k in range(n_cases):
        if ctx.out_of_time():
            break
        case_id = ctx.shard + k * ctx.nshards
        rng = ctx.rng("becase", case_id)
        root = gen.gen_schema(rng, be_cfg(rng, case_id))
        d = ctx.casedir(f"w{case_id}")
        wit = {"case": case_id, "shard": ctx.shard, "part": "whole"}
        try:
            try:
                comp = sut_compiler.compile_schema(root, d, ["c"], rng=rng)
            except Exception as e:
                harness.compile_failed(res, e, wit)
                continue
            wit["schema"] = pycommon.describe(root, comp["paths"])
            dg = sut_c.DriverGen(root)
            reqs, meta = [], []
            for m in dg.messages:
                for name, v in ccommon.basis_values(m, rng, n_values, max_bits=300):
                    exp = ref.encode(m, v)
                    reqs.append(("E", m, ref.leaf_values(m, v)))
                    meta.append({"kind": "E", "m": m, "v": v, "exp": exp})
                    reqs.append(("D", m, exp))
                    meta.append({"kind": "D", "m": m, "v": v, "exp": exp})
            if not reqs:
                continue
            res.case(gen.is_nontrivial(gen.schema_signature(root)), wit["schema"])
            res.sample({"schema": wit["schema"]}, 1)
            for config in (["gcc-O0-BE", "gcc-asan-BE"] if ctx.quick else ["gcc-O0-BE", "gcc-O2-BE", "gcc-asan-BE"]):
                try:
                    exe = sut_c.build(d, root, config)
                except sut_c.BuildError:
                    res.count("skipped_build_error")
                    break
                sess = ccommon.CSession(exe, dg, config, "std")
                for mt, r in zip(meta, sess.run(reqs)):
                    res.count("be_whole_message_calls")
                    ccommon.judge_std_reply(ctx, mt, r, config, {"wire": True}, wit)
                os.unlink(exe)
            # the reverse direction of the detection: this LITTLE-endian host must be recognised as such in other include contexts too
            # (prefix headers, unity builds with libc includes first), on native storage
            if k < (2 if ctx.quick else 12):
                for config in (["gcc-O0-prefix-header", "gcc-O2-single-libc-first"] if ctx.quick else ["gcc-O0-prefix-header", "gcc-O2-single-libc-first", "clang-O1-prefix-header"]):
                    try:
                        exe = sut_c.build(d, root, config)
                    except sut_c.BuildError as e:
                        res.count("skipped_build_error")
                        res.observe("build_error_classes", config + ": " + ccommon.classify_build_error(e.log))
                        continue
                    sess = ccommon.CSession(exe, dg, config, "std")
                    for mt, r in zip(meta, sess.run(reqs)):
                        res.count("le_host_other_include_context_calls")
                        ccommon.judge_std_reply(ctx, mt, r, config, {"wire": True}, wit)
                    os.unlink(exe)
        finally:
            shutil.rmtree(d, ignore_errors=True)


def emulated_host(ctx, n_cases, n_values):
    """Any generated schema (every signed width, extensible messages and arrays, packing, imports) through the real runtime and
    generated code on an emulated big-endian host: standard mode, and for traditional schemas -O `--endian both` (the generated
    preprocessor test decides) and `--endian big`.  Controls: the same memory model with the code told it is little-endian,
    and the `--endian little` statements, must produce wrong bytes for multi-byte fields."""
    res = ctx.res
    from vlib import be_emu
    problem = be_emu.selftest(ctx.casedir("emu-selftest"))
    if problem:
        res.inconclusive.append("big-endian host emulation failed its self-test: " + problem)
        return
    res.count("emu_selftests_passed")
    for k in range(n_cases):
        if ctx.out_of_time():
            break
        case_id = ctx.shard + k * ctx.nshards
        rng = ctx.rng("emucase", case_id)
        if ctx.replay is not None and ctx.replay["witness"].get("part") == "emulated-host":
            case_id = ctx.replay["witness"]["case"]
            rng = __import__("random").Random(f"{ctx.replay['seed']}:{ctx.prop}:{ctx.replay['witness']['shard']}:emucase:{case_id}")
        cfg = ccommon.cfg_for_case(rng, case_id, traditional=(case_id % 2 == 0))
        cfg.msg_bits = min(cfg.msg_bits, 800)
        cfg.big_caps = False
        root = gen.gen_schema(rng, cfg)
        if case_id % 3 == 1:
            ccommon.add_special_shapes(root, rng)
        top = ctx.casedir(f"e{case_id}")
        wit = {"case": case_id, "shard": ctx.shard, "part": "emulated-host"}
        try:
            traditional = not ccommon.root_has_ext(root)
            try:
                paths = __import__("vlib.emit", fromlist=["write_schema"]).write_schema(root, top, rng=rng, compact=0.15)
                dstd = os.path.join(top, "std")
                sut_compiler.compile_schema(root, top, ["c"], outdir=dstd, paths=paths)
                dirs = {}
                if traditional:
                    for endian in ("big", "both", "little"):
                        dirs[endian] = os.path.join(top, "opt-" + endian)
                        sut_compiler.compile_schema(root, top, ["c"], outdir=dirs[endian], optimize=True, endian=endian, paths=paths)
            except Exception as e:
                harness.compile_failed(res, e, wit)
                continue
            wit["schema"] = pycommon.describe(root, paths)
            dg = sut_c.DriverGen(root)
            dgo = sut_c.DriverGen(root, with_json=False)
            reqs, meta = [], []
            for m in dg.messages:
                for name, v in ccommon.basis_values(m, rng, n_values, max_bits=400):
                    exp = ref.encode(m, v)
                    reqs.append(("E", m, ref.leaf_values(m, v)))
                    meta.append({"kind": "E", "m": m, "v": v, "exp": exp, "basis": name})
                    reqs.append(("D", m, exp))
                    meta.append({"kind": "D", "m": m, "v": v, "exp": exp, "basis": name})
            if not reqs:
                continue
            res.case(gen.is_nontrivial(gen.schema_signature(root)), wit["schema"])
            res.sample({"schema": wit["schema"]}, 1)
            for it in (it for m in dg.messages for it in ref.leaves(m)):
                if it.signed and it.width not in (8, 16, 32, 64):
                    res.count("emu_signed_nonstandard_leaves")
            if not traditional:
                res.count("emu_extensible_schemas")
            wide = any(it.width > 8 for m in dg.messages for it in ref.leaves(m))
            config = "emu-BE-O1" if ctx.quick else ["emu-BE-O0", "emu-BE-O1", "emu-BE-O2"][case_id % 3]
            try:
                exe = sut_c.build(dstd, root, config)
            except sut_c.BuildError as e:
                if "emulation-unsupported" in str(e):
                    res.inconclusive.append(f"emulation cannot represent the generated code: {e}"[:300])
                else:
                    res.count("skipped_build_error")
                    res.observe("build_error_classes", ccommon.classify_build_error(e.log))
                continue
            sess = ccommon.CSession(exe, dg, config, "std")
            if not ccommon.selftest_driver(res, sess, dg.messages[0], rng, wit):
                continue
            res.count(f"builds:{config}:std")
            for mt, r in zip(meta, sess.run(reqs)):
                res.count("emu_be_std_calls")
                ccommon.judge_std_reply(ctx, mt, r, config, {"wire": True}, wit)
            os.unlink(exe)
            if traditional:
                for vname in ("both", "big"):
                    try:
                        exe = sut_c.build(dirs[vname], root, config, optimize=True, driver_src=dgo.source())
                    except sut_c.BuildError as e:
                        res.count("skipped_build_error")
                        continue
                    res.count(f"builds:{config}:opt-{vname}")
                    sess = ccommon.CSession(exe, dgo, config, "opt-" + vname)
                    for mt, r in zip(meta, sess.run(reqs)):
                        res.count(f"emu_be_opt_calls:{vname}")
                        ccommon.judge_opt_reply(ctx, mt, r, None, vname + "@emulated-big-endian-host", config, {"same": True}, wit)
                    os.unlink(exe)
            # positive controls (counted, a run where they never fail is inconclusive: the emulation would not be big-endian)
            if wide and k < 2:
                enc = [(rq, mt) for rq, mt in zip(reqs, meta) if mt["kind"] == "E"]
                exe = sut_c.build(dstd, root, "emu-BE-control-LE-code")
                rs = ccommon.CSession(exe, dg, "control", "std").run([rq for rq, _ in enc])
                res.count("positive_control_emulated_le_code_wrong_wire", sum(1 for (rq, mt), r in zip(enc, rs) if r.status != "OK" or r.payload(1) != mt["exp"].hex()))
                os.unlink(exe)
                if traditional:
                    exe = sut_c.build(dirs["little"], root, config, optimize=True, driver_src=dgo.source())
                    rs = ccommon.CSession(exe, dgo, "control", "opt-little").run([rq for rq, _ in enc])
                    res.count("positive_control_emulated_opt_little_wrong_wire", sum(1 for (rq, mt), r in zip(enc, rs) if r.status != "OK" or r.payload(1) != mt["exp"].hex()))
                    os.unlink(exe)
        finally:
            shutil.rmtree(top, ignore_errors=True)
        if ctx.replay is not None and ctx.replay["witness"].get("part") == "emulated-host":
            break
    for a, b in sut_c.EMU_STATS.items():
        res.count("emu_rewrite:" + a, b)
    sut_c.EMU_STATS.clear()


def access_width(ctx, n_cases):
    res = ctx.res
    for k in range(n_cases):
        if ctx.out_of_time():
            break
        case_id = ctx.shard + k * ctx.nshards
        rng = ctx.rng("trace", case_id)
        cfg = be_cfg(rng, case_id)
        cfg.msg_bits = 300
        cfg.n_imports = (0, 0)
        root = gen.gen_schema(rng, cfg)
        top = ctx.casedir(f"t{case_id}")
        wit = {"case": case_id, "shard": ctx.shard, "part": "access-width"}
        try:
            try:
                paths = __import__("vlib.emit", fromlist=["write_schema"]).write_schema(root, top, rng=rng)
                dstd = os.path.join(top, "std")
                sut_compiler.compile_schema(root, top, ["c"], outdir=dstd, paths=paths)
                dirs = {}
                for endian in ("big", "both", "little"):
                    dirs[endian] = os.path.join(top, "opt-" + endian)
                    sut_compiler.compile_schema(root, top, ["c"], outdir=dirs[endian], optimize=True, endian=endian, paths=paths)
            except Exception as e:
                harness.compile_failed(res, e, wit)
                continue
            wit["schema"] = pycommon.describe(root, paths)
            dg = sut_c.DriverGen(root)
            dgo = sut_c.DriverGen(root, with_json=False)
            msgs = [m for m in dg.messages if ref.count_leaves(m) > 0][:3]
            if not msgs:
                continue
            res.case(True, wit["schema"])
            cmds, meta = [], []
            for m in msgs:
                idx = dg.index[id(m)]
                cmds.append(f"L {idx}")
                meta.append(("L", m))
                for v in gen.gen_values(rng, m, 2)[1:] + [gen.gen_value(rng, m, "mix")]:
                    cmds.append(f"E {idx} {sut_c.leaves_hex(ref.leaf_values(m, v))}")
                    meta.append(("E", m))
                    cmds.append(f"D {idx} {ref.encode(m, v).hex()}")
                    meta.append(("D", m))
            wide_leaf = any(sut_c.leaf_storage_bytes(it.etype) > 1 for m in msgs for it in ref.leaves(m))
            wide_wire = any(it.width >= 16 for m in msgs for it in ref.leaves(m))

            def trace(build_dir, config, optimize, extra=None):
                exe = sut_c.build(build_dir, root, config, optimize=optimize, extra_flags=extra,
                                  driver_src=(dgo if optimize else dg).source())
                lines, windows = lackey.run_traced(exe, cmds, top)
                os.unlink(exe)
                calls = [(mt, ccommon.Reply(l)) for mt, l in zip(meta, lines)]
                win = iter(windows)
                out = []
                layout = {}
                for (op, m), r in calls:
                    if op == "L":
                        layout[id(m)] = [(x >> 8, x & 0xFF) for x in sut_c.parse_leaves(r.payload(1))]
                    else:
                        out.append((op, m, r, next(win, None), layout[id(m)]))
                return out

            # (a) runtime: wire accesses must be single bytes in the big-endian build
            for label, config in (("BE", "trace-BE"), ("LE-control", "trace-LE")):
                wide = 0
                for op, m, r, accesses, lay in trace(dstd, config, False):
                    if accesses is None or r.addr is None:
                        res.inconclusive.append("no trace window for a call")
                        continue
                    res.count(f"windows:{label}")
                    lo, hi = r.addr["wire"], r.addr["wire"] + r.addr["wire_len"]
                    # accesses issued from outside the executable's own code (libc memcpy/memset, func "?") move bytes without
                    # interpreting them and are byte-order neutral by contract: only the runtime's own loads/stores are judged
                    touching = [a for a in accesses if a.addr < hi and a.addr + a.size > lo and a.func != "?"]
                    res.count(f"wire_accesses:{label}", len(touching))
                    bad = [a for a in touching if a.size != 1]
                    wide += len(bad)
                    if label == "BE" and bad:
                        res.violation("be-runtime-wide-wire-access", f"{m.name} {op}: the -DBP_BIG_ENDIAN runtime touched the wire with a {bad[0].size}-byte access "
                                      f"in {bad[0].func} ({len(bad)} such accesses): host-order-dependent word copy",
                                      {**wit, "message": m.name, "op": op, "accesses": [repr(a) for a in bad[:6]]})
                if label == "LE-control" and wide_wire:
                    res.count("positive_control_wide_wire_accesses_LE", wide)
            # (b) -O: struct accesses of Encode*/Decode* must cover exactly one whole leaf in the big-endian branch
            for label, build_dir, config, extra in (("big", dirs["big"], "trace-optBE", None), ("both+BP_BIG_ENDIAN", dirs["both"], "trace-optBE", None),
                                                    ("little-control", dirs["little"], "trace-LE", None)):
                partial = 0
                for op, m, r, accesses, lay in trace(build_dir, config, True):
                    if accesses is None or r.addr is None:
                        res.inconclusive.append("no trace window for a call")
                        continue
                    res.count(f"opt_windows:{label}")
                    base, size = r.addr["struct"], r.addr["struct_size"]
                    leafset = set(lay)
                    mine = [a for a in accesses if a.func.startswith(("Encode", "Decode")) and a.addr < base + size and a.addr + a.size > base]
                    res.count(f"struct_accesses:{label}", len(mine))
                    bad = [a for a in mine if (a.addr - base, a.size) not in leafset]
                    partial += len(bad)
                    if not label.endswith("control") and bad:
                        res.violation("opt-be-partial-field-access", f"{m.name} {op} [-O {label}]: {bad[0].func} touched the struct at offset {bad[0].addr - base} with "
                                      f"{bad[0].size} bytes, which is not one whole field ({len(bad)} such accesses): byte indexing depends on host order",
                                      {**wit, "message": m.name, "op": op, "variant": label, "accesses": [f"{a.kind} +{a.addr - base},{a.size} {a.func}" for a in bad[:6]],
                                       "layout": sorted(leafset)[:40]})
                if label.endswith("control") and wide_leaf:
                    res.count("positive_control_partial_field_accesses_little", partial)
        finally:
            shutil.rmtree(top, ignore_errors=True)


def worker(ctx):
    contracts.install()
    if ctx.quick:
        ctx.set_budget(70)
        grid(ctx)
        ctx.set_budget(40)
        whole_messages(ctx, ctx.per_shard(48), 4)
        ctx.set_budget(60)
        emulated_host(ctx, ctx.per_shard(48), 4)
        ctx.set_budget(60)
        access_width(ctx, ctx.per_shard(16))
        ctx.set_budget(90)
        ccommon.run_opt_cases(ctx, ctx.per_shard(16), 4, {"same": True},
                              variants=[("little", []), ("big", []), ("both", ["-DBP_BIG_ENDIAN"])], configs=["gcc-O0-sep", "gcc-O2-single"])
    else:
        ctx.set_budget(900)
        grid(ctx)
        ctx.set_budget(600)
        whole_messages(ctx, ctx.per_shard(640), 12)
        ctx.set_budget(900)
        emulated_host(ctx, ctx.per_shard(960), 12)
        ctx.set_budget(900)
        access_width(ctx, ctx.per_shard(320))
        ctx.set_budget(1000)
        ccommon.run_opt_cases(ctx, ctx.per_shard(240), 12, {"same": True},
                              variants=[("little", []), ("big", []), ("both", ["-DBP_BIG_ENDIAN"])],
                              configs=["gcc-O0-sep", "gcc-O2-single", "gcc-asan-ubsan", "clang-O2-sep"])


if __name__ == "__main__":
    harness.main(
        "C06", "props.C06", worker,
        rule=("five workloads: (0) an EMULATED BIG-ENDIAN HOST (vlib/be_emu.py: clang -O0 IR of the runtime, the generated code and the driver with every "
              "16/32/64-bit load, store and constant initializer byte-swapped, preprocessed with __BYTE_ORDER__ == __ORDER_BIG_ENDIAN__ so the code's own "
              "detection macros choose the path) runs the probe grid and generated schemas of every kind (all signed widths, extensible messages and arrays, "
              "packing, imports) in standard mode and -O --endian both/big; everything is judged, sign extension and prefixes included; the same memory model with "
              "little-endian code paths is the positive control; (1) the width x offset x position probe grid and (2) generated traditional schemas (signed widths 8/16/32/64) run "
              "through the runtime built with -DBP_BIG_ENDIAN on storage laid out big-endian by the driver, wire compared with the "
              "reference (and with the default build on native storage), with the default build on big-endian storage as positive control; "
              "(3) valgrind-lackey access traces: wire accesses of the big-endian runtime must be 1 byte wide and struct accesses of the "
              "big-endian -O branch must each cover one whole field (little-endian builds are the control); (4) the -O big-endian branch "
              "(--endian big and both+BP_BIG_ENDIAN) vs little vs reference on a per-bit basis of values; distinct by schema text"),
        assumptions=["the emulated big-endian host models memory byte order of 16/32/64-bit integer accesses exactly and nothing else of a real big-endian CPU "
                     "(alignment traps, ABI, compiler back end); built from clang -O0 IR, native back end at -O0/-O1/-O2",
                     "older storage-layout emulation (workloads 1-2): big-endian behaviour is emulated by laying storage out big-endian; sign extension of non-8/16/32/64 widths and "
                     "the 16-bit extensible prefix read storage natively and are not judged under that emulation (C14 judges the sign step on the default build)",
                     "access widths are observed at -O0 only (the compiler may merge or split accesses at higher levels)"],
        required_counters=["be_grid_probes", "be_whole_message_calls", "positive_control_functional", "windows:BE", "wire_accesses:BE",
                           "positive_control_wide_wire_accesses_LE", "struct_accesses:big", "struct_accesses:both+BP_BIG_ENDIAN",
                           "positive_control_partial_field_accesses_little", "opt_calls:big", "opt_calls:both+BP_BIG_ENDIAN",
                           "le_host_other_include_context_calls", "emu_be_grid_probes", "emu_be_grid_signed_nonstandard_decodes_judged", "emu_be_std_calls", "emu_extensible_schemas",
                           "emu_signed_nonstandard_leaves", "emu_be_opt_calls:both", "emu_be_opt_calls:big",
                           "positive_control_emulated_le_code_wrong_wire", "positive_control_emulated_opt_little_wrong_wire"],
    )
