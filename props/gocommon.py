"""Go clauses: the Go renderer's output is parsed and evaluated by vlib/sut_gotext.py (no Go toolchain exists here)."""
from __future__ import annotations

import os
import re
from typing import Any, Dict, List

from vlib import ref, sut_gotext as G
from vlib.model import Alias, Arr, Base, Enum, File, Message, Ref, file_of, messages_of, qualified_path
from vlib.names import pascal_of_snake


def go_type_name(d: Any) -> str:
    return "".join(qualified_path(d))


def go_field(name: str) -> str:
    return pascal_of_snake(name)


def to_go(t: Any, v: Any) -> Any:
    if isinstance(t, Ref):
        tt = t.target
        return to_go(tt.type if isinstance(tt, Alias) else tt, v)
    if isinstance(t, Base):
        return bool(v) if t.kind == "bool" else int(v)
    if isinstance(t, Enum):
        return int(v)
    if isinstance(t, Arr):
        return [to_go(t.elem, x) for x in v]
    if isinstance(t, Message):
        return {go_field(f.name): to_go(f.type, v[f.number]) for f in t.sorted_fields}
    raise TypeError(t)


def from_go(t: Any, g: Any) -> Any:
    if isinstance(t, Ref):
        tt = t.target
        return from_go(tt.type if isinstance(tt, Alias) else tt, g)
    if isinstance(t, (Base, Enum)):
        return int(g)
    if isinstance(t, Arr):
        return [from_go(t.elem, x) for x in g]
    if isinstance(t, Message):
        return {f.number: from_go(f.type, g[go_field(f.name)]) for f in t.sorted_fields}
    raise TypeError(t)


def names_of_transitive_imports(g: File):
    """Names that the files g imports (transitively) bind to a file which g does not bind under that name itself: a Go
    reference `n.T` through such a name is the C10 known finding go-transitive-import-reference (the type is one g's schema
    writes `b.c.T`, or one that -O mode inlines from a message of b)."""
    own = {imp.bound_name: imp.file for imp in g.imports}
    out = set()
    for imp in g.imports:
        for h in imp.file.all_files():
            for inner in h.imports:
                if own.get(inner.bound_name) is not inner.file:
                    out.add(inner.bound_name)
    return out


class AmbiguousPackages(Exception):
    """Two files of one schema bind the same name to different files; the evaluator's package table is flat."""


def load_go(root: File, go_dir: str) -> Dict[str, Any]:
    """{basename: (gofile, evaluator)} for every file of the schema."""
    parsed = {}
    for g in root.all_files():
        with open(os.path.join(go_dir, f"{g.basename}_bp.go")) as fh:
            parsed[g.basename] = G.parse_file(fh.read())
    out = {}
    for g in root.all_files():
        # the evaluator resolves `pkg.Type` inside imported packages through the same flat table, so the packages that the
        # imported files import themselves are given too; whether the file being evaluated imports a package it names is
        # still checked by the evaluator (its own import list)
        imports: Dict[str, Any] = {}
        for h in g.all_files():
            for imp in h.imports:
                gf = parsed[imp.file.basename]
                if imports.setdefault(imp.bound_name, gf) is not gf:
                    raise AmbiguousPackages(imp.bound_name)
        out[g.basename] = (parsed[g.basename], G.GoEval(parsed[g.basename], imports=imports))
    return out


def judge_go_opt(ctx, root: File, go_dir: str, messages: List[Message], meta: List[Dict[str, Any]], wit: Dict[str, Any]) -> None:
    """C04 Go clause: the -O Encode/Decode statement lists evaluated with Go integer semantics on the same basis values."""
    res = ctx.res
    try:
        loaded = load_go(root, go_dir)
    except AmbiguousPackages:
        res.count("go_opt_skipped_ambiguous_package_names")
        return
    except Exception as e:
        res.violation("go-opt-unparsable", f"Go -O output cannot be parsed: {type(e).__name__}: {str(e)[:300]}", wit)
        return
    for mt in meta:
        m = mt["m"]
        if mt["kind"] not in ("E", "D"):
            continue
        gf, ev = loaded[file_of(m).basename]
        tn = go_type_name(m)
        w = {**wit, "message": m.name, "value": mt["v"], "basis": mt.get("basis"), "lang": "go -O"}
        try:
            if mt["kind"] == "E":
                got = ev.run_encode(tn, to_go(m, mt["v"]))
                res.count("go_opt_encode_evaluated")
                if bytes(got) != mt["exp"]:
                    res.violation("go-opt-encode-bytes", f"{m.name} basis {mt.get('basis')}: Go -O Encode statements give {bytes(got).hex()}, specified {mt['exp'].hex()}", w)
            else:
                got = from_go(m, ev.run_decode(tn, mt["exp"]))
                res.count("go_opt_decode_evaluated")
                want = ref.normalise(m, mt["v"])
                if got != want:
                    res.violation("go-opt-decode-values", f"{m.name} basis {mt.get('basis')}: Go -O Decode statements give other field values", {**w, "got": got, "expected": want})
        except G.EvalError as e:
            q = re.search(r"package '(\w+)' not given in imports|: '(\w+)' is not imported|call not supported by the evaluator: (\w+)\.\w+\(", str(e))
            if q and (q.group(1) or q.group(2) or q.group(3)) in names_of_transitive_imports(file_of(m)):
                # -O inlines the fields of an imported message and names their types by the inner file's import name:
                # the Go file does not compile (C10 known finding go-transitive-import-reference, reported there)
                res.count("go_opt_excluded_known_C10_transitive_import")
                continue
            res.violation("go-opt-eval-error", f"{m.name}: evaluating the Go -O statements failed (Go would reject or panic): {str(e)[:300]}", w)
            return


def judge_go_probes(ctx, root: File, go_dir: str, work: List[Any], wit: Dict[str, Any]) -> None:
    """C14: the -O statement generator through the probe messages, evaluated as Go."""
    res = ctx.res
    loaded = load_go(root, go_dir)
    gf, ev = loaded[root.basename]
    for (m, t, name, v) in work:
        tn = go_type_name(m)
        exp = ref.encode(m, v)
        w = {**wit, "message": m.name, "type": t.text(), "probe": name, "mode": "go -O"}
        try:
            got = bytes(ev.run_encode(tn, to_go(m, v)))
            back = from_go(m, ev.run_decode(tn, exp))
        except G.EvalError as e:
            res.violation("probe-go-eval-error", f"Go -O {t.text()} pad={wit['pad']} {name}: {str(e)[:200]}", w)
            continue
        res.count("go_probes")
        if got != exp:
            res.violation("probe-go-encode", f"Go -O {t.text()} pad={wit['pad']} {name}: wire {got.hex()} expected {exp.hex()}", w)
        if back != ref.normalise(m, v):
            res.violation("probe-go-decode", f"Go -O {t.text()} pad={wit['pad']} {name}: decoded {back}", w)
