"""Shared workload for the C properties (C03, C07, C16-C, C04, C05-C, C06).

One case = one generated schema compiled to C by the real compiler, a driver
written against the documented names, built in several named configurations
(optimisation levels, separate/single translation unit, ASan+UBSan, guard-page
build) and exercised over pipes.
"""
from __future__ import annotations

import json
import os
import shutil
import traceback
from typing import Any, Dict, List, Optional, Tuple

from vlib import harness, gen, ref, sut_c, sut_compiler, sut_py
from vlib.gen import GenCfg
from vlib.harness import Ctx
from vlib.model import Arr, Base, Enum, File, Message, Ref, messages_of
from vlib.monitors import contracts
from props.pycommon import describe, strict_eq


def cfg_for_case(rng, k: int, traditional: bool = False) -> GenCfg:
    c = GenCfg()
    c.msg_bits = 500
    r = k % 8
    if r == 0:
        c.extensible = False
    elif r == 1:
        c.n_imports = (1, 2)
        c.p_import_chain = 0.5
        c.p_transitive_ref = 0.5
        c.p_subdir = 0.4
        c.p_nested = 0.5
    elif r == 2:
        c.msg_bits = 2500
        c.max_fields = 12
    elif r == 3:
        c.p_ext_msg, c.p_ext_arr = 0.6, 0.6
    elif r == 4:
        c.max_depth = 4
        c.p_nested = 0.6
        c.digit_fields = 0.4
        c.p_same_short_name = 0.5
    elif r == 5:
        c.msg_bits = 64
        c.max_fields = 10
    elif r == 6:
        # packing option on some files and not on others (or with another value), messages of the other file embedded by value
        c.packing = 1.0 if k % 16 == 6 else 0.6
        c.n_imports = (1, 2) if k % 16 == 14 else (0, 1)
        c.p_as_name = 0.5
    elif r == 7:
        c.msg_bits = 6000
        c.big_caps = True
    if traditional:
        c.extensible = False
    return c


class Reply:
    def __init__(self, raw: Any):
        self.raw = raw
        self.crash = raw if isinstance(raw, sut_c.Crash) else None
        self.status = "CRASH" if self.crash else raw.split(" ", 1)[0]
        self.fields: List[str] = [] if self.crash else raw.split()
        self.addr = None
        if self.fields and self.fields[-1].startswith("@"):
            a = self.fields.pop()[1:].split(",")
            self.addr = {"wire": int(a[0], 16), "wire_len": int(a[1]), "struct": int(a[2], 16), "struct_size": int(a[3])}
        if self.status == "CANARY":
            # CANARY wire=.. struct=.. <payload...>
            self.canary = " ".join(self.fields[1:3])
            self.fields = ["CANARY"] + self.fields[3:]
        else:
            self.canary = None

    def payload(self, k: int = 1) -> str:
        return self.fields[k] if len(self.fields) > k else ""


class CSession:
    """A built driver for one schema in one configuration."""

    def __init__(self, exe: str, dg: sut_c.DriverGen, config: str, mode: str):
        self.exe, self.dg, self.config, self.mode = exe, dg, config, mode

    def idx(self, m: Message) -> int:
        return self.dg.index[id(m)]

    def run(self, reqs: List[Tuple[str, Message, Any]], timeout: float = 300) -> List[Reply]:
        cmds = []
        for op, m, payload in reqs:
            k = self.idx(m)
            if op.upper() in ("E", "J", "R"):
                cmds.append(f"{op} {k} {sut_c.leaves_hex(payload)}")
            elif op.upper() == "D":
                cmds.append(f"{op} {k} {payload.hex()}")
            else:
                cmds.append(f"{op} {k}")
        return [Reply(r) for r in sut_c.run_driver(self.exe, cmds, timeout=timeout)]


def crash_key(r: Reply, op: str) -> str:
    c = r.crash
    if c.kind == "SANITIZER":
        m = None
        import re
        m = re.search(r"ERROR: AddressSanitizer: ([a-z\-]+)", c.detail)
        if m:
            fn = re.search(r"#\d+ 0x[0-9a-f]+ in (\w+)", c.detail)
            return f"c-asan:{m.group(1)}:{fn.group(1) if fn else '?'}"
        m = re.search(r"runtime error: ([a-z ]+)", c.detail)
        if m:
            return "c-ubsan:" + m.group(1).strip().replace(" ", "-")[:40]
        return "c-sanitizer"
    if c.kind == "FAULT":
        m = __import__("re").search(r"op=(\S+)", c.detail)
        return f"c-guard-fault:{m.group(1) if m else op}"
    return f"c-crash:{c.kind}"


def selftest_driver(res, sess: CSession, m: Message, rng, wit: Dict[str, Any]) -> bool:
    """leaf k := pattern must round-trip through the driver's own set_/get_ before anything is judged."""
    items = ref.leaves(m)
    vals = []
    for k, it in enumerate(items):
        nb = sut_c.leaf_storage_bytes(it.etype) * 8
        vals.append(((k + 1) * 0x0101010101010101) & ((1 << nb) - 1) if not (isinstance(it.etype, Base) and it.etype.kind == "bool") else (k & 1))
    rs = sess.run([("R", m, vals), ("S", m, None)])
    if rs[0].status != "OK" or sut_c.parse_leaves(rs[0].payload()) != vals:
        res.inconclusive.append(f"driver self-test failed for {m.name} in {sess.config}: {rs[0].raw!r}"[:500])
        return False
    res.count("driver_selftests")
    return True


# ----------------------------------------------------------------------------
# standard-mode workload (C03 / C07 / C16-C)
# ----------------------------------------------------------------------------
QUICK_CONFIGS = ["gcc-O0-sep", "gcc-O2-single", "gcc-asan-ubsan"]
THOROUGH_ROTATION = ["gcc-O0-sep", "gcc-O1-sep", "gcc-O2-sep", "gcc-O3-sep", "gcc-Os-sep", "gcc-O0-single", "gcc-O1-single",
                     "gcc-O2-single", "gcc-O3-single", "gcc-Os-single", "clang-O0-sep", "clang-O2-sep", "clang-O3-sep",
                     "clang-O1-single", "clang-O2-single", "clang-O3-single", "clang-Os-single", "clang-asan-ubsan"]


def configs_for_case(ctx: Ctx, case_id: int) -> List[str]:
    if ctx.quick:
        return list(QUICK_CONFIGS)
    rot = THOROUGH_ROTATION
    pick = [rot[(case_id * 3 + j) % len(rot)] for j in range(3)]
    return list(dict.fromkeys(["gcc-asan-ubsan"] + pick))


def overdrive_patterns(width: int, storage_bits: int, rng) -> List[int]:
    """Raw storage contents whose bits above `width` are not all zero."""
    full = (1 << storage_bits) - 1
    low = (1 << width) - 1
    pats = {full, full & ~low, (full & ~low) | (rng.getrandbits(width)), 1 << width, (1 << width) | 1,
            rng.getrandbits(storage_bits) | (1 << (storage_bits - 1))}
    return [p for p in pats if p & ~low & full]


def add_special_shapes(root: File, rng) -> None:
    """Shapes at the decision points of the C runtime's array code: the batch-copy path is chosen by the ELEMENT's bit size
    and type flag (through aliases), so rows/elements whose total or element size is exactly 8/16/32/64 bits - with
    sub-byte, signed, enum, alias and extensible variants - sit right on the predicate."""
    from vlib.model import Alias, Enum, Field
    from vlib.gen import pick_base
    tag = "".join(rng.choice("abcdefghijklmnopqrstuvwxyz") for _ in range(4)).capitalize()
    m = Message("Shape" + tag)
    n = 0

    def field(t):
        nonlocal n
        n += 1
        m.add(Field(f"s{'abcdefghijklmnopqrstuvwxyz'[n]}", t, n))

    if rng.random() < 0.6:
        field(Base("uint", rng.randint(1, 7)))  # leave byte alignment
    for _ in range(rng.randint(2, 4)):
        k = rng.randrange(7)
        w = rng.choice([1, 2, 4, 8, 16])
        tot = rng.choice([t for t in (8, 16, 32, 64) if t >= 2 * w])
        kind = rng.choice(["uint", "int"]) if w > 1 else rng.choice(["uint", "bool"])
        el = Base("bool") if kind == "bool" else Base(kind, w)
        if k <= 2:    # 2-D: rows of exactly 8/16/32/64 bits made of smaller elements
            row = root.add(Alias(f"Row{tag}{n}", Arr(el, tot // w, ext=(k == 2 and root_has_ext(root)))))
            field(Arr(Ref(row), rng.choice([1, 2, 3])))
        elif k == 3:  # array of alias of a standard-width integer (alias look-ahead flag)
            al = root.add(Alias(f"Std{tag}{n}", Base(rng.choice(["uint", "int"]), rng.choice([8, 16, 32, 64]))))
            field(Arr(Ref(al), rng.choice([1, 2, 5])))
        elif k == 4:  # array of enums of standard width
            ew = rng.choice([8, 16, 32, 64])
            e = root.add(Enum(f"Std{tag}E{n}", ew, [(f"STD_{tag.upper()}_{n}_A", 0), (f"STD_{tag.upper()}_{n}_B", (1 << ew) - 1), (f"STD_{tag.upper()}_{n}_C", 1 << (ew - 1))]))
            field(Arr(Ref(e), rng.choice([2, 3])))
        elif k == 5:  # array of non-standard signed ints next to a standard one
            field(Arr(Base("int", rng.choice([7, 9, 15, 17, 31, 33, 63])), rng.choice([2, 3])))
            field(Arr(Base("int", rng.choice([8, 16, 32, 64])), rng.choice([2, 3])))
        else:         # alias of a row used directly and as array element
            row = root.add(Alias(f"Mix{tag}{n}", Arr(el, tot // w)))
            field(Ref(row))
            field(Arr(Ref(row), 2))
        field(Base("uint", rng.choice([1, 3, 5])))
    root.add(m)
    if rng.random() < 0.5:
        gen.add_same_name_shapes(root, rng, ext_ok=root_has_ext(root))
    if root_has_ext(root):
        add_coincidence_shapes(root, rng)
    if rng.random() < 0.4:
        gen.add_empty_shapes(root, rng, ext_ok=root_has_ext(root))
    if rng.random() < 0.4:
        gen.add_alias_reach_shapes(root, rng)


def add_coincidence_shapes(root: File, rng) -> None:
    """Extensible fields whose WIRE size (16-bit prefix included) happens to equal 8 x sizeof of their C representation although the
    layouts differ: the prefix cancels exactly 16 bits of slack (narrow widths in wider storage, struct padding).  Anything that
    decides "wire image == memory image" by comparing sizes takes the raw-copy path here."""
    from vlib.model import Field
    tag = "".join(rng.choice("abcdefghijklmnopqrstuvwxyz") for _ in range(4)).capitalize()
    host = Message("Coin" + tag)
    n = 0

    def add(t):
        nonlocal n
        n += 1
        host.add(Field(f"c{'abcdefghijklmnopqrstuvwxyz'[n]}", t, n))

    if rng.random() < 0.5:
        add(Base("uint", rng.choice([3, 8])))
    shapes = rng.sample(["pos", "hdr", "nib", "a12", "a4", "a6", "a24"], rng.randint(2, 4))
    for sh in shapes:
        if sh in ("pos", "hdr", "nib"):
            sub = Message(f"{sh.capitalize()}{tag}", ext=True)
            widths = {"pos": [("int", 24), ("int", 24)], "hdr": [("uint", 32), ("uint", 16)], "nib": [("uint", 4)] * 4}[sh]
            for k, (kind, w) in enumerate(widths):
                sub.add(Field("pqrs"[k] + "_v", Base(kind, w), k + 1))
            root.add(sub)
            add(Ref(sub))
            if rng.random() < 0.5:
                add(Arr(Ref(sub), 2))
        else:
            w, cap = {"a12": (12, 4), "a4": (4, 4), "a6": (6, 8), "a24": (24, 2)}[sh]
            add(Arr(Base(rng.choice(["uint", "int"]), w), cap, ext=True))
        add(Base("uint", rng.choice([1, 5, 8])))
    root.add(host)


def root_has_ext(root: File) -> bool:
    from vlib.model import is_extensible_anywhere
    return is_extensible_anywhere(root)


def run_std_cases(ctx: Ctx, n_cases: int, n_values: int, judge: Dict[str, bool]) -> None:
    """judge keys: wire (C03), bounds+contain+const (C07), json (C16)."""
    res = ctx.res
    contracts.install()
    for k in range(n_cases):
        if ctx.out_of_time():
            break
        case_id = ctx.shard + k * ctx.nshards
        rng = ctx.rng("case", case_id)
        if ctx.replay is not None:
            case_id = ctx.replay["witness"]["case"]
            rng = __import__("random").Random(f"{ctx.replay['seed']}:{ctx.prop}:{ctx.replay['witness']['shard']}:case:{case_id}")
        cfg = cfg_for_case(rng, case_id)
        root = gen.gen_schema(rng, cfg)
        if case_id % 3 == 1:
            add_special_shapes(root, rng)
            res.count("cases_with_special_array_shapes")
        d = ctx.casedir(case_id)
        wit: Dict[str, Any] = {"case": case_id, "shard": ctx.shard}
        mods = None
        try:
            try:
                comp = sut_compiler.compile_schema(root, d, ["c", "py"], rng=rng, emit_kw=dict(semi=0.3, comments=0.2, path_style="random", compact=0.15))
            except Exception as e:
                harness.compile_failed(res, e, wit)
                continue
            wit["schema"] = describe(root, comp["paths"])
            try:
                mods = sut_py.PyModules(d, root)
            except Exception as e:
                res.count("python_twin_unavailable")
                mods = None
            dg = sut_c.DriverGen(root)
            sig = gen.schema_signature(root)
            # ---- requests ------------------------------------------------
            reqs: List[Tuple[str, Message, Any]] = []
            meta: List[Dict[str, Any]] = []
            for m in dg.messages:
                reqs.append(("S", m, None))
                meta.append({"kind": "S", "m": m})
                items = ref.leaves(m)
                nv = n_values if len(items) < 400 else max(3, n_values // 5)
                for vi, v in enumerate(gen.gen_values(rng, m, nv)):
                    lv = ref.leaf_values(m, v)
                    exp = ref.encode(m, v)
                    low = (vi % 4 == 3)  # every 4th value runs start-aligned (underflow side guarded)
                    if judge.get("wire") or judge.get("bounds"):
                        reqs.append(("e" if low else "E", m, lv))
                        meta.append({"kind": "E", "m": m, "v": v, "exp": exp})
                        reqs.append(("d" if low else "D", m, exp))
                        meta.append({"kind": "D", "m": m, "v": v, "exp": exp})
                    if judge.get("json"):
                        reqs.append(("j" if low else "J", m, lv))
                        meta.append({"kind": "J", "m": m, "v": v})
                    if judge.get("contain") and vi < 3:
                        for li, it in enumerate(items):
                            t = it.etype
                            if isinstance(t, Base) and t.kind in ("bool", "byte"):
                                continue
                            sb = sut_c.leaf_storage_bytes(t) * 8
                            if it.width >= sb:
                                continue
                            if len(items) > 60 and rng.random() > 60 / len(items):
                                continue
                            for pat in overdrive_patterns(it.width, sb, rng)[: (6 if len(items) < 30 else 2)]:
                                lv2 = list(lv)
                                lv2[li] = pat
                                red = pat & ((1 << it.width) - 1)
                                v2 = ref.set_leaf(m, v, it.path, ref.to_signed(red, it.width) if it.signed else red)
                                reqs.append(("E", m, lv2))
                                meta.append({"kind": "O", "m": m, "v": v2, "exp": ref.encode(m, v2), "leaf": list(it.path),
                                             "pattern": hex(pat), "width": it.width})
            if not reqs:
                continue
            res.case(gen.is_nontrivial(sig), wit["schema"])
            res.sample({"schema": wit["schema"], "signature": sig}, 2)
            # ---- python twin ---------------------------------------------
            if mods is not None and judge.get("wire"):
                for mt in meta:
                    if mt["kind"] == "E":
                        try:
                            pyb = bytes(mods.build(mt["m"], mt["v"]).encode())
                            res.count("python_twin_encodes")
                            mt["py"] = pyb
                        except Exception:
                            res.count("python_twin_exceptions")
            # ---- per configuration ---------------------------------------
            for config in configs_for_case(ctx, case_id):
                try:
                    exe = sut_c.build(d, root, config)
                except sut_c.BuildError as e:
                    res.count("skipped_build_error")
                    res.observe("build_error_classes", classify_build_error(e.log))
                    break
                sess = CSession(exe, dg, config, "std")
                res.count(f"builds:{config}")
                ok = all(selftest_driver(res, sess, m, rng, wit) for m in dg.messages[:2])
                if not ok:
                    continue
                replies = sess.run(reqs)
                if len(replies) < len(reqs):
                    res.inconclusive.append(f"driver returned {len(replies)} replies for {len(reqs)} requests ({config})")
                for mt, r in zip(meta, replies):
                    judge_std_reply(ctx, mt, r, config, judge, wit)
                if config == "gcc-O0-sep" and not ctx.quick and case_id % 6 == 0:
                    memcheck_sample(ctx, sess, reqs[:240], wit)
                os.unlink(exe)
        finally:
            if mods is not None:
                mods.close()
            shutil.rmtree(d, ignore_errors=True)
        if ctx.replay is not None:
            break
    for name, n in contracts.COUNTS.items():
        res.count("contract_evals:" + name, n)


def memcheck_sample(ctx: Ctx, sess: "CSession", reqs, wit) -> None:
    """valgrind memcheck over a sample of the same requests: use of uninitialised storage that reaches the wire, the struct or printf."""
    import subprocess
    res = ctx.res
    cmds = []
    for op, m, payload in reqs:
        k = sess.idx(m)
        if op.upper() in ("E", "J", "R"):
            cmds.append(f"{op} {k} {sut_c.leaves_hex(payload)}")
        elif op.upper() == "D":
            cmds.append(f"{op} {k} {payload.hex()}")
        else:
            cmds.append(f"{op} {k}")
    try:
        p = subprocess.run(["valgrind", "-q", "--error-exitcode=99", "--track-origins=no", sess.exe], input="\n".join(cmds) + "\nQ\n",
                           capture_output=True, text=True, timeout=900)
    except subprocess.TimeoutExpired:
        res.count("memcheck_timeouts")
        return
    res.count("memcheck_runs")
    res.count("memcheck_requests", len(cmds))
    if p.returncode == 99:
        import re
        first = re.search(r"==\d+== ([A-Z][^\n]*)\n==\d+==\s+at 0x[0-9A-F]+: (\w+)", p.stderr)
        key = "c-memcheck:" + (first.group(1).split(" of size")[0].replace(" ", "-")[:40] + ":" + first.group(2) if first else "report")
        res.violation(key, f"valgrind memcheck [{sess.config}]: {first.group(1) if first else p.stderr[-200:]}", {**wit, "report": p.stderr[-2500:]})


def classify_build_error(log: str) -> str:
    import re
    m = re.search(r"error: ([^\n]{0,60})", log)
    s = m.group(1) if m else log[-80:]
    s = re.sub(r"[‘'`][^’']*[’']", "<id>", s)
    return s.strip()


def judge_std_reply(ctx: Ctx, mt: Dict[str, Any], r: Reply, config: str, judge: Dict[str, bool], wit: Dict[str, Any]) -> None:
    res = ctx.res
    m: Message = mt["m"]
    kind = mt["kind"]
    w = {**wit, "message": m.name, "config": config, "op": kind}
    if "v" in mt:
        w["value"] = mt["v"]
    memory = judge.get("bounds") or judge.get("wire") or (judge.get("json") and kind == "J") or (judge.get("contain") and kind == "O")
    if r.crash:
        if memory:
            res.violation(crash_key(r, kind), f"{m.name} [{config}] {kind}: {r.crash!r}"[:1200], {**w, "crash": r.crash.detail[-2500:]})
        return
    if r.status == "CANARY":
        if memory:
            res.violation(f"c-canary:{kind}", f"{m.name} [{config}] {kind}: bytes outside the object were modified ({r.canary})", w)
    elif r.status != "OK":
        res.inconclusive.append(f"driver error reply {r.raw!r} ({config}, {m.name}, {kind})"[:300])
        return
    if kind == "S":
        if judge.get("const"):
            res.count("c_size_constants_checked")
            if int(r.payload(2)) != ref.nbytes(m):
                res.violation("c-bytes-length", f"{sut_c.c_size_macro(m)}={r.payload(2)}, ceil({ref.nbits(m)}/8)={ref.nbytes(m)}", w)
        return
    if kind == "E":
        res.count(f"c_encodes:{config}")
        res.count("c_bounds_observed_calls")
        got = r.payload(1)
        if judge.get("wire"):
            res.count("c_encode_compared")
            if got != mt["exp"].hex():
                res.violation("c-encode-bytes", f"{m.name} [{config}]: Encode differs from the specified bytes", {**w, "got": got, "expected": mt["exp"].hex()})
            if "py" in mt:
                res.count("three_way_compared")
                if got != mt["py"].hex():
                    res.violation("c-vs-python-bytes", f"{m.name} [{config}]: C and Python encoders disagree", {**w, "c": got, "python": mt["py"].hex()})
        return
    if kind == "D":
        res.count(f"c_decodes:{config}")
        res.count("c_bounds_observed_calls")
        if judge.get("wire"):
            res.count("c_decode_compared")
            got = sut_c.leaves_from_reply(m, r.payload(1))
            want = ref.leaf_values(m, ref.normalise(m, mt["v"]))
            if got != want:
                bad = [k for k, (a, b) in enumerate(zip(got, want)) if a != b][:5]
                res.violation("c-decode-values", f"{m.name} [{config}]: Decode of the specified bytes gives other field values (leaves {bad})",
                              {**w, "bytes": mt["exp"].hex(), "got": got, "expected": want})
        return
    if kind == "O":
        res.count("c_overdrive_compared")
        got = r.payload(1)
        if got != mt["exp"].hex():
            res.violation("c-containment", f"{m.name} [{config}]: out-of-range storage {mt['pattern']} in leaf {mt['leaf']} (width {mt['width']}) "
                          f"changed bits outside the field", {**w, "got": got, "expected": mt["exp"].hex(), "leaf": mt["leaf"], "pattern": mt["pattern"]})
        return
    if kind == "J":
        res.count("c_json_texts")
        n1, n2 = int(r.payload(1)), int(r.payload(2))
        try:
            text = bytes.fromhex(r.payload(3)).decode()
        except Exception:
            res.violation("c-json-invalid", f"{m.name} [{config}]: Json output is not text", w)
            return
        res.count("c_json_termination_checked")
        if r.payload(4) != "t=1":
            res.violation("c-json-unterminated", f"{m.name} [{config}]: Json wrote {n2} characters into a buffer that held other bytes and did not terminate "
                          f"them: read as a C string (the documented printf(\"%s\", buf)) the text continues with the old content", {**w, "text": text[:200], "flag": r.payload(4)})
        if n1 != n2 or n1 != len(text.encode()):
            res.violation("c-json-length", f"{m.name} [{config}]: Json returned {n1}/{n2} for {len(text)} bytes of text", {**w, "text": text[:300]})
        try:
            got = json.loads(text, object_pairs_hook=list)
        except Exception as e:
            res.violation("c-json-invalid", f"{m.name} [{config}]: Json output is not valid JSON: {e}", {**w, "text": text[:600]})
            return
        want = ref.json_value(m, mt["v"])
        res.count("c_json_compared")
        if not strict_eq(got, want):
            res.violation("c-json-value", f"{m.name} [{config}]: Json states different values", {**w, "text": text[:800], "expected": want})


# ----------------------------------------------------------------------------
# optimisation-mode workload (C04 / C06-3 / C07 -O part)
# ----------------------------------------------------------------------------
OPT_VARIANTS = [("little", []), ("big", []), ("both", []), ("both", ["-DBP_BIG_ENDIAN"])]


def basis_values(m: Message, rng, n_random: int, max_bits: int = 2500) -> List[Tuple[str, Any]]:
    """zero, all-ones, every single leaf bit alone (zero + unit vectors determine every OR-of-input-bits output),
    per-leaf min / max / -1 / sign-bit-only for the non-monotone sign extension, plus random values."""
    out: List[Tuple[str, Any]] = []
    zero = ref.zero_value(m)
    items = ref.leaves(m)

    def legal(it, v):
        if isinstance(it.etype, Enum):
            return True  # C has no closed enums; any in-range number is a value of the typedef
        return True

    out.append(("zero", zero))
    out.append(("ones", ref.value_from_leaves(m, [(-1 if it.signed else (1 << it.width) - 1) for it in items])))
    total_bits = sum(it.width for it in items)
    stride = max(1, total_bits // max_bits)
    bitno = 0
    for it in items:
        for b in range(it.width):
            bitno += 1
            if stride > 1 and bitno % stride and b not in (0, it.width - 1):
                continue
            u = 1 << b
            out.append((f"bit{b}@{list(it.path)}", ref.set_leaf(m, zero, it.path, ref.to_signed(u, it.width) if it.signed else u)))
        if it.signed:
            lo, hi = -(1 << (it.width - 1)), (1 << (it.width - 1)) - 1
            for name, v in (("min", lo), ("max", hi), ("-1", -1)):
                out.append((f"{name}@{list(it.path)}", ref.set_leaf(m, zero, it.path, v)))
    for k in range(n_random):
        # C enums are plain integers: draw the whole range
        vals = []
        for it in items:
            if isinstance(it.etype, Enum):
                vals.append(rng.getrandbits(it.width) if rng.random() < 0.5 else gen.gen_leaf(rng, it.etype))
            else:
                vals.append(gen.gen_leaf(rng, it.etype))
        out.append((f"random{k}", ref.value_from_leaves(m, vals)))
    return out


def run_opt_cases(ctx: Ctx, n_cases: int, n_random: int, judge: Dict[str, bool], variants=None, configs=None) -> None:
    """judge keys: same (C04: -O == standard == reference), contain (C07), go (C04 Go clause)."""
    res = ctx.res
    contracts.install()
    variants = variants or OPT_VARIANTS
    for k in range(n_cases):
        if ctx.out_of_time():
            break
        case_id = ctx.shard + k * ctx.nshards
        rng = ctx.rng("optcase", case_id)
        if ctx.replay is not None:
            case_id = ctx.replay["witness"]["case"]
            rng = __import__("random").Random(f"{ctx.replay['seed']}:{ctx.prop}:{ctx.replay['witness']['shard']}:optcase:{case_id}")
        cfg = cfg_for_case(rng, case_id, traditional=True)
        cfg.msg_bits = min(cfg.msg_bits, 500 if ctx.quick else 1500)
        cfg.big_caps = False
        root = gen.gen_schema(rng, cfg)
        if case_id % 3 == 1:
            add_special_shapes(root, rng)
        top = ctx.casedir(f"o{case_id}")
        wit: Dict[str, Any] = {"case": case_id, "shard": ctx.shard}
        try:
            paths = __import__("vlib.emit", fromlist=["write_schema"]).write_schema(root, top, rng=rng, semi=0.3, comments=0.2, path_style="random", compact=0.15)
            wit["schema"] = describe(root, paths)
            dirs: Dict[str, str] = {}
            try:
                dstd = os.path.join(top, "std")
                sut_compiler.compile_schema(root, top, ["c"], outdir=dstd, paths=paths)
                dirs["std"] = dstd
                for endian in sorted({v[0] for v in variants}):
                    dd = os.path.join(top, "opt-" + endian)
                    sut_compiler.compile_schema(root, top, ["c"], outdir=dd, optimize=True, endian=endian, paths=paths)
                    dirs[endian] = dd
                if judge.get("go"):
                    dgo = os.path.join(top, "go")
                    sut_compiler.compile_schema(root, top, ["go"], outdir=dgo, optimize=True, paths=paths)
                    dirs["go"] = dgo
            except Exception as e:
                harness.compile_failed(res, e, wit)
                continue
            dg_std = sut_c.DriverGen(root, with_json=True)
            dg_opt = sut_c.DriverGen(root, with_json=False)
            sig = gen.schema_signature(root)
            reqs: List[Tuple[str, Message, Any]] = []
            meta: List[Dict[str, Any]] = []
            for m in dg_std.messages:
                items = ref.leaves(m)
                for name, v in basis_values(m, rng, n_random):
                    lv = ref.leaf_values(m, v)
                    exp = ref.encode(m, v)
                    reqs.append(("E", m, lv))
                    meta.append({"kind": "E", "m": m, "v": v, "exp": exp, "basis": name})
                    reqs.append(("D", m, exp))
                    meta.append({"kind": "D", "m": m, "v": v, "exp": exp, "basis": name})
                if judge.get("contain"):
                    v = gen.gen_value(rng, m, "mix")
                    lv = ref.leaf_values(m, ref.normalise(m, v))
                    for li, it in enumerate(items):
                        t = it.etype
                        if isinstance(t, Base) and t.kind in ("bool", "byte"):
                            continue
                        sb = sut_c.leaf_storage_bytes(t) * 8
                        if it.width >= sb:
                            continue
                        if len(items) > 60 and rng.random() > 60 / len(items):
                            continue
                        for pat in overdrive_patterns(it.width, sb, rng)[:4]:
                            lv2 = list(lv)
                            lv2[li] = pat
                            red = pat & ((1 << it.width) - 1)
                            v2 = ref.set_leaf(m, v, it.path, ref.to_signed(red, it.width) if it.signed else red)
                            reqs.append(("E", m, lv2))
                            meta.append({"kind": "O", "m": m, "v": v2, "exp": ref.encode(m, v2), "leaf": list(it.path),
                                         "pattern": hex(pat), "width": it.width})
            if not reqs:
                continue
            res.case(gen.is_nontrivial(sig), wit["schema"])
            res.sample({"schema": wit["schema"], "signature": sig, "basis_values": len(reqs) // 2}, 2)
            cfgs = configs or (["gcc-O0-sep", "gcc-O2-single", "gcc-asan-ubsan"] if ctx.quick else
                               ["gcc-O0-sep", "gcc-O2-single", "gcc-asan-ubsan", ["clang-O2-sep", "gcc-O3-single", "clang-O3-single", "gcc-Os-sep"][case_id % 4]])
            std_replies: Optional[List[Reply]] = None
            if judge.get("same"):
                try:
                    exe = sut_c.build(dirs["std"], root, "gcc-O0-sep")
                    std_replies = CSession(exe, dg_std, "gcc-O0-sep", "std").run(reqs)
                    res.count("builds:std")
                except sut_c.BuildError as e:
                    res.count("skipped_build_error")
                    res.observe("build_error_classes", classify_build_error(e.log))
                    continue
            for vi, (endian, defs) in enumerate(variants):
                vname = endian + ("+BP_BIG_ENDIAN" if defs else "")
                vcfgs = cfgs
                if ctx.quick and configs is None:
                    vcfgs = ["gcc-O0-sep", "gcc-asan-ubsan" if (case_id + vi) % 2 == 0 else "gcc-O2-single"]
                for config in vcfgs:
                    try:
                        exe = sut_c.build(dirs[endian], root, config, optimize=True, extra_flags=defs,
                                          driver_src=dg_opt.source())
                    except sut_c.BuildError as e:
                        res.count("skipped_build_error")
                        res.observe("build_error_classes", vname + ": " + classify_build_error(e.log))
                        continue
                    res.count(f"builds:opt-{vname}:{config}")
                    sess = CSession(exe, dg_opt, config, "opt-" + vname)
                    if not all(selftest_driver(res, sess, m, rng, wit) for m in dg_opt.messages[:1]):
                        continue
                    replies = sess.run(reqs)
                    for j, (mt, r) in enumerate(zip(meta, replies)):
                        judge_opt_reply(ctx, mt, r, std_replies[j] if std_replies else None, vname, config, judge, wit)
                    os.unlink(exe)
            if judge.get("go"):
                from props import gocommon
                gocommon.judge_go_opt(ctx, root, dirs["go"], dg_std.messages, meta, wit)
        finally:
            shutil.rmtree(top, ignore_errors=True)
        if ctx.replay is not None:
            break
    for name, n in contracts.COUNTS.items():
        res.count("contract_evals:" + name, n)


def judge_opt_reply(ctx: Ctx, mt: Dict[str, Any], r: Reply, std: Optional[Reply], vname: str, config: str,
                    judge: Dict[str, bool], wit: Dict[str, Any]) -> None:
    res = ctx.res
    m: Message = mt["m"]
    kind = mt["kind"]
    w = {**wit, "message": m.name, "config": config, "variant": vname, "op": kind, "value": mt.get("v"), "basis": mt.get("basis")}
    if r.crash:
        res.violation("opt-" + crash_key(r, kind), f"{m.name} [-O {vname} {config}] {kind}: {r.crash!r}"[:1200], {**w, "crash": r.crash.detail[-2500:]})
        return
    if r.status == "CANARY":
        res.violation(f"opt-c-canary:{kind}", f"{m.name} [-O {vname} {config}] {kind}: bytes outside the object were modified ({r.canary})", w)
    elif r.status != "OK":
        res.inconclusive.append(f"driver error reply {r.raw!r}"[:300])
        return
    if kind == "E":
        res.count("opt_encode_compared")
        res.count(f"opt_calls:{vname}")
        got = r.payload(1)
        if judge.get("same"):
            if got != mt["exp"].hex():
                res.violation(f"opt-encode-bytes:{vname.split('+')[0] if '+' not in vname else 'both+BE'}",
                              f"{m.name} [-O {vname} {config}] basis {mt['basis']}: -O Encode differs from the specified bytes",
                              {**w, "got": got, "expected": mt["exp"].hex()})
            if std is not None and std.status == "OK" and std.payload(1) != got:
                res.violation("opt-vs-standard-encode", f"{m.name} [-O {vname} {config}] basis {mt['basis']}: -O and standard mode encode differently",
                              {**w, "opt": got, "standard": std.payload(1)})
    elif kind == "D":
        res.count("opt_decode_compared")
        res.count(f"opt_calls:{vname}")
        if judge.get("same"):
            got = sut_c.leaves_from_reply(m, r.payload(1))
            want = ref.leaf_values(m, ref.normalise(m, mt["v"]))
            if got != want:
                bad = [k for k, (a, b) in enumerate(zip(got, want)) if a != b][:5]
                res.violation("opt-decode-values", f"{m.name} [-O {vname} {config}] basis {mt['basis']}: -O Decode gives other field values (leaves {bad})",
                              {**w, "bytes": mt["exp"].hex(), "got": got, "expected": want})
            if std is not None and std.status == "OK" and std.payload(1) != r.payload(1):
                res.violation("opt-vs-standard-decode", f"{m.name} [-O {vname} {config}] basis {mt['basis']}: -O and standard mode decode differently",
                              {**w, "opt": r.payload(1)[:400], "standard": std.payload(1)[:400]})
    elif kind == "O":
        res.count("opt_overdrive_compared")
        if judge.get("contain") and r.payload(1) != mt["exp"].hex():
            res.violation("opt-c-containment", f"{m.name} [-O {vname} {config}]: out-of-range storage {mt['pattern']} in leaf {mt['leaf']} "
                          f"(width {mt['width']}) changed bits outside the field", {**w, "got": r.payload(1), "expected": mt["exp"].hex()})
