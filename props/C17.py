"""C17 - -O and -F restrict what is generated without altering it."""
import os
import re
import shutil

from vlib import gen, harness, sut_compiler
from vlib.emit import write_schema
from vlib.gen import GenCfg
from vlib.model import Alias, Arr, File, Message, is_extensible_anywhere, iter_defs, messages_of
from vlib.sut_c import c_type_name
from props import pycommon

C_FUNC = re.compile(r"^int (Encode|Decode)(\w+)\(struct \w+ \*m, unsigned char \*s\) \{\n(.*?)^\}(?:\n|\Z)", re.M | re.S)
C_DECL = re.compile(r"^(?://[^\n]*\n)?int (Encode|Decode)(\w+)\(struct \w+ \*m, unsigned char \*s\);(?:\n|\Z)", re.M)
GO_FUNC = re.compile(r"^(?://[^\n]*\n)?func \(m \*(\w+)\) (Encode|Decode)\((?:s \[\]byte)?\)(?: \[\]byte)? \{\n(.*?)^\}(?:\n|\Z)", re.M | re.S)


def c_functions(text):
    return {(k, n): body for k, n, body in C_FUNC.findall(text)}


def strip_c(text):
    """C source with Encode/Decode definitions and the endian preamble removed."""
    t = C_FUNC.sub("", text)
    t = re.sub(r"#if !defined\(BP_BIG_ENDIAN\).*?#endif\n#ifdef BP_BIG_ENDIAN\n#include <string.h>\n#endif(?:\n|\Z)", "", t, flags=re.S)
    t = re.sub(r"#include <string.h>(?:\n|\Z)", "", t)
    return re.sub(r"\n{2,}", "\n", t).rstrip("\n")


def strip_h(text):
    return re.sub(r"\n{2,}", "\n", C_DECL.sub("", text)).rstrip("\n")


def go_functions(text):
    return {(k, n): body for n, k, body in GO_FUNC.findall(text)}


def strip_go(text):
    return re.sub(r"\n{2,}", "\n", GO_FUNC.sub("", text)).rstrip("\n")


def read(d, name):
    p = os.path.join(d, name)
    return open(p).read() if os.path.exists(p) else None


def put_marker(root, rng):
    """Make exactly one construct extensible, anywhere (main or imported file, message or array, any depth)."""
    spots = []
    for g in root.all_files():
        for d in iter_defs(g):
            if isinstance(d, Message):
                spots.append((g, d, "message"))
                spots += [(g, f.type, "array") for f in d.fields if isinstance(f.type, Arr)]
            elif isinstance(d, Alias) and isinstance(d.type, Arr):
                spots.append((g, d.type, "alias-array"))
    if not spots:
        return None
    g, obj, kind = rng.choice(spots)
    obj.ext = True
    return f"{kind} in {'imported' if g is not root else 'main'} file"


def contained_messages(m):
    """Messages that occur (through arrays and aliases) as field types of m."""
    from vlib.model import Alias, Arr, Ref
    out = []

    def walk(t):
        if isinstance(t, Arr):
            return walk(t.elem)
        if isinstance(t, Ref):
            if isinstance(t.target, Alias):
                return walk(t.target.type)
            if isinstance(t.target, Message) and t.target not in out:
                out.append(t.target)

    for fl in m.fields:
        walk(fl.type)
    return out


def add_aligned_element_shapes(root, rng):
    """Arrays of messages whose elements occupy whole bytes and start on byte boundaries (where an element's statements are exactly
    that element's own encoder), next to unaligned and odd-sized ones; scalar uses of the same messages."""
    from vlib.model import Alias, Arr, Base, Field, Ref
    tag = "".join(rng.choice("abcdefghijklmnopqrstuvwxyz") for _ in range(4)).capitalize()
    elem = Message("Elem" + tag)
    for k, w in enumerate(rng.choice([[8], [3, 5], [16, 8], [12, 4, 8], [7, 9, 16, 8]])):
        elem.add(Field("abcde"[k] + "_v", Base(rng.choice(["uint", "int"]), w), k + 1))
    odd = Message("Odd" + tag)
    odd.add(Field("o_v", Base("uint", rng.choice([3, 11, 13])), 1))
    root.add(elem)
    root.add(odd)
    row = root.add(Alias("Row" + tag, Arr(Ref(elem), rng.choice([2, 3]))))
    c = Message("Frame" + tag)
    n = 0
    for t in [Base("uint", 8), Arr(Ref(elem), rng.choice([2, 3, 6])), Ref(elem), Ref(row), Base("uint", 4), Arr(Ref(elem), 2), Arr(Ref(odd), 2),
              Base("uint", rng.choice([1, 4])), Arr(Ref(elem), 2)]:
        n += 1
        c.add(Field(f"f{'abcdefghijkl'[n]}", t, n))
    root.add(c)
    outer = Message("Outer" + tag)
    outer.add(Field("frames", Arr(Ref(c), 2), 1))
    outer.add(Field("tail", Ref(elem), 2))
    root.add(outer)


def worker(ctx):
    res = ctx.res
    if ctx.quick:
        n_cases = ctx.per_shard(160)
        ctx.set_budget(240)
    else:
        n_cases = ctx.per_shard(2560)
        ctx.set_budget(3300)
    for k in range(n_cases):
        if ctx.out_of_time():
            break
        case_id = ctx.shard + k * ctx.nshards
        rng = ctx.rng("case", case_id)
        if ctx.replay is not None:
            case_id = ctx.replay["witness"]["case"]
            rng = __import__("random").Random(f"{ctx.replay['seed']}:C17:{ctx.replay['witness']['shard']}:case:{case_id}")
        cfg = GenCfg(extensible=False, msg_bits=300, max_fields=5, n_top=(2, 6), p_nested=0.5)
        if case_id % 4 == 1:
            cfg.p_options = 0.0  # the marker adds 16 bits: a max_bytes option fitted to the traditional size would reject the control
        cfg.n_imports = (1, 1) if case_id % 3 == 0 else (0, 0)
        if case_id % 8 >= 4:
            cfg.p_same_short_name = 0.6   # `Telemetry.Sample` and `Command.Sample`: -F Sample names both
        root = gen.gen_schema(rng, cfg)
        if case_id % 8 == 4:
            gen.add_same_name_shapes(root, rng, ext_ok=False)
        mode = ["filter", "refuse-extensible", "refuse-args", "endian"][case_id % 4]
        if mode in ("filter", "endian") and case_id % 8 < 4:
            add_aligned_element_shapes(root, rng)
            res.count("cases_with_aligned_element_arrays")
        marker = None
        if mode == "refuse-extensible":
            marker = put_marker(root, rng)
            if marker is None:
                mode = "filter"
        top = ctx.casedir(case_id)
        wit = {"case": case_id, "shard": ctx.shard, "mode": mode}
        try:
            src = os.path.join(top, "src")
            os.makedirs(src)
            paths = write_schema(root, src, rng=rng, semi=0.3, comments=0.2, typedef=0.0)
            wit["schema"] = pycommon.describe(root, paths)
            main = paths[root.basename]
            base = root.basename
            res.case(True, wit["schema"], mode)
            res.sample({"mode": mode, "schema": wit["schema"]}, 2)
            res.count("mode:" + mode)

            def run(name, args):
                od = os.path.join(top, name)
                os.makedirs(od, exist_ok=True)
                rc, so, se = sut_compiler.cli(args[:1] + [main, od] + args[1:])
                res.count("cli_runs")
                return od, rc, se

            def must_refuse(name, args, why):
                od, rc, se = run(name, args)
                made = sorted(os.listdir(od))
                res.count("refusals_checked")
                if rc == 0 or made or not se.strip() or "Traceback" in se:
                    res.violation("not-refused:" + why, f"`bitproto {' '.join(args)}` must be refused ({why}): exit {rc}, files {made}, stderr {se[-200:]!r}",
                                  {**wit, "args": args, "why": why})

            if mode == "refuse-extensible":
                res.observe("marker_positions", marker)
                lang = rng.choice(["c", "go"])
                must_refuse("ext", [lang, "-O"], "extensible-marker:" + marker.split(" in ")[0])
                # control: the same schema compiles without -O
                od, rc, se = run("ext-std", [lang])
                if rc != 0:
                    res.violation("control-failed", f"schema with one extensible marker does not compile in standard mode: {se[-200:]}", wit)
                continue
            if mode == "refuse-args":
                must_refuse("pyO", ["py", "-O"], "language-without-optimization-mode")
                names = [m.name for m in messages_of(root)]
                must_refuse("F-noO", [rng.choice(["c", "go", "py"]), "-F", rng.choice([",".join(names[:2]) or "X", "", ",", " "])], "-F-without--O")
                od, rc, se = run("pyF", ["py", "-O", "-F", names[0] if names else "X"])
                if rc == 0 or os.listdir(od):
                    res.violation("not-refused:py -O -F", f"py -O -F accepted: exit {rc}", wit)
                continue
            # ---- unfiltered -O outputs (reference) ---------------------------------------------
            dc, rc1, se1 = run("c-all", ["c", "-O"])
            dg, rc2, se2 = run("go-all", ["go", "-O"])
            if rc1 or rc2:
                res.violation("traditional-refused", f"traditional schema refused by -O: {se1[-150:]} {se2[-150:]}", wit)
                continue
            c_all, h_all, go_all = read(dc, f"{base}_bp.c"), read(dc, f"{base}_bp.h"), read(dg, f"{base}_bp.go")
            msgs = messages_of(root)
            cf_all = c_functions(c_all)
            gf_all = go_functions(go_all)
            exp_all = {(k, c_type_name(m)) for m in msgs for k in ("Encode", "Decode")}
            res.count("unfiltered_function_sets_checked")
            if msgs and (not cf_all or not gf_all):
                # the textual function extractor no longer understands the generator's layout: that is the monitor's problem
                res.inconclusive.append("no Encode/Decode function could be extracted from unfiltered -O output (generator layout changed?)")
                continue
            if set(cf_all) != exp_all or set(gf_all) != exp_all:
                res.violation("unfiltered-function-set", f"-O without -F: C defines {sorted(set(cf_all) ^ exp_all)[:4]} / Go {sorted(set(gf_all) ^ exp_all)[:4]} differently from the message list", wit)
            if mode == "endian":
                outs = {}
                for e in ("little", "big", "both"):
                    od, rc, se = run("c-" + e, ["c", "-O", "--endian", e])
                    outs[e] = (read(od, f"{base}_bp.c"), read(od, f"{base}_bp.h"))
                    if rc:
                        res.violation("endian-refused", f"--endian {e} refused: {se[-150:]}", wit)
                if any(v[0] is None for v in outs.values()):
                    continue
                res.count("endian_triples_compared")
                if outs["both"][0] != c_all:
                    res.violation("endian-default", "--endian both differs from the default output", wit)
                hs = {e: outs[e][1] for e in outs}
                if len(set(hs.values())) != 1:
                    res.violation("endian-changes-header", "--endian changes the header", wit)
                stripped = {e: strip_c(outs[e][0]) for e in outs}
                if len(set(stripped.values())) != 1:
                    res.violation("endian-changes-outside-bodies", "--endian changes something outside the Encode/Decode bodies and the endian preamble",
                                  {**wit, "stripped": {e: stripped[e][:600] for e in stripped}})
                fs = {e: c_functions(outs[e][0]) for e in outs}
                if not (set(fs["little"]) == set(fs["big"]) == set(fs["both"]) == exp_all):
                    res.violation("endian-function-set", "--endian changes the set of Encode/Decode functions", wit)
                # `both` = `#ifndef BP_BIG_ENDIAN` little `#else` big `#endif`
                for key in fs["both"]:
                    want = "#ifndef BP_BIG_ENDIAN\n" + fs["little"][key].replace("    return 0;\n", "") + "#else\n" + fs["big"][key].replace("    return 0;\n", "") + "#endif\n    return 0;\n"
                    res.count("endian_bodies_compared")
                    if fs["both"][key] != want:
                        res.violation("endian-both-composition", f"{key}: the `both` body is not the little-endian body guarded by #ifndef BP_BIG_ENDIAN plus the big-endian body", {**wit, "function": list(key)})
                        break
                # go ignores --endian
                od, rc, se = run("go-big", ["go", "-O", "--endian", "big"])
                if read(od, f"{base}_bp.go") != go_all:
                    res.violation("endian-changes-go", "--endian changes the Go output", wit)
                continue
            # ---- filter --------------------------------------------------------------------------
            simple = [m.name for m in msgs]
            choice = rng.random()
            if choice < 0.07:
                chosen = [rng.choice(["", " ", "NoSuchMessage"])]  # an empty -F value names no message
            elif choice < 0.15:
                chosen = ["NoSuchMessage"]
            elif choice < 0.3 and simple:
                chosen = [rng.choice(simple), "NoSuchMessage"]
            else:
                chosen = rng.sample(simple, rng.randint(1, len(simple))) if simple else ["X"]
            subsets = [chosen]
            # -F must not change what --endian selects: for `little` and `big` the reference is the unfiltered output of the SAME --endian
            endian = [None, "little", "big"][(case_id // 4) % 3]
            if endian is not None:
                res.count("filter_cases_with_explicit_endian")
                dce, rce, see = run("c-all-" + endian, ["c", "-O", "--endian", endian])
                if rce:
                    res.violation("endian-refused", f"--endian {endian} refused: {see[-150:]}", wit)
                    continue
                c_all_e = read(dce, f"{base}_bp.c")
                cf_all, c_all = c_functions(c_all_e), c_all_e
            # a function's text must not depend on which OTHER functions are generated: name a container without the messages it
            # contains, the contained one alone, and both (an encoder that calls or shares code with another message's encoder
            # would have to change when that one is filtered out)
            pairs = [(m, e) for m in msgs for e in contained_messages(m) if e.name != m.name and e in msgs]
            rng.shuffle(pairs)
            for (m, e) in pairs[:2]:
                res.count("container_element_filter_pairs")
                subsets += [[m.name], [e.name], [m.name, e.name]]
            shared = sorted({n for n in simple if simple.count(n) > 1})
            for n in shared[:2]:
                res.count("filters_naming_a_short_name_shared_by_several_messages")
                subsets.append([n])
            hdecl_all = {(k, n) for k, n in C_DECL.findall(h_all)}
            if hdecl_all != exp_all:
                res.violation("unfiltered-declarations", "unfiltered header does not declare Encode/Decode for every message", wit)
            for si, chosen in enumerate(subsets):
                arg = (", " if rng.random() < 0.3 else ",").join(chosen)
                want = {(k, c_type_name(m)) for m in msgs if m.name in chosen for k in ("Encode", "Decode")}
                dcf, rc3, se3 = run(f"c-f{si}", ["c", "-O", "-F", arg] + (["--endian", endian] if endian else []))
                dgf, rc4, se4 = run(f"go-f{si}", ["go", "-O", "-F", arg])
                w = {**wit, "filter": arg}
                if rc3 or rc4:
                    res.violation("filter-refused", f"-O -F {arg} refused: {se3[-150:]} {se4[-150:]}", w)
                    continue
                c_f, h_f, go_f = read(dcf, f"{base}_bp.c"), read(dcf, f"{base}_bp.h"), read(dgf, f"{base}_bp.go")
                cf, gf = c_functions(c_f), go_functions(go_f)
                hdecl = {(k, n) for k, n in C_DECL.findall(h_f)}
                res.count("filter_cases_checked")
                res.count("filter_functions_expected", len(want))
                if set(cf) != want or hdecl != want:
                    res.violation("filter-function-set:c", f"-F {arg}: C defines {sorted(cf)} declares {sorted(hdecl)}, expected exactly {sorted(want)}", w)
                if set(gf) != want:
                    res.violation("filter-function-set:go", f"-F {arg}: Go defines {sorted(gf)}, expected exactly {sorted(want)}", w)
                for key in set(cf) & set(cf_all):
                    res.count("filtered_function_texts_compared")
                    if cf[key] != cf_all[key]:
                        res.violation("filter-alters-function:c", f"-F {arg}: {key} differs textually from the unfiltered -O output", w)
                for key in set(gf) & set(gf_all):
                    res.count("filtered_function_texts_compared")
                    if gf[key] != gf_all[key]:
                        res.violation("filter-alters-function:go", f"-F {arg}: {key} differs textually from the unfiltered -O output", w)
                if strip_h(h_f) != strip_h(h_all):
                    res.violation("filter-drops-declarations:h", f"-F {arg}: the header differs beyond the Encode/Decode declarations (type, constant or size declarations lost)", w)
                if strip_c(c_f) != strip_c(c_all):
                    res.violation("filter-changes-rest:c", f"-F {arg}: the .c file differs beyond the Encode/Decode definitions", w)
                if strip_go(go_f) != strip_go(go_all):
                    res.violation("filter-drops-declarations:go", f"-F {arg}: the Go file differs beyond the Encode/Decode methods", w)
        finally:
            shutil.rmtree(top, ignore_errors=True)
        if ctx.replay is not None:
            break


if __name__ == "__main__":
    harness.main(
        "C17", "props.C17", worker,
        rule=("case = generated traditional schema (every third with an imported file) driven through the real CLI in one of four modes: filter (random subset "
              "of message names incl. nested names, unknown names, `, ` separators, plus for up to two (container, contained message) pairs the subsets {container}, "
              "{contained}, {both}; half of the cases carry byte-aligned arrays of whole-byte messages: exactly the named messages get Encode/Decode definitions+declarations "
              "in C and methods in Go, each textually identical to the unfiltered -O output, and everything else in .h/.c/.go identical), refuse-extensible "
              "(exactly one extensible marker put on a message, field array or alias array in the main or an imported file: -O must be refused with a "
              "diagnostic, non-zero exit and no file, while standard mode accepts), refuse-args (py -O, -F without -O, py -O -F), endian (--endian "
              "little/big/both: header identical, nothing outside the bodies and the detection preamble changes, `both` is the guarded composition of the "
              "other two, Go unaffected)"),
        assumptions=["functions are delimited textually by the generator's own layout (signature line ... closing brace at column 0)"],
        required_counters=["cli_runs", "refusals_checked", "filter_cases_checked", "filter_functions_expected", "endian_triples_compared", "endian_bodies_compared",
                           "mode:refuse-extensible", "mode:refuse-args", "container_element_filter_pairs", "filtered_function_texts_compared", "cases_with_aligned_element_arrays",
                           "filters_naming_a_short_name_shared_by_several_messages", "filter_cases_with_explicit_endian"],
    )
