"""C10 - Every accepted schema yields code the target toolchains accept."""
import ast
import os
import re
import shutil
import subprocess
import traceback

from vlib import env, gen, harness, ref, sut_compiler, sut_gotext as G, sut_py
from vlib.emit import write_schema
from vlib.gen import GenCfg
from vlib.model import Alias, Arr, Base, Const, Enum, Field, File, Message, Ref, file_of, is_extensible_anywhere, iter_defs, messages_of, strip_alias
from vlib.monitors import contracts
from vlib.sut_c import c_type_name
from props import pycommon
from props.gocommon import names_of_transitive_imports

CC = ["gcc", "-std=c99", "-Wall", "-Werror=implicit-function-declaration", "-Wno-unused", "-c"]


def cfg_for(rng, k):
    c = GenCfg(msg_bits=400, max_fields=6, n_top=(2, 7), max_depth=4, p_nested=0.55, p_empty_msg=0.12, allow_empty_enum=True, empty_enum_fields=True)
    c.n_imports = [(0, 0), (1, 1), (1, 2), (2, 2), (2, 3)][k % 5]
    c.basename_differs = 0.5
    c.name_prefix = 0.3
    c.packing = 0.3
    c.bad_packing = 0.15
    c.digit_names = 0.3
    c.digit_fields = 0.3
    c.keyword_field = 0.15
    c.module_options = 0.15
    c.p_import_chain = 0.5
    c.p_transitive_ref = 0.5
    c.p_shared_as_name = 0.4
    c.p_subdir = 0.4
    c.p_odd_basename = 0.12
    c.extensible = k % 3 != 0
    return c


def add_collision_pattern(root, rng):
    """Message `<N>1` with an array at field d and message `<N>` with an array at field 1d: the generated internal helper names must differ."""
    base = "Quokka"
    d = rng.randint(1, 9)
    a = root.add(Message(base))
    a.add(Field("items", Arr(Base("uint", rng.choice([3, 8, 13])), 2), 10 + d))
    b = root.add(Message(base + "1"))
    b.add(Field("items", Arr(Base("byte"), 3), d))


def add_api_vs_typedef_pattern(root, rng):
    """Enum or alias named `Decode<M>` / `Json<M>` / `Encode<M>` beside message `<M>`: the C API function of the message and the
    typedef of the enum/alias are one identifier (known finding c-api-function-vs-typedef-name)."""
    base = "Gizmo"
    verb = rng.choice(["Decode", "Json", "Encode"])
    m = root.add(Message(base))
    m.add(Field("ok", Base("bool"), 1))
    if rng.random() < 0.5:
        root.add(Enum(verb + base, 3, [(f"{verb.upper()}_{base.upper()}_NONE", 0), (f"{verb.upper()}_{base.upper()}_SOME", 1)]))
    else:
        root.add(Alias(verb + base, Base("uint", 12)))


def api_typedef_collisions(root):
    """C identifiers that are both an Encode/Decode/Json function of a message and the typedef of an enum or alias."""
    out = set()
    for g in root.all_files():
        fns = {v + c_type_name(m) for m in messages_of(g) for v in ("Encode", "Decode", "Json")}
        out |= {c_type_name(d) for d in iter_defs(g) if isinstance(d, (Enum, Alias)) and c_type_name(d) in fns}
    return out


def add_class_body_rebinding_pattern(root, rng):
    """A field whose name the Python class body still needs afterwards: `field` (dataclasses.field builds the default of every later
    array/message field) or the bound name of an import that a later field refers to (known finding py-class-body-name-rebound-by-field)."""
    m = root.add(Message("Widget"))
    imps = [i for i in root.imports if any(isinstance(d, (Enum, Message)) and d.parent is i.file for d in iter_defs(i.file))]
    if imps and rng.random() < 0.6:
        imp = rng.choice(imps)
        tops = [d for d in iter_defs(imp.file) if isinstance(d, (Enum, Message)) and d.parent is imp.file and not (isinstance(d, Enum) and not d.members)]
        if tops:
            # written AFTER the reference (so the schema's own scoping is beyond doubt) but with the smaller field number: Python emits by number
            m.add(Field("later", Ref(rng.choice(tops)), 2))
            m.add(Field(imp.bound_name, Base("bool"), 1))
            return
    m.add(Field("field", Base("uint", 8), 1))
    m.add(Field("tail", Arr(Base("byte"), 3), 2))


def class_body_rebinding(root):
    """True when some message has a field named `field` or like a bound import name of its file (see above)."""
    for g in root.all_files():
        names = {"field"} | {i.bound_name for i in g.imports}
        for m in messages_of(g):
            if any(f.name in names for f in m.fields):
                return True
    return False


def add_alias_array_pattern(root, rng):
    """Alias `<N>` of an array and alias `Array<N>` of a base type: the array helper of the first and the alias helper of the
    second must not share a name."""
    n = "Zebra" + rng.choice(["Finch", "Heron", "Stork"])
    root.add(Alias(n, Arr(Base("uint", rng.choice([3, 8])), 2)))
    root.add(Alias("Array" + n, Base("uint", rng.choice([5, 8]))))
    m = root.add(Message("Uses" + n))
    m.add(Field("one", Ref(root.items[-3]), 1))
    m.add(Field("two", Ref(root.items[-2]), 2))


def add_same_proto_name_imports(root, rng):
    """Two different files that declare the same proto name, imported under different `as` names."""
    from vlib.model import Import
    made = []
    for k, tag in enumerate(("a", "b")):
        g = File("twinproto", basename=f"twinproto_{tag}")
        e = g.add(Enum(f"Twin{tag.upper()}Kind", 3, [(f"TWIN_{tag.upper()}_KIND_X", 0), (f"TWIN_{tag.upper()}_KIND_Y", 5)]))
        mm = g.add(Message(f"Twin{tag.upper()}Box"))
        mm.add(Field("k", Ref(e), 1))
        mm.add(Field("n", Base("uint", 9 + k), 2))
        imp = Import(g, f"tw{tag}")
        imp.parent = root
        pos = max([i + 1 for i, it in enumerate(root.items) if isinstance(it, Import)] or [0])
        root.items.insert(pos, imp)
        made.append(mm)
    m = root.add(Message("TwinUser"))
    m.add(Field("a", Ref(made[0]), 1))
    m.add(Field("b", Ref(made[1]), 2))


def has_empty_enum_field(t, seen=None):
    t = strip_alias(t)
    if isinstance(t, Arr):
        return has_empty_enum_field(t.elem)
    if isinstance(t, Ref):
        return has_empty_enum_field(t.target)
    if isinstance(t, Enum):
        return not t.members
    if isinstance(t, Message):
        return any(has_empty_enum_field(f.type) for f in t.fields)
    return False


def contains_empty_message(t):
    t = strip_alias(t)
    if isinstance(t, Arr):
        return contains_empty_message(t.elem)
    if isinstance(t, Ref):
        return contains_empty_message(t.target)
    if isinstance(t, Message):
        return not t.fields or any(contains_empty_message(f.type) for f in t.fields)
    return False


def imports_used_only_for_constants(g: File):
    """Bound names of imports that no TYPE reference of g goes through (known finding go-unused-import-constants-only)."""
    used_files = set()

    def ty(t):
        if isinstance(t, Ref):
            used_files.add(id(file_of(t.target)))
        elif isinstance(t, Arr):
            ty(t.elem)

    for d in iter_defs(g):
        if isinstance(d, Alias):
            ty(d.type)
        elif isinstance(d, Message):
            for f in d.fields:
                ty(f.type)
    return {imp.bound_name for imp in g.imports if id(imp.file) not in used_files}


GO_MESSAGE_WORDS = set("""line import declaration after other declarations redeclared in this block imported twice already declared through of
package method at receiver type is not file field and with the same name as a undefined invalid array length duplicate previous refers to an
unexported argument no new variables on left side multiple defaults switch case cannot use value without selector has or used""".split())


def go_problem_key(p: str) -> str:
    """Mechanism key of a static-check message: its wording with every identifier, literal and number masked."""
    toks = re.findall(r"\"[^\"]*\"|[A-Za-z_][\w.]*|\d+|[^\sA-Za-z_\d\"]+", p)
    out = []
    for t in toks:
        w = t if t in GO_MESSAGE_WORDS else ("#" if re.match(r"[\w\"]", t) else t)
        if not (w == "#" and out and out[-1] == "#"):
            out.append(w)
    return "go-static:" + " ".join(out)[:70]


def sh(cmd, cwd=None, timeout=300):
    p = subprocess.run(cmd, cwd=cwd, capture_output=True, text=True, timeout=timeout)
    return p.returncode, (p.stdout + p.stderr)


def layout_source(root, main_header):
    lines = ["#include <stdio.h>", "#include <stddef.h>", f'#include "{main_header}"', "int main(void) {"]
    for g in root.all_files():
        for m in messages_of(g):
            sn = c_type_name(m)
            lines.append(f'    printf("{sn} size %zu\\n", sizeof(struct {sn}));')
            for f in m.sorted_fields:
                lines.append(f'    printf("{sn}.{f.name} %zu\\n", offsetof(struct {sn}, {f.name}));')
    lines.append("    return 0; }")
    return "\n".join(lines) + "\n"


def api_source(root, main_header, with_json):
    lines = ["#include <string.h>", f'#include "{main_header}"', "int use_api(void) {", "    int n = 0;"]
    for g in root.all_files():
        for m in messages_of(g):
            sn = c_type_name(m)
            lines.append(f"    {{ struct {sn} m; memset(&m, 0, sizeof m); unsigned char s[{ref.nbytes(m) + 1}] = {{0}}; n += Encode{sn}(&m, s); n += Decode{sn}(&m, s);")
            if with_json:
                lines.append(f"      static char js[1 << 16]; n += Json{sn}(&m, js);")
            lines.append("    }")
    lines.append("    return n; }")
    lines.append("int main(void) { return use_api() < 0; }")
    return "\n".join(lines) + "\n"


def same_base_name_scenario(ctx):
    """Two imported files with one base name in different directories (`v1/msg.bitproto`, `v2/msg.bitproto`, both imported with
    `as`): every schema file must get an output file of its own.  Observed on the real compiler: each file is compiled into the
    same output directory and the bytes of `msg_bp.h` are compared before and after the second one (known finding
    output-file-name-collision:same-base-name-in-different-directories)."""
    res = ctx.res
    rng = ctx.rng("same-base-name")
    parse, _, render, _, errors = sut_compiler.bitproto_api()
    top = ctx.casedir("samebase")
    try:
        w1, w2 = rng.choice([(8, 64), (3, 17), (16, 24)])
        base = rng.choice(["msg", "common", "types"])
        d1, d2 = rng.sample(["v1", "v2", "radio", "gps", "a/b"], 2)
        texts = {f"{d1}/{base}.bitproto": f"proto {base}one\nmessage Hdr {{ uint{w1} id = 1 }}\n",
                 f"{d2}/{base}.bitproto": f"proto {base}two\nmessage Hdr {{ uint{w2} id = 1 }}\n",
                 "top.bitproto": f'proto top\nimport one "{d1}/{base}.bitproto"\nimport two "{d2}/{base}.bitproto"\nmessage Both {{ one.Hdr h1 = 1; two.Hdr h2 = 2 }}\n'}
        for fn, t in texts.items():
            os.makedirs(os.path.dirname(os.path.join(top, "src", fn)), exist_ok=True)
            with open(os.path.join(top, "src", fn), "w") as fh:
                fh.write(t)
        od = os.path.join(top, "out")
        os.makedirs(od)
        wit = {"scenario": "same-base-name", "schema": texts}
        written = {}
        try:
            with sut_compiler.quiet_stderr():
                for fn in texts:
                    outs = render(parse(os.path.join(top, "src", fn)), "c", outdir=od)
                    for o in outs:
                        data = open(o, "rb").read()
                        if o in written and written[o][1] != data:
                            res.violation("output-file-name-collision:same-base-name-in-different-directories",
                                          f"{fn} and {written[o][0]} are both written to {os.path.basename(o)}: the second compilation replaced the first (the importer includes one file for both)", wit)
                        written[o] = (fn, data)
        except errors.ParserError as e:
            res.count("same_base_name_scenario_rejected")  # a compiler that refuses the combination has no collision
            return
        res.count("same_base_name_scenarios")
    finally:
        shutil.rmtree(top, ignore_errors=True)


def worker(ctx):
    res = ctx.res
    contracts.install()
    if ctx.replay is None or ctx.replay["witness"].get("scenario") == "same-base-name":
        same_base_name_scenario(ctx)
        if ctx.replay is not None:
            return
    if ctx.quick:
        n_cases = ctx.per_shard(192)
        ctx.set_budget(250)
    else:
        n_cases = ctx.per_shard(3200)
        ctx.set_budget(3300)
    for k in range(n_cases):
        if ctx.out_of_time():
            break
        case_id = ctx.shard + k * ctx.nshards
        rng = ctx.rng("case", case_id)
        if ctx.replay is not None:
            case_id = ctx.replay["witness"]["case"]
            rng = __import__("random").Random(f"{ctx.replay['seed']}:C10:{ctx.replay['witness']['shard']}:case:{case_id}")
        cfg = cfg_for(rng, case_id)
        if case_id % 4 == 2:
            cfg.p_same_short_name = 0.6
        root = gen.gen_schema(rng, cfg)
        if case_id % 6 == 1:
            gen.add_same_name_shapes(root, rng, ext_ok=cfg.extensible)
            res.count("feature:same_short_name_under_two_messages")
        if case_id % 5 == 0:
            add_collision_pattern(root, rng)
        if case_id % 7 == 1:
            add_alias_array_pattern(root, rng)
            res.count("feature:alias_named_Array_of_alias")
        if case_id % 7 == 2:
            add_same_proto_name_imports(root, rng)
            res.count("feature:two_imports_with_the_same_proto_name")
        if case_id % 11 == 3:
            add_api_vs_typedef_pattern(root, rng)
            res.count("feature:enum_or_alias_named_like_a_message_api_function")
        if case_id % 11 == 5:
            add_class_body_rebinding_pattern(root, rng)
            res.count("feature:field_named_like_a_name_the_python_class_body_needs")
        top = ctx.casedir(case_id)
        wit = {"case": case_id, "shard": ctx.shard}
        try:
            src = os.path.join(top, "src")
            os.makedirs(src)
            paths = write_schema(root, src, rng=rng, semi=0.3, comments=0.3, path_style="random", compact=0.15)
            wit["schema"] = pycommon.describe(root, paths)
            trad = not is_extensible_anywhere(root)
            files = root.all_files()
            res.case(gen.is_nontrivial(gen.schema_signature(root)), wit["schema"])
            res.sample({"schema": wit["schema"]}, 1)
            sig = gen.schema_signature(root)
            for feat in ("imports", "nested", "aliases", "ext_msgs"):
                if sig[feat]:
                    res.count("feature:" + feat)
            if any(g.basename != g.proto_name for g in files):
                res.count("feature:file_name_differs_from_proto_name")
            if any(g.subdir for g in files):
                res.count("feature:imported_file_in_subdirectory")
            if any(h.imports for g in files if g is not root for h in [g]):
                res.count("feature:import_chain")
            direct = {id(i.file) for i in root.imports}
            if any(id(g) not in direct for g in files if g is not root):
                res.count("feature:file_reached_only_through_an_import_of_an_import")
            if any(i.bound_name in {j.bound_name for g in files if g is not root for j in g.imports if j.file is not i.file} for i in root.imports):
                res.count("feature:bound_name_reused_for_another_file")
            # ---- render everything (no internal error allowed) -------------------------------------
            outs = {"std": os.path.join(top, "std")}
            if trad:
                outs["opt"] = os.path.join(top, "opt")
                outs["optF"] = os.path.join(top, "optF")
            ok = True
            parse, _, render, _, errors = sut_compiler.bitproto_api()
            for mode, od in outs.items():
                os.makedirs(od)
                for g in files:
                    try:
                        with sut_compiler.quiet_stderr():
                            proto = parse(paths[g.basename], traditional_mode=(mode != "std"))
                            filt = None
                            if mode == "optF":
                                names = [m.name for m in messages_of(g)]
                                filt = rng.sample(names, max(1, len(names) // 2)) if names else ["None"]
                            for lang in (("c", "py", "go") if mode == "std" else ("c", "go")):
                                render(proto, lang, outdir=od, optimization_mode=(mode != "std"), optimization_mode_filter_messages=filt)
                    except errors.ParserError as e:
                        if type(e).__name__ == "InvalidOptionValue" and any(g2.option("c.struct_packing_alignment") in (3, 5, 6, 7) for g2 in files):
                            res.count("rejected:packing_alignment_not_a_power_of_two")  # accepted, it would have to compile as C
                            ok = False
                            break
                        res.violation("generator-schema-rejected", f"schema rejected: {type(e).__name__}: {str(e)[:200]}", wit)
                        ok = False
                        break
                    except Exception as e:
                        tb = traceback.format_exc()
                        res.violation(f"render-internal:{mode}:{type(e).__name__}", f"rendering ({mode}) raised {type(e).__name__}: {e}", {**wit, "traceback": tb[-1200:]})
                        ok = False
                        break
                if not ok:
                    break
            if not ok:
                continue
            main_h = f"{root.basename}_bp.h"
            # ---- generated files referred to exist ---------------------------------------------------
            for mode, od in outs.items():
                for g in files:
                    h = open(os.path.join(od, f"{g.basename}_bp.h")).read()
                    for inc in re.findall(r'#include "([^"]+)"', h):
                        res.count("include_targets_checked")
                        if inc != "bitproto.h" and not os.path.exists(os.path.join(od, inc)):
                            res.violation("include-of-unwritten-file", f"{g.basename}_bp.h ({mode}) includes {inc!r}, which the compiler did not write (files: {sorted(os.listdir(od))[:8]})", {**wit, "mode": mode})
            # ---- C: compile each file, link, no duplicate symbols --------------------------------------
            for mode, od in outs.items():
                objs = []
                bad = False
                for g in files:
                    rc, log = sh(CC + ["-I", od, "-I", env.CLIB_DIR, f"{g.basename}_bp.c", "-o", f"{g.basename}_bp.o"], cwd=od)
                    res.count("c_files_compiled")
                    if rc != 0:
                        err = re.search(r"error: ([^\n]*)", log)
                        key = "c-compile:" + re.sub(r"[‘'`][^’']*[’']", "<id>", err.group(1) if err else "?")[:50]
                        q = re.search(r"[‘'`](\w+)[’'] redeclared as different kind of symbol", log)
                        if q and q.group(1) in api_typedef_collisions(root):
                            key = "c-api-function-vs-typedef-name"
                        res.violation(key, f"{g.basename}_bp.c ({mode}) does not compile as C99: {err.group(1) if err else log[-300:]}", {**wit, "mode": mode, "log": log[-1500:]})
                        bad = True
                        break
                    objs.append(f"{g.basename}_bp.o")
                if bad:
                    continue
                with open(os.path.join(od, "api.c"), "w") as fh:
                    fh.write(api_source(root, main_h, with_json=(mode == "std")))
                if mode == "optF":
                    # -F leaves some messages without functions: C compile-only, plus the header through a C++ compiler
                    with open(os.path.join(od, "hdr.cpp"), "w") as fh:
                        fh.write(f'#include "{main_h}"\nint main() {{ return 0; }}\n')
                    rc, log = sh(["g++", "-std=c++11", "-w", "-fsyntax-only", "-I", od, "-I", env.CLIB_DIR, "hdr.cpp"], cwd=od)
                    res.count("cxx_header_syntax_checks")
                    if rc != 0:
                        err = re.search(r"error: ([^\n]*)", log)
                        res.violation("cxx-build", f"{main_h} (-O -F) cannot be included from C++: {err.group(1) if err else log[-300:]}", {**wit, "mode": mode})
                    continue
                lib = [os.path.join(env.CLIB_DIR, "bitproto.c")] if mode == "std" else []
                rc, log = sh(["gcc", "-std=gnu99", "-w", "-I", od, "-I", env.CLIB_DIR, "api.c"] + objs + lib + ["-o", "api_c"], cwd=od)
                res.count("c_links")
                if rc != 0:
                    dup = "multiple definition" in log
                    res.violation("c-link:" + ("duplicate-symbol" if dup else "other"), f"linking the generated C ({mode}) fails: {log[-400:]}", {**wit, "mode": mode})
                    continue
                # ---- C++: header usable, same layout ------------------------------------------------------
                shutil.copy(os.path.join(od, "api.c"), os.path.join(od, "api.cpp"))
                rc, log = sh(["g++", "-std=c++11", "-w", "-I", od, "-I", env.CLIB_DIR, "api.cpp"] + objs +
                             (["-x", "c", lib[0], "-x", "none"] if lib else []) + ["-o", "api_cpp"], cwd=od)
                res.count("cxx_builds")
                if rc != 0:
                    err = re.search(r"error: ([^\n]*)", log)
                    res.violation("cxx-build", f"a C++ translation unit including {main_h} ({mode}) and calling the API does not build: {err.group(1) if err else log[-300:]}",
                                  {**wit, "mode": mode, "log": log[-1200:]})
                    continue
                with open(os.path.join(od, "layout.c"), "w") as fh:
                    fh.write(layout_source(root, main_h))
                shutil.copy(os.path.join(od, "layout.c"), os.path.join(od, "layout.cpp"))
                r1, l1 = sh(["gcc", "-std=gnu99", "-w", "-I", od, "-I", env.CLIB_DIR, "layout.c", "-o", "layout_c"], cwd=od)
                r2, l2 = sh(["g++", "-std=c++11", "-w", "-I", od, "-I", env.CLIB_DIR, "layout.cpp", "-o", "layout_cpp"], cwd=od)
                if r1 or r2:
                    res.violation("layout-program-build", f"sizeof/offsetof program does not build ({mode}): {(l1 + l2)[-300:]}", {**wit, "mode": mode})
                    continue
                o1 = subprocess.run([os.path.join(od, "layout_c")], capture_output=True, text=True).stdout.splitlines()
                o2 = subprocess.run([os.path.join(od, "layout_cpp")], capture_output=True, text=True).stdout.splitlines()
                res.count("layout_tables_compared")
                diff = [(a, b) for a, b in zip(o1, o2) if a != b]
                if diff or len(o1) != len(o2):
                    # mechanism test for the known finding: every differing struct is empty or contains an empty message
                    msgs = {c_type_name(m): m for g in files for m in messages_of(g)}
                    names = {a.split()[0].split(".")[0] for a, b in diff}
                    key = "cxx-layout-differs"
                    if names and all(n in msgs and contains_empty_message(msgs[n]) for n in names):
                        key = "cxx-layout:empty-struct"
                    res.violation(key, f"sizeof/offsetof differ between C and C++ ({mode}): {diff[:4]}", {**wit, "mode": mode, "diff": diff[:10]})
            # ---- Python: import, no duplicate declarations, instantiate, run the generated methods ----
            od = outs["std"]
            for g in files:
                text = open(os.path.join(od, f"{g.basename}_bp.py")).read()
                try:
                    tree = ast.parse(text)
                except SyntaxError as e:
                    odd = [i.file.basename for i in g.imports if not i.file.basename.isidentifier()]
                    line = text.split("\n")[e.lineno - 1] if e.lineno and e.lineno <= len(text.split("\n")) else ""
                    if odd and line.startswith("import ") and any(b in line for b in odd):
                        res.violation("py-import-statement-from-file-name", f"{g.basename}_bp.py: `{line}` is no Python (imported file name {odd[0]!r})", wit)
                    else:
                        res.violation("python-syntax", f"{g.basename}_bp.py is not valid Python: {e}", wit)
                    continue
                names = []
                for node in tree.body:
                    if isinstance(node, (ast.ClassDef, ast.FunctionDef)):
                        names.append(node.name)
                    elif isinstance(node, ast.AnnAssign) and isinstance(node.target, ast.Name):
                        names.append(node.target.id)
                    elif isinstance(node, ast.Assign):
                        names += [t.id for t in node.targets if isinstance(t, ast.Name)]
                dups = sorted({n for n in names if names.count(n) > 1})
                res.count("python_modules_checked")
                if dups:
                    res.violation("python-duplicate-declaration", f"{g.basename}_bp.py declares {dups[:4]} more than once", wit)
            try:
                mods = sut_py.PyModules(od, root)
            except Exception as e:
                tb = traceback.format_exc()
                key = f"python-import:{type(e).__name__}"
                if isinstance(e, (SyntaxError, ModuleNotFoundError)) and any(not i.file.basename.isidentifier() for g2 in files for i in g2.imports) \
                        and re.search(r"import [\w.-]*[.-][\w.-]*_bp|No module named '[\w-]+\.", tb + str(e)):
                    key = "py-import-statement-from-file-name"
                if class_body_rebinding(root) and re.search(r"object is not callable|object has no attribute", str(e)) and re.search(r", in (Widget|\w+)\n", tb):
                    key = "py-class-body-name-rebound-by-field"
                res.violation(key, f"generated Python does not import: {type(e).__name__}: {str(e)[:200]}", {**wit, "traceback": tb[-1000:]})
                mods = None
            if mods is not None:
                try:
                    for g in files:
                        for m in messages_of(g):
                            res.count("python_classes_instantiated")
                            try:
                                obj = mods.new(m)
                                if not has_empty_enum_field(m):
                                    data = obj.encode()
                                    mods.new(m).decode(data)
                                    obj.to_dict()
                                    obj.to_json()
                                    res.count("python_methods_executed")
                            except Exception as e:
                                tb = traceback.format_exc()
                                res.violation(f"python-instantiate:{type(e).__name__}", f"{m.name}: instantiating/using the generated class with defaults raised {type(e).__name__}: {str(e)[:200]}",
                                              {**wit, "message": m.name, "traceback": tb[-1000:]})
                finally:
                    mods.close()
            # ---- Go: static part --------------------------------------------------------------------------
            for mode in (["std", "opt"] if trad else ["std"]):
                od = outs[mode]
                parsed = {}
                for g in files:
                    text = open(os.path.join(od, f"{g.basename}_bp.go")).read()
                    try:
                        parsed[g.basename] = G.parse_file(text)
                    except G.GoParseError as e:
                        parsed[g.basename] = None
                        res.violation("go-syntax", f"{g.basename}_bp.go ({mode}): {e}", {**wit, "mode": mode})
                for g in files:
                    if parsed[g.basename] is None:
                        continue
                    imported = {imp.bound_name: parsed[imp.file.basename] for imp in g.imports if parsed.get(imp.file.basename) is not None}
                    problems = G.static_check(parsed[g.basename], imported)
                    res.count("go_files_checked")
                    const_only = imports_used_only_for_constants(g)
                    transitive = names_of_transitive_imports(g)
                    for p in problems:
                        key = go_problem_key(p)
                        if ("unused" in p or "not used" in p) and any(re.search(r"\b%s\b" % re.escape(n), p) for n in const_only):
                            key = "go-unused-import-constants-only"
                        m = re.search(r"undefined: (\w+) \(in (\w+)\.|undefined: (\w+)\.\w+$", p)
                        if m and (m.group(1) or m.group(3)) in transitive:
                            key = "go-transitive-import-reference"
                        res.violation(key, f"{g.basename}_bp.go ({mode}): {p}", {**wit, "mode": mode, "problem": p})
        finally:
            shutil.rmtree(top, ignore_errors=True)
        if ctx.replay is not None:
            break


if __name__ == "__main__":
    harness.main(
        "C10", "props.C10", worker,
        rule=("case = composition-heavy generated schema: 0-3 imported files with/without `as` (import chains, files reached only as `b.c.M`, a bound name reused "
              "for another file by an imported file, imported files in subdirectories with relative paths), doc comments drawn from a pool of texts that are special "
              "in C/Go/Python comments and strings, digit components in field names, file names different from proto names, nesting to depth 4, aliases "
              "and arrays in every position, c.name_prefix / c.struct_packing_alignment / py.module_name / go.package_path, empty messages and enums, type names "
              "ending in digits, a field named `type`, every fifth case the `N`/`N1` array-field pattern; all files rendered for c, py, go in standard mode and "
              "(traditional schemas) -O and -O -F; judged by the real toolchains: gcc -std=c99 -Wall -Werror=implicit-function-declaration per file, link of all "
              "objects with a caller of every Encode/Decode/Json (duplicate symbols), g++ building the same caller through the header, C vs C++ sizeof/offsetof "
              "tables printed by two real programs, #include targets exist, Python ast (duplicate top-level declarations), import, instantiation and execution "
              "of encode/decode/to_dict/to_json with defaults, and for Go the static part (sut_gotext.static_check: syntax, declared identifiers, used imports, "
              "duplicates) in standard and -O mode; non-trivial/distinct as in C01"),
        assumptions=["identifiers come from curated pools clear of reserved words; flattened names are distinct by construction",
                     "Go is checked statically by my parser only (no toolchain); Go import PATHS are not judged (a path names a package directory, not a generated file)"],
        required_counters=["c_files_compiled", "c_links", "cxx_builds", "layout_tables_compared", "python_classes_instantiated", "python_methods_executed",
                           "go_files_checked", "include_targets_checked", "feature:imports", "feature:nested", "feature:file_name_differs_from_proto_name",
                           "feature:imported_file_in_subdirectory", "feature:import_chain", "feature:file_reached_only_through_an_import_of_an_import",
                           "feature:bound_name_reused_for_another_file"],
    )
