"""C05 - Forward compatibility: an older schema decodes data from an extended one."""
import copy
import os
import shutil
import traceback

from vlib import gen, harness, ref, sut_c, sut_compiler, sut_py
from vlib.gen import GenCfg
from vlib.model import Alias, Arr, Base, Enum, Field, File, Message, Ref, iter_defs, messages_of
from vlib.monitors import contracts, py_trace
from props import ccommon, pycommon


def devolve(new_root: File, rng):
    """Older version of a schema: a deep copy in which extensible messages lost some of their highest-numbered
    fields and extensible arrays some capacity (so new = old + the two permitted extension steps).
    Returns (old_root, memo: id(new def) -> old def, number of steps undone)."""
    memo = {}
    old = copy.deepcopy(new_root, memo)
    steps = 0
    for g in old.all_files():
        for d in iter_defs(g):
            arrays = []
            if isinstance(d, Message):
                if d.ext and d.fields and rng.random() < 0.6:
                    fs = d.sorted_fields
                    k = rng.randint(1, len(fs))
                    if rng.random() < 0.7:
                        k = min(k, 2)
                    drop = set(id(f) for f in fs[len(fs) - k:])
                    d.items = [it for it in d.items if id(it) not in drop]
                    steps += 1
                arrays = [f.type for f in d.fields if isinstance(f.type, Arr)]
            elif isinstance(d, Alias) and isinstance(d.type, Arr):
                arrays = [d.type]
            for a in arrays:
                if a.ext and a.cap > 1 and rng.random() < 0.7:
                    a.cap = rng.randint(1, a.cap - 1)
                    a.cap_const = None
                    steps += 1
    return old, memo, steps


def handmade(rng, k):
    """Shapes the statement names explicitly: a field after every extended region, arrays of extensible
    messages whose element is itself extended, nested extension."""
    f = File(f"evo{k}")
    inner = f.add(Message("Inner", ext=True))
    inner.add(Field("a", gen.pick_base(rng), 1))
    inner.add(Field("b", gen.pick_base(rng), 2))
    inner.add(Field("c", Arr(gen.pick_base(rng), rng.choice([1, 2, 3, 7]), ext=rng.random() < 0.5), 3))
    # 2-D / 3-D arrays through aliases, extensible at every level: the element of an extensible array can itself grow
    row = f.add(Alias("Row", Arr(gen.pick_base(rng), rng.choice([2, 3, 4]), ext=rng.random() < 0.8)))
    plane = f.add(Alias("Plane", Arr(Ref(row), rng.choice([2, 3]), ext=rng.random() < 0.8)))
    mid = f.add(Message("Middle", ext=rng.random() < 0.7))
    mid.add(Field("head", gen.pick_base(rng), 1))
    mid.add(Field("items", Arr(Ref(inner), rng.choice([1, 2, 3, 5]), ext=True), 2))
    mid.add(Field("after_items", gen.pick_base(rng), 3))
    mid.add(Field("one", Ref(inner), 4))
    mid.add(Field("after_one", gen.pick_base(rng), 5))
    mid.add(Field("bits", Arr(Base("bool"), rng.choice([6, 9, 20, 33]), ext=True), 6))
    mid.add(Field("after_bits", Base("uint", rng.choice([3, 11, 16])), 7))
    mid.add(Field("table", Arr(Ref(row), rng.choice([2, 3]), ext=True), 8))
    mid.add(Field("after_table", Base("uint", rng.choice([7, 9])), 9))
    mid.add(Field("cube", Arr(Ref(plane), 2, ext=rng.random() < 0.7), 10))
    mid.add(Field("after_cube", Base("int", rng.choice([6, 12])), 11))
    mid.add(Field("flat", Ref(plane), 12))
    mid.add(Field("after_flat", Base("bool"), 13))
    top = f.add(Message("Packet", ext=rng.random() < 0.5))
    top.add(Field("m", Ref(mid), 1))
    top.add(Field("tail", Base("int", rng.choice([5, 13, 24, 64])), 2))
    top.add(Field("ms", Arr(Ref(mid), 2), 3))
    top.add(Field("end", Base("byte"), 4))
    return f


def worker(ctx):
    res = ctx.res
    bp, tr = pycommon.setup_monitors()
    if ctx.quick:
        n_cases, n_values, c_every = ctx.per_shard(240), 8, 5
        ctx.set_budget(240)
    else:
        n_cases, n_values, c_every = ctx.per_shard(4000), 20, 8
        ctx.set_budget(3300)
    for k in range(n_cases):
        if ctx.out_of_time():
            break
        case_id = ctx.shard + k * ctx.nshards
        rng = ctx.rng("case", case_id)
        if ctx.replay is not None:
            case_id = ctx.replay["witness"]["case"]
            rng = __import__("random").Random(f"{ctx.replay['seed']}:C05:{ctx.replay['witness']['shard']}:case:{case_id}")
        if case_id % 3 == 0:
            newest = handmade(rng, case_id)
        else:
            cfg = GenCfg(p_ext_msg=0.7, p_ext_arr=0.7, msg_bits=500, p_nested=0.4)
            if case_id % 3 == 1:
                cfg.n_imports = (1, 1)
            newest = gen.gen_schema(rng, cfg)
        # chain: versions[0] newest ... versions[-1] oldest
        versions = [(newest, None)]
        chain_len = rng.choice([2, 2, 3])
        total_steps = 0
        cur = newest
        for _ in range(chain_len - 1):
            old, memo, steps = devolve(cur, rng)
            total_steps += steps
            versions.append((old, memo))
            cur = old
        if total_steps == 0:
            res.count("cases_without_extension")
            continue
        top = ctx.casedir(case_id)
        wit = {"case": case_id, "shard": ctx.shard}
        # C decoders: every hand-shaped case (cheap, and they hold the shapes the statement names) and a sample of the random ones
        use_c = case_id % 3 == 0 or case_id % c_every == 0
        try:
            dirs = []
            try:
                for vi, (root, _) in enumerate(versions):
                    d = os.path.join(top, f"v{vi}")
                    os.makedirs(d)
                    comp = sut_compiler.compile_schema(root, d, ["py", "c"] if use_c else ["py"])
                    dirs.append((d, comp))
            except Exception as e:
                harness.compile_failed(res, e, wit)
                continue
            wit["schemas"] = {f"v{vi} ({'newest' if vi == 0 else 'older'})": pycommon.describe(r, dirs[vi][1]["paths"]) for vi, (r, _) in enumerate(versions)}
            res.case(True, wit["schemas"])
            res.sample({"schemas": wit["schemas"], "extension_steps": total_steps}, 2)
            res.count("extension_steps", total_steps)
            # ---- newest side: values and buffers ---------------------------
            new_msgs = []
            for g in newest.all_files():
                new_msgs.extend(messages_of(g))
            try:
                mods_new = sut_py.PyModules(dirs[0][0], newest)
            except Exception as e:
                res.count("skipped_import_error")
                continue
            cases = []  # (new message, value, {source: bytes})
            try:
                for m in new_msgs:
                    for v in gen.gen_values(rng, m, n_values):
                        bufs = {"reference": ref.encode(m, v)}
                        try:
                            bufs["python"] = bytes(mods_new.build(m, v).encode())
                        except Exception as e:
                            res.count("new_side_encode_exceptions")
                        cases.append((m, v, bufs))
            finally:
                mods_new.close()
            if use_c:
                try:
                    exe = sut_c.build(dirs[0][0], newest, "gcc-O0-sep")
                    dgn = sut_c.DriverGen(newest)
                    sess = ccommon.CSession(exe, dgn, "gcc-O0-sep", "std")
                    replies = sess.run([("E", m, ref.leaf_values(m, v)) for (m, v, _) in cases])
                    for (m, v, bufs), r in zip(cases, replies):
                        if r.status == "OK":
                            bufs["c"] = bytes.fromhex(r.payload(1))
                except sut_c.BuildError:
                    res.count("skipped_build_error")
                    use_c = False
            for (m, v, bufs) in cases:
                for src in ("python", "c"):
                    if src in bufs and bufs[src] != bufs["reference"]:
                        res.count("new_side_encoder_differs_from_reference")  # judged by C01/C03, only counted here
            # ---- every older version decodes -------------------------------
            maps = {id(m): m for m in new_msgs}
            cur_map = dict(maps)  # id(new def) -> def in current older version
            maps_by_version = {0: dict(maps)}
            for vi in range(1, len(versions)):
                old_root, memo = versions[vi]
                cur_map = {nid: memo[id(d)] for nid, d in cur_map.items() if id(d) in memo}
                maps_by_version[vi] = dict(cur_map)
                try:
                    mods_old = sut_py.PyModules(dirs[vi][0], old_root)
                except Exception as e:
                    res.count("skipped_import_error")
                    continue
                creqs, cmeta = [], []
                try:
                    for (m_new, v, bufs) in cases:
                        m_old = cur_map.get(id(m_new))
                        if m_old is None:
                            continue
                        want = ref.project(m_old, m_new, v)
                        extended = ref.nbits(m_old) != ref.nbits(m_new)
                        w = {**wit, "message": m_new.name, "older_version": f"v{vi}", "value": v}
                        # one process, senders of SEVERAL versions: the decoder's own version first, then every version between, then the
                        # newest - whatever a decoder remembers about "the" peer is wrong for the next one.  All of them carry the same
                        # values for the fields this version knows.
                        mixed = {}
                        try:
                            mixed[f"sender-v{vi}-own-version"] = ref.encode(m_old, want)
                            for vj in range(vi - 1, 0, -1):
                                m_mid = maps_by_version[vj].get(id(m_new))
                                if m_mid is not None and ref.nbits(m_mid) != ref.nbits(m_old):
                                    mixed[f"sender-v{vj}"] = ref.encode(m_mid, ref.project(m_mid, m_new, v))
                        except Exception:
                            mixed = {}
                        res.count("py_old_decodes_of_other_sender_versions", len(mixed))
                        for src, buf in list(mixed.items()) + list(bufs.items()) + list(mixed.items())[:1]:
                            res.count("py_old_decodes")
                            if extended:
                                res.count("py_old_decodes_of_extended_messages")
                            fresh = None
                            try:
                                fresh = mods_old.new(m_old)
                                tr.begin()
                                try:
                                    fresh.decode(bytearray(buf))
                                finally:
                                    calls, problems = tr.end()
                                got = mods_old.read(m_old, fresh)
                            except Exception as e:
                                tb = traceback.format_exc()
                                key = pycommon.classify_roundtrip_failure(mods_old, m_old, fresh, want, e, tb)
                                if key == "py-enum-default-or":
                                    res.count("excluded_known_C02_finding")
                                    continue
                                res.violation("fwd-py:" + key, f"{m_new.name}: v{vi} Python decoder raised {type(e).__name__}: {e} on {src} bytes",
                                              {**w, "source": src, "bytes": buf.hex(), "traceback": tb[-1200:]})
                                continue
                            if got != want or problems:
                                if not problems and pycommon.enum_default_or_explains(m_old, got, want):
                                    res.count("excluded_known_C02_finding")
                                    continue
                                bad = [list(a.path) for a, b in zip(ref.leaves(m_old, got), ref.leaves(m_old, want)) if a.value != b.value][:4]
                                res.violation("fwd-py-values", f"{m_new.name}: v{vi} Python decoder read other values for fields it knows (leaves {bad}) from {src} bytes",
                                              {**w, "source": src, "bytes": buf.hex(), "decoded": got, "expected": want, "trace_problems": problems})
                            if src == "reference" and use_c:
                                creqs.append(("D", m_old, buf))
                                cmeta.append((m_old, m_new, want, w, buf))
                finally:
                    mods_old.close()
                if use_c and creqs:
                    # emu-BE-O1: the same older decoder on an emulated big-endian host (vlib/be_emu.py): prefixes are read and skipped there too
                    for config in (["gcc-O0-sep", "gcc-asan-ubsan"] + (["emu-BE-O1"] if case_id % 3 == 0 else []) if ctx.quick
                                   else ["gcc-O0-sep", "gcc-O2-single", "gcc-asan-ubsan", "emu-BE-O1"]):
                        try:
                            exe = sut_c.build(dirs[vi][0], old_root, config)
                        except sut_c.BuildError as e:
                            res.count("skipped_build_error")
                            continue
                        dgo = sut_c.DriverGen(old_root)
                        replies = ccommon.CSession(exe, dgo, config, "std").run(creqs)
                        for (m_old, m_new, want, w, buf), r in zip(cmeta, replies):
                            res.count("c_old_decodes")
                            ww = {**w, "config": config, "bytes": buf.hex()}
                            if r.crash:
                                res.violation("fwd-" + ccommon.crash_key(r, "D"), f"{m_new.name}: v{vi} C decoder [{config}]: {r.crash!r}"[:1000], {**ww, "crash": r.crash.detail[-2000:]})
                                continue
                            if r.status == "CANARY":
                                res.violation("fwd-c-canary", f"{m_new.name}: v{vi} C decoder [{config}] wrote outside the struct ({r.canary})", ww)
                            got = sut_c.leaves_from_reply(m_old, r.payload(1))
                            wl = ref.leaf_values(m_old, want)
                            if got != wl:
                                bad = [k for k, (a, b) in enumerate(zip(got, wl)) if a != b][:5]
                                res.violation("fwd-c-values", f"{m_new.name}: v{vi} C decoder [{config}] read other values for fields it knows (leaves {bad})",
                                              {**ww, "got": got, "expected": wl})
        finally:
            shutil.rmtree(top, ignore_errors=True)
        if ctx.replay is not None:
            break
    res.count("trace_single_byte_steps", tr.total_steps)


if __name__ == "__main__":
    harness.main(
        "C05", "props.C05", worker,
        rule=("case = chain of 2-3 schema versions: the newest is generated (random, or hand-shaped with a field after every extensible "
              "construct and arrays of extensible messages), each older one is derived by undoing permitted extension steps (drop "
              "highest-numbered fields of extensible messages, shrink extensible arrays) at any depth; values of the newest version are "
              "encoded by the reference, the newest Python module and (sample) the newest C build, and decoded by every older version's "
              "generated Python module and (sample) C driver (guard pages, ASan); oracle = projection of the value on the older schema; "
              "every case contains >=1 extension step; distinct by sha256 of all version texts"),
        assumptions=["vlib/ref.py project()/encode() are the specification", "Go runtime not executed (no toolchain): same formula by reading only"],
        required_counters=["py_old_decodes_of_extended_messages", "py_old_decodes_of_other_sender_versions", "c_old_decodes", "extension_steps"],
    )
