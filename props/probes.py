"""Probe schemas for the finite width x offset x signedness x position space (C14, C06)."""
from __future__ import annotations

from typing import Any, Dict, List, Tuple

from vlib import ref
from vlib.model import Alias, Arr, Base, Field, File, Message, Ref

ALL_TYPES: List[Base] = [Base("bool"), Base("byte")] + [Base("uint", w) for w in range(1, 65)] + [Base("int", w) for w in range(1, 65)]


_DIGITS = ["Zero", "One", "Two", "Three", "Four", "Five", "Six", "Seven", "Eight", "Nine"]


def type_tag(t: Base) -> str:
    """Plain PascalCase words only (no digits, no acronyms) so the documented C names are unambiguous."""
    if t.kind in ("bool", "byte"):
        return t.kind.capitalize()
    return ("Uint" if t.kind == "uint" else "Sint") + "".join(_DIGITS[int(c)] for c in str(t.width))


def probe_file(offset: int, types: List[Base], name: str) -> Tuple[File, List[Tuple[Message, Base]]]:
    """One message per type: pad(offset bits), scalar, arrays of capacity 1/2/3/5 (the 8/16/32/64-bit ones take the C
    batch path), alias, alias of array, array of alias elements, 2-D rows, one-bit tail.  Successive fields start at (offset + k*width) mod 8, so over the
    8 pad widths every position sees every bit offset."""
    f = File(name)
    out = []
    for t in types:
        tag = type_tag(t)
        al = f.add(Alias(f"Al{tag}", Base(t.kind, t.width)))
        aa = f.add(Alias(f"Arr{tag}", Arr(Base(t.kind, t.width), 3)))
        # 2-D: rows whose total size is exactly 8/16/32/64 bits when the width allows it (they look like one standard
        # integer to anything keyed on the element's bit size), else 3 elements
        rcap = next((tot // t.width for tot in (8, 16, 32, 64) if tot % t.width == 0 and tot // t.width >= 2), 3)
        row = f.add(Alias(f"Row{tag}", Arr(Base(t.kind, t.width), rcap)))
        m = Message(f"Probe{tag}")
        if offset:
            m.add(Field("pad", Base("uint", offset), 1))
        m.add(Field("scalar", Base(t.kind, t.width), 2))
        m.add(Field("a1", Arr(Base(t.kind, t.width), 1), 3))
        m.add(Field("a2", Arr(Base(t.kind, t.width), 2), 4))
        m.add(Field("a3", Arr(Base(t.kind, t.width), 3), 5))
        m.add(Field("a5", Arr(Base(t.kind, t.width), 5), 6))
        m.add(Field("al", Ref(al), 7))
        m.add(Field("aa", Ref(aa), 8))
        m.add(Field("ea", Arr(Ref(al), 3), 9))      # array whose ELEMENT type is an alias of the base type
        m.add(Field("rows", Arr(Ref(row), 2), 10))
        m.add(Field("tail", Base("bool"), 11))
        # a longer array (bulk-copy thresholds are usually a handful of elements) followed by its own guard bit
        m.add(Field("a9", Arr(Base(t.kind, t.width), 9), 12))
        m.add(Field("tail_b", Base("bool"), 13))
        f.add(m)
        out.append((m, t))
    return f, out


def basis(t: Base, full: bool) -> List[int]:
    w = t.width
    if t.kind == "bool":
        return [0, 1]
    if t.signed:
        lo, hi = -(1 << (w - 1)), (1 << (w - 1)) - 1
        vals = [0, -1, lo, hi]
        bits = range(w) if full else sorted({0, w - 1, min(7, w - 1), min(8, w - 1), w // 2})
        vals += [ref.to_signed(1 << b, w) for b in bits]
        vals += [ref.to_signed(int("55" * 8, 16), w), ref.to_signed(int("AA" * 8, 16), w)]
    else:
        hi = (1 << w) - 1
        vals = [0, hi]
        bits = range(w) if full else sorted({0, w - 1, min(7, w - 1), min(8, w - 1), w // 2})
        vals += [1 << b for b in bits]
        vals += [int("55" * 8, 16) & hi, int("AA" * 8, 16) & hi]
    seen, out = set(), []
    for v in vals:
        if v not in seen:
            seen.add(v)
            out.append(v)
    return out


def probe_values(m: Message, t: Base, full: bool) -> List[Tuple[str, Any]]:
    """Per probed leaf: each basis value alone (everything else zero, pad all-ones so neighbours are visible);
    plus every leaf holding the same basis value."""
    items = ref.leaves(m)
    zero = ref.zero_value(m)
    pad = next((it for it in items if it.path == (1,)), None)
    if pad is not None:
        zero = ref.set_leaf(m, zero, pad.path, (1 << pad.width) - 1)
    probed = [it for it in items if it.path[0] in (2, 3, 4, 5, 6, 7, 8, 9, 10, 12)]
    out: List[Tuple[str, Any]] = []
    for b in basis(t, full):
        allv = zero
        for it in probed:
            allv = ref.set_leaf(m, allv, it.path, b)
        allv = ref.set_leaf(m, allv, (11,), 1)
        allv = ref.set_leaf(m, allv, (13,), 1)
        out.append((f"all={b}", allv))
    pos_sample = probed if full else [it for it in probed if it.path in ((2,), (3, 0), (4, 1), (6, 4), (7,), (8, 2), (9, 1), (10, 0, 1), (10, 1, 0), (12, 0), (12, 8))]
    for it in pos_sample:
        # (quick: the first seven basis values per position - 0, all-ones/-1, min, max and the lowest single bits; every basis value still
        #  visits every position in the all=<value> probes above)
        for b in (basis(t, full) if full else basis(t, False)[:7]):
            if b == 0:
                continue
            out.append((f"{list(it.path)}={b}", ref.set_leaf(m, zero, it.path, b)))
    return out


def position_of(path: Tuple) -> str:
    return {2: "scalar", 3: "array", 4: "array", 5: "array", 6: "array", 7: "alias", 8: "alias-of-array", 9: "array-of-alias", 10: "array-of-alias-of-array", 12: "array"}.get(path[0], "other")
