"""C19 - Go standard-mode output describes the same messages as the Python output."""
import os
import shutil
import traceback

from vlib import env, gen, harness, ref, sut_compiler, sut_gotext as G, sut_py
from vlib.model import Alias, Arr, Base, Enum, File, Message, Ref, file_of, iter_defs, messages_of, qualified_path
from vlib.monitors import contracts
from vlib.sut_c import c_size_macro, c_storage
from props import pycommon
from props import gocommon
from props.gocommon import go_field, go_type_name


def norm(name: str) -> str:
    """Nested Go names: the docs do not fix separator/case per kind (nested enums are Outer_Inner, nested messages OuterInner)."""
    return name.replace("_", "").lower()


class Exp:
    """Expected Go facts computed from the model."""

    def __init__(self, root: File, here: File):
        self.root, self.here = root, here

    def qual(self, d) -> str:
        f = file_of(d)
        n = "".join(qualified_path(d))
        if f is self.here:
            return n
        imp = next(i for i in self.here.imports if i.file is f)
        return f"{imp.bound_name}.{n}"

    def go_type(self, t) -> str:
        if isinstance(t, Base):
            if t.kind in ("bool", "byte"):
                return t.kind
            return f"{'u' if t.kind == 'uint' else ''}int{c_storage(t.width)}"
        if isinstance(t, Ref):
            return self.qual(t.target)
        if isinstance(t, Arr):
            return f"[{t.cap}]{self.go_type(t.elem)}"
        raise TypeError(t)

    def tree(self, t):
        """Expected processor tree with references resolved."""
        if isinstance(t, Base):
            if t.kind in ("bool", "byte"):
                return {"kind": t.kind}
            return {"kind": t.kind, "nbits": t.width}
        if isinstance(t, Ref):
            return self.tree(t.target)
        if isinstance(t, Enum):
            return {"kind": "enum", "nbits": t.width}
        if isinstance(t, Alias):
            return {"kind": "alias", "to": self.tree(t.type)}
        if isinstance(t, Arr):
            return {"kind": "array", "extensible": t.ext, "cap": t.cap, "elem": self.tree(t.elem)}
        if isinstance(t, Message):
            return {"kind": "message", "extensible": t.ext, "nbits": ref.nbits(t),
                    "fields": [{"number": f.number, "processor": self.tree(f.type)} for f in t.sorted_fields]}
        raise TypeError(t)


def innermost(t):
    """(depth of array nesting, innermost non-array type, alias directly wrapping the innermost single type or None)."""
    depth, alias = 0, None
    while True:
        if isinstance(t, Arr):
            depth += 1
            alias = None
            t = t.elem
        elif isinstance(t, Ref) and isinstance(t.target, Alias):
            alias = t.target
            t = t.target.type
            if isinstance(t, Arr):
                alias = None
        else:
            return depth, t, alias


def py_tree(p):
    import bitprotolib.bp as bp
    if isinstance(p, bp.Bool):
        return {"kind": "bool"}
    if isinstance(p, bp.Byte):
        return {"kind": "byte"}
    if isinstance(p, bp.Uint):
        return {"kind": "uint", "nbits": p.nbits}
    if isinstance(p, bp.Int):
        return {"kind": "int", "nbits": p.nbits}
    if isinstance(p, bp.EnumProcessor):
        return {"kind": "enum", "nbits": p.ut.nbits}
    if isinstance(p, bp.AliasProcessor):
        return {"kind": "alias", "to": py_tree(p.to)}
    if isinstance(p, bp.Array):
        return {"kind": "array", "extensible": p.extensible, "cap": p.capacity, "elem": py_tree(p.element_processor)}
    if isinstance(p, bp.MessageProcessor):
        return {"kind": "message", "extensible": p.extensible, "nbits": p.nbits,
                "fields": [{"number": f.field_number, "processor": py_tree(f.type_processor)} for f in p.field_processors]}
    raise TypeError(p)


class GoSide:
    def __init__(self, root: File, go_dir: str):
        self.files = {}
        for g in root.all_files():
            with open(os.path.join(go_dir, f"{g.basename}_bp.go")) as fh:
                self.files[g.basename] = G.parse_file(fh.read())
        self.root = root

    def resolve(self, here: File, tree):
        """Go processor tree with {'kind':'ref'} nodes replaced by the tree of the referenced type's BpProcessor."""
        k = tree["kind"]
        if k == "ref":
            name = tree["name"]
            f = here
            if "." in name:
                alias, name = name.split(".", 1)
                imp = next((i for i in here.imports if i.bound_name == alias), None)
                if imp is None:
                    return {"kind": "unresolved", "name": tree["name"]}
                f = imp.file
            gf = self.files[f.basename]
            if name not in gf.types:
                return {"kind": "unresolved", "name": tree["name"]}
            sub = self.resolve(f, G.processor_tree(gf, name))
            # the way the zero value is written must fit the referenced type's kind
            form_ok = {"message": "&{}", "enum": "(0)"}.get(sub["kind"])
            if form_ok and tree["form"] != form_ok:
                return {"kind": "bad-form", "name": tree["name"], "form": tree["form"], "is": sub["kind"]}
            return sub
        if k == "alias":
            return {"kind": "alias", "to": self.resolve(here, tree["to"])}
        if k == "array":
            return {**tree, "elem": self.resolve(here, tree["elem"])}
        if k == "message":
            return {**tree, "fields": [{"number": f["number"], "processor": self.resolve(here, f["processor"])} for f in tree["fields"]]}
        return tree


def helper_sweep(ctx):
    """The Go runtime's pure helpers evaluated from their parsed bodies vs the EXECUTED Python runtime helpers."""
    import bitprotolib.bp as bp
    res = ctx.res
    H = G.load_runtime_helpers(os.path.join(env.GOLIB_DIR, "bitproto.go"))

    def cmp(name, args, want):
        res.count("helper_evaluations")
        res.count("helper_evaluations:" + name)
        try:
            got = H.call(name, *args)
        except G.EvalError as e:
            res.violation(f"go-helper:{name}", f"{name}{args} fails in Go ({e}), Python returns {want}", {"helper": name, "args": list(args)})
            return
        if got != want or type(got) is not type(want):
            res.violation(f"go-helper:{name}", f"{name}{args} = {got!r} in Go, {want!r} in the Python runtime", {"helper": name, "args": list(args)})

    if ctx.shard % 4 == 0:
        for n in range(1, 65):
            for j in range(n):
                for i in list(range(0, 16)) + [63, 64, 65, 8191, 65528, 65535]:
                    cmp("getNbitsToCopy", (i, j, n), bp.get_nbits_to_copy(i, j, n))
    if ctx.shard % 4 == 1:
        for k in range(8):
            for c in range(0, 9 - k):
                cmp("getMask", (k, c), bp.get_mask(k, c))
        for a in range(-3, 70):
            for b in range(-3, 70):
                cmp("min", (a, b), min(a, b))
    if ctx.shard % 4 == 2:
        for n in range(256):
            for k in range(-7, 8):
                cmp("smartShift", (n, k), bp.smart_shift(n, k) & 0xFF)  # Go's byte result; Python masks the wider int right afterwards
    if ctx.shard % 4 == 3:
        for b in (False, True):
            cmp("Bool2byte", (b,), 1 if b else 0)
        for n in range(256):
            cmp("Byte2bool", (n,), n > 0)


def worker(ctx):
    res = ctx.res
    contracts.install()
    if ctx.quick:
        n_cases = ctx.per_shard(480)
        ctx.set_budget(220)
    else:
        n_cases = ctx.per_shard(10000)
        ctx.set_budget(3300)
    if ctx.replay is None:
        helper_sweep(ctx)
    for k in range(n_cases):
        if ctx.out_of_time():
            break
        case_id = ctx.shard + k * ctx.nshards
        rng = ctx.rng("case", case_id)
        if ctx.replay is not None:
            if "case" not in ctx.replay["witness"]:
                helper_sweep(ctx)
                return
            case_id = ctx.replay["witness"]["case"]
            rng = __import__("random").Random(f"{ctx.replay['seed']}:C19:{ctx.replay['witness']['shard']}:case:{case_id}")
        cfg = pycommon.cfg_for_case(rng, case_id)
        cfg.msg_bits = min(cfg.msg_bits, 2000)
        cfg.p_transitive_ref = 0.0  # `b.c.M` has no well-formed Go rendering (C10 known finding go-transitive-import-reference, judged there)
        if case_id % 4 == 2:
            cfg.p_same_short_name, cfg.p_nested = 0.6, max(cfg.p_nested, 0.5)
        root = gen.gen_schema(rng, cfg)
        if case_id % 4 == 1:
            gen.add_same_name_shapes(root, rng, ext_ok=cfg.extensible)
            res.count("cases_with_same_short_name_shapes")
        if case_id % 8 == 5:
            # field names whose PascalCase form is the name of a generated Go method (`size` -> Size()): the Go file is not a valid package
            # then (that is C10's premise, not judged here), but every accessor must still name the struct field that carries this schema
            # field - whatever spelling the struct gives it (the JSON tag identifies it)
            for mm in [mm for g_ in root.all_files() for mm in messages_of(g_)]:
                names = {f.name for f in mm.fields}
                msg_fields = [f for f in mm.fields if isinstance(innermost(f.type)[1], Ref) and isinstance(innermost(f.type)[1].target, Message)]
                if msg_fields and "size" not in names and rng.random() < 0.8:
                    rng.choice(msg_fields).name = "size"
                    res.count("fields_named_like_a_go_method")
                others = [f for f in mm.fields if f.name != "size"]
                if others and "string" not in names and rng.random() < 0.4:
                    rng.choice(others).name = "string"
                    res.count("fields_named_like_a_go_method")
        d = ctx.casedir(case_id)
        wit = {"case": case_id, "shard": ctx.shard}
        try:
            try:
                comp = sut_compiler.compile_schema(root, d, ["go", "py"], rng=rng, emit_kw=dict(semi=0.3, comments=0.2, path_style="random", compact=0.15))
            except Exception as e:
                harness.compile_failed(res, e, wit)
                continue
            wit["schema"] = pycommon.describe(root, comp["paths"])
            try:
                go = GoSide(root, d)
            except G.GoParseError as e:
                res.violation("go-unparsable", f"Go output is outside the emitted subset / malformed: {e}", wit)
                continue
            try:
                mods = sut_py.PyModules(d, root)
            except Exception as e:
                res.count("python_twin_unavailable")
                mods = None
            res.case(gen.is_nontrivial(gen.schema_signature(root)), wit["schema"])
            res.sample({"schema": wit["schema"]}, 1)
            try:
                for g in root.all_files():
                    gf = go.files[g.basename]
                    exp = Exp(root, g)
                    sizes, size_m = G.size_constants(gf), G.size_methods(gf)
                    for m in messages_of(g):
                        judge_message(ctx, go, gf, exp, g, m, sizes, size_m, mods, wit)
                    # enum / alias processors
                    for dd in iter_defs(g):
                        if isinstance(dd, (Enum, Alias)):
                            tn = next((n for n in gf.types if norm(n) == norm("".join(qualified_path(dd)))), None)
                            res.count("enum_alias_processors_checked")
                            if tn is None:
                                res.violation("go-type-missing", f"{type(dd).__name__} {dd.name}: no Go type declared", {**wit, "definition": dd.name})
                                continue
                            got = go.resolve(g, G.processor_tree(gf, tn))
                            if got != exp.tree(dd):
                                res.violation("go-processor-tree", f"{dd.name}: BpProcessor() is {got}, schema says {exp.tree(dd)}", {**wit, "definition": dd.name})
            finally:
                if mods is not None:
                    mods.close()
        finally:
            shutil.rmtree(d, ignore_errors=True)
        if ctx.replay is not None:
            break


GO_METHOD_LIKE = {"size", "string"}


def judge_message(ctx, go, gf, exp, g, m, sizes, size_m, mods, wit):
    res = ctx.res
    tn = go_type_name(m)
    w = {**wit, "message": m.name}
    res.count("messages_checked")
    gt = gf.types.get(tn)
    if gt is None or gt.kind != "struct":
        res.violation("go-struct-missing", f"{m.name}: no struct {tn} in the Go output", w)
        return
    # ---- struct -------------------------------------------------------------------
    by_tag = {f.tag: f.name for f in gt.fields}
    go_name = lambda f: by_tag.get(f.name, go_field(f.name)) if f.name in GO_METHOD_LIKE else go_field(f.name)
    want_fields = [(go_name(f), exp.go_type(f.type), f.name) for f in m.sorted_fields]
    got_fields = [(f.name, f.type_str, f.tag) for f in gt.fields]
    ok = len(want_fields) == len(got_fields) and all(a[0] == b[0] and norm(a[1]) == norm(b[1]) and a[2] == b[2] for a, b in zip(want_fields, got_fields))
    res.count("struct_fields_checked", len(want_fields))
    if not ok:
        res.violation("go-struct-fields", f"struct {tn}: fields {got_fields}, expected (ascending field number, smallest covering types, schema name as tag) {want_fields}", w)
    # ---- size ----------------------------------------------------------------------
    nby = ref.nbytes(m)
    pyv = mods.cls(m).BYTES_LENGTH if mods is not None else nby
    res.count("size_constants_checked")
    if sizes.get(c_size_macro(m)) != nby or size_m.get(tn) != nby or pyv != nby:
        res.violation("go-size-constant", f"{m.name}: {c_size_macro(m)}={sizes.get(c_size_macro(m))}, Size()={size_m.get(tn)}, Python BYTES_LENGTH={pyv}, ceil(N/8)={nby}", w)
    # ---- processor tree -------------------------------------------------------------
    try:
        got_tree = go.resolve(g, G.processor_tree(gf, tn))
    except Exception as e:
        res.violation("go-processor-unparsable", f"{m.name}: BpProcessor() body not understood: {type(e).__name__}: {e}", w)
        got_tree = None
    want_tree = exp.tree(m)
    res.count("processor_trees_checked")
    if got_tree is not None and got_tree != want_tree:
        res.violation("go-processor-tree", f"{m.name}: Go processor tree differs from the schema", {**w, "go": got_tree, "expected": want_tree})
    if mods is not None:
        try:
            pt = py_tree(mods.new(m).bp_processor())
            res.count("python_processor_trees_compared")
            if got_tree is not None and pt != got_tree:
                res.violation("go-vs-python-processor-tree", f"{m.name}: Go and Python processor trees differ", {**w, "go": got_tree, "python": pt})
        except Exception as e:
            res.count("python_processor_tree_unavailable")
    # ---- accessor tables --------------------------------------------------------------
    at = G.accessor_tables(gf, tn)
    for p in at["problems"]:
        res.violation("go-accessor-malformed", f"{m.name}: {p}", w)
    # (whether "no case applies" is spelled as a default branch, a trailing return or nothing at all is layout, not judged)
    want = {"BpSetByte": [], "BpGetByte": [], "BpProcessInt": [], "BpGetAccessor": []}
    for f in m.sorted_fields:
        depth, inner, alias = innermost(f.type)
        base = {"number": f.number, "field": go_name(f), "depth": depth, "indices": list(range(depth))}
        tt = inner.target if isinstance(inner, Ref) else inner
        if isinstance(tt, Message):
            want["BpGetAccessor"].append({**base, "addr_of": True})
            continue
        is_bool = isinstance(tt, Base) and tt.kind == "bool"
        conv = exp.qual(alias) if alias is not None else exp.go_type(inner)
        if is_bool:
            want["BpSetByte"].append({**base, "assign": "=", "conv": exp.qual(alias) if alias is not None else None, "byte2bool": True, "shifted": False})
            want["BpGetByte"].append({**base, "bool2byte": True, "inner_conv": "bool" if alias is not None else None})
        else:
            want["BpSetByte"].append({**base, "assign": "|=", "conv": conv, "byte2bool": False, "shifted": True})
            want["BpGetByte"].append({**base, "bool2byte": False, "inner_conv": None, "conv": "byte", "shifted": True})
        if isinstance(tt, Base) and tt.kind == "int" and tt.width not in (8, 16, 32, 64):
            dd = c_storage(tt.width) - tt.width
            want["BpProcessInt"].append({**base, "shl": dd, "shr": dd, "same_target": True})
    for tbl in want:
        res.count("accessor_cases_checked", len(want[tbl]))
        got = at[tbl]
        if any("unparsed" in c for c in got):
            res.violation("go-accessor-case-shape", f"{m.name}.{tbl}: case with unexpected shape: {[c['unparsed'][:80] for c in got if 'unparsed' in c][:2]}", w)
            continue
        def nv(k, v):
            return norm(v) if k in ("conv", "inner_conv") and isinstance(v, str) else v

        # a conversion through an alias of an imported file names the element type by the name that THAT file binds (C10 known
        # finding go-transitive-import-reference, judged there): such a qualifier is compared without its package
        inner_names = gocommon.names_of_transitive_imports(g)
        for gc, wc in zip(got, want[tbl]):
            for k in ("conv", "inner_conv"):
                gv, wv = gc.get(k), wc.get(k)
                if isinstance(gv, str) and isinstance(wv, str) and "." in gv and "." in wv and gv.split(".")[0] != wv.split(".")[0] and gv.split(".")[0] in inner_names:
                    res.count("excluded_known_C10_transitive_import")
                    gc[k] = wv.split(".")[0] + "." + gv.split(".", 1)[1]
        same = len(got) == len(want[tbl]) and all(all(k in gc and nv(k, gc[k]) == nv(k, v) for k, v in wc.items()) for gc, wc in zip(got, want[tbl]))
        if not same:
            res.violation(f"go-accessor-table:{tbl}", f"{m.name}.{tbl}: cases {[{k: v for k, v in c.items() if k != 'line'} for c in got]} expected {want[tbl]}", w)


if __name__ == "__main__":
    harness.main(
        "C19", "props.C19", worker,
        rule=("case = generated valid schema rendered for Go (standard mode) and Python; the Go text is parsed (vlib/sut_gotext.py) and per message compared "
              "with the model: struct fields (ascending number, PascalCase, smallest covering type, JSON tag), BYTES_LENGTH_* / Size() / Python BYTES_LENGTH "
              "= ceil(N/8), the BpProcessor() tree (references resolved through the other declarations and imported files) against the schema and "
              "against the tree the imported Python module builds, and the four accessor switch tables (one case per field that needs one, field "
              "addressed, index depth, conversion type, Bool2byte/Byte2bool, sign-extension shifts exactly for signed widths not 8/16/32/64); plus the "
              "five pure helpers of lib/go/bitproto.go evaluated from their parsed bodies over their whole reachable domain against the executed "
              "Python helpers; non-trivial/distinct as in C01"),
        assumptions=["vlib/sut_gotext.py (Go subset parser + evaluator with Go integer semantics) is trusted; Go code is never executed (no toolchain)",
                     "nested type names are compared after removing underscores and case (docs do not fix them per kind)"],
        required_counters=["messages_checked", "struct_fields_checked", "processor_trees_checked", "python_processor_trees_compared", "accessor_cases_checked",
                           "helper_evaluations:getNbitsToCopy", "helper_evaluations:getMask", "helper_evaluations:smartShift", "helper_evaluations:min",
                           "helper_evaluations:Byte2bool", "enum_alias_processors_checked"],
    )
