"""Coverage-guided tier of C09: atheris (libFuzzer) on bitproto.parser.parse_string, run as a subprocess by props/C09.py.

  python props/c09_atheris.py <workdir> <findings.json> [libFuzzer flags...]

Exceptions other than ParserError/OSError are recorded (one example per class+location) and fuzzing continues;
libFuzzer's own -timeout is the hang watchdog (a hang makes libFuzzer write a timeout-* artifact and exit).
"""
import json
import os
import sys
import traceback


def main():
    workdir, findings_path = sys.argv[1], sys.argv[2]
    flags = sys.argv[3:]
    import atheris

    with atheris.instrument_imports(include=["bitproto"]):
        import bitproto.errors as errors
        from bitproto.parser import parse_string
        from bitproto.renderer import render

    anchor = os.path.join(workdir, "fuzz.bitproto")
    outdir = os.path.join(workdir, "out")
    os.makedirs(outdir, exist_ok=True)
    findings = {}
    stats = {"execs": 0, "accepted": 0, "rendered": 0}

    def classify(e, tb):
        frames = [l.strip() for l in tb.strip().splitlines() if l.strip().startswith("File ")]
        where = "?"
        for fr in reversed(frames):
            if "/bitproto/" in fr:
                where = fr.split(",")[-1].replace("in ", "").strip()
                break
        return f"{type(e).__name__}:{where}"

    devnull = open(os.devnull, "w")

    def dump():
        with open(findings_path + ".tmp", "w") as fh:
            json.dump({"findings": findings, "stats": stats}, fh)
        os.replace(findings_path + ".tmp", findings_path)

    def one(data):
        stats["execs"] += 1
        if stats["execs"] % 200 == 0:
            dump()  # libFuzzer leaves through _exit: nothing runs at interpreter shutdown
        try:
            text = data.decode("utf-8")
        except UnicodeDecodeError:
            return
        old = sys.stderr
        sys.stderr = devnull
        try:
            try:
                proto = parse_string(text, filepath=anchor)
            except (errors.ParserError, OSError):
                return
            except Exception as e:
                key = "parse-internal:" + classify(e, traceback.format_exc())
                findings.setdefault(key, {"input": text[:4000], "what": f"{type(e).__name__}: {str(e)[:200]}", "traceback": traceback.format_exc()[-1200:]})
                dump()
                return
            stats["accepted"] += 1
            if stats["accepted"] % 5 == 0:
                for lang in ("c", "go", "py"):
                    try:
                        render(proto, lang, outdir=outdir)
                        stats["rendered"] += 1
                    except errors.RendererError:
                        pass
                    except Exception as e:
                        key = f"render-internal:{lang}:" + classify(e, traceback.format_exc())
                        findings.setdefault(key, {"input": text[:4000], "what": f"{type(e).__name__}: {str(e)[:200]}", "traceback": traceback.format_exc()[-1200:]})
                        dump()
        finally:
            sys.stderr = old

    dump()
    atheris.Setup([sys.argv[0]] + flags, one)
    atheris.Fuzz()


if __name__ == "__main__":
    main()
