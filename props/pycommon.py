"""Shared workload for the Python-runtime properties (C01, C02, C16-python).

One case = one generated schema (all files), compiled by the real compiler
in-process, imported, and for every message a set of boundary-biased values.
Which oracles judge is selected by the calling property.
"""
from __future__ import annotations

import json
import os
import shutil
import traceback
from typing import Any, Dict, List, Optional

from vlib import harness, gen, ref, sut_compiler, sut_py
from vlib.gen import GenCfg
from vlib.harness import Ctx
from vlib.model import Arr, Enum, File, Message, Ref, iter_defs, messages_of, strip_alias
from vlib.monitors import contracts, py_trace


def cfg_for_case(rng, k: int) -> GenCfg:
    """Feature dials vary with the case index so every shard sees every shape."""
    c = GenCfg()
    r = k % 8
    if r == 0:
        c.extensible = False
    elif r == 1:
        c.n_imports = (1, 2)
        c.p_import_chain = 0.5
        c.p_transitive_ref = 0.5
        c.p_subdir = 0.4
        c.p_nested = 0.5
    elif r == 2:
        c.msg_bits = 4000
        c.max_fields = 12
    elif r == 3:
        c.p_ext_msg, c.p_ext_arr = 0.6, 0.6
    elif r == 4:
        c.max_depth = 4
        c.p_nested = 0.6
        c.digit_fields = 0.4
        c.p_same_short_name = 0.5
    elif r == 5:
        c.msg_bits = 64
        c.max_fields = 10
    elif r == 6:
        c.big_caps = True
        c.msg_bits = 20000
    elif r == 7 and k % 16 == 7:
        # messages up to the 65535-bit limit (few, large)
        c.big_caps = True
        c.msg_bits = 65000
        c.max_fields = 4
    return c


def setup_monitors():
    import bitprotolib.bp as bp

    tr = py_trace.PyTrace(bp)
    tr.install()
    py_trace.install_contracts(bp)
    contracts.install()
    return bp, tr


def describe(root: File, paths: Dict[str, str]) -> Dict[str, str]:
    out = {}
    for b, p in paths.items():
        with open(p) as fh:
            out[os.path.basename(p)] = fh.read()
    return out


def has_ext_array(t: Any, seen=None) -> bool:
    """Does the type contain an extensible array (transitively)?"""
    t = strip_alias(t)
    if isinstance(t, Arr):
        return t.ext or has_ext_array(t.elem)
    if isinstance(t, Ref):
        return has_ext_array(t.target)
    if isinstance(t, Message):
        return any(has_ext_array(f.type) for f in t.fields)
    return False


def enum_default_or_explains(m: Message, got_raw: Any, want: Any) -> bool:
    """Mechanism test for the known finding `py-enum-default-or`: every leaf that differs is an
    enum leaf whose enum's FIRST DECLARED member f is non-zero, and it holds want | f (the decoder
    ORs the wire bits into the default of a fresh message, which is that first member)."""
    gi, wi = ref.leaves(m, got_raw), ref.leaves(m, want)
    diff = 0
    for a, b in zip(gi, wi):
        if a.value == b.value:
            continue
        diff += 1
        t = b.etype
        if not isinstance(t, Enum) or not t.members:
            return False
        f = t.members[0][1]
        if f == 0 or a.value != (b.value | f):
            return False
    return diff > 0


def classify_exception(e: BaseException, tb: str) -> str:
    name = type(e).__name__
    msg = str(e)
    if isinstance(e, ValueError) and "is not a valid" in msg and "bp_set_byte" in tb:
        return "py-enum-partial-byte"
    if name == "ContractBroken":
        return "contract:" + msg.split("(")[0]
    last = [l for l in tb.strip().splitlines() if l.strip().startswith("File ")]
    where = ""
    if last:
        where = last[-1].split(",")[-1].strip()
    return f"exception:{name}:{where}"


def run_cases(ctx: Ctx, n_cases: int, n_values: int, judge: Dict[str, bool]) -> None:
    """judge keys: layout (C01), roundtrip (C02), json (C16)."""
    res = ctx.res
    bp, tr = setup_monitors()
    for k in range(n_cases):
        if ctx.out_of_time():
            break
        case_id = ctx.shard + k * ctx.nshards
        rng = ctx.rng("case", case_id)
        if ctx.replay is not None:
            case_id = ctx.replay["witness"]["case"]
            rng = __import__("random").Random(f"{ctx.replay['seed']}:{ctx.prop}:{ctx.replay['witness']['shard']}:case:{case_id}")
        cfg = cfg_for_case(rng, case_id)
        root = gen.gen_schema(rng, cfg)
        if case_id % 8 == 3:
            gen.add_same_name_shapes(root, rng, ext_ok=cfg.extensible)
            res.count("cases_with_same_short_name_shapes")
        if case_id % 8 == 6:
            gen.add_empty_shapes(root, rng, ext_ok=cfg.extensible)
            res.count("cases_with_empty_message_shapes")
        if case_id % 8 in (2, 7):
            gen.add_alias_reach_shapes(root, rng)
            res.count("cases_with_alias_reach_shapes")
        d = ctx.casedir(case_id)
        wit: Dict[str, Any] = {"case": case_id, "shard": ctx.shard}
        try:
            try:
                comp = sut_compiler.compile_schema(root, d, ["py"], rng=rng,
                                                   emit_kw=dict(semi=0.3, comments=0.2, blanks=0.2, path_style="random", compact=0.15))
            except Exception as e:
                harness.compile_failed(res, e, wit)
                continue
            wit["schema"] = describe(root, comp["paths"])
            try:
                mods = sut_py.PyModules(d, root)
            except Exception as e:
                res.count("skipped_import_error")
                res.observe("import_error_classes", f"{type(e).__name__}: {str(e)[:60]}")
                continue
            sig = gen.schema_signature(root)
            res.case(gen.is_nontrivial(sig), wit["schema"])
            res.sample({"schema": wit["schema"], "signature": sig}, 2)
            try:
                for g in root.all_files():
                    for m in messages_of(g):
                        judge_message(ctx, mods, tr, m, rng, n_values, judge, wit)
            finally:
                mods.close()
        finally:
            shutil.rmtree(d, ignore_errors=True)
        if ctx.replay is not None:
            break
    res.observe("trace_monitor_attached", str(getattr(tr, "attached", True)))
    res.count("trace_base_type_calls", tr.total_calls)
    res.count("trace_single_byte_steps", tr.total_steps)
    for name, n in py_trace.COUNTS.items():
        res.count("contract_evals:bp." + name, n)
    for name, n in contracts.COUNTS.items():
        res.count("contract_evals:" + name, n)
    for (nbits, off, enc) in tr.cells:
        res.observe("cells_encode" if enc else "cells_decode", f"{nbits}@{off}")


def judge_message(ctx: Ctx, mods: sut_py.PyModules, tr: py_trace.PyTrace, m: Message, rng, n_values: int,
                  judge: Dict[str, bool], wit: Dict[str, Any]) -> None:
    res = ctx.res
    N = ref.nbits(m)
    items = ref.flatten(m)
    cls = mods.cls(m)
    if judge.get("layout"):
        res.count("bytes_length_checks")
        if cls.BYTES_LENGTH != ref.nbytes(m):
            res.violation("py-bytes-length", f"{m.name}.BYTES_LENGTH={cls.BYTES_LENGTH}, ceil({N}/8)={ref.nbytes(m)}",
                          {**wit, "message": m.name})
    nv = n_values if N < 3000 else max(3, n_values // 6)
    for vi, v in enumerate(gen.gen_values(rng, m, nv)):
        w = {**wit, "message": m.name, "value": v}
        res.count("values")
        # ---- encode ------------------------------------------------------
        try:
            obj = mods.build(m, v, enum_as_member=rng.random() < 0.7)
            tr.begin()
            try:
                data = bytes(obj.encode())
            finally:
                calls, problems = tr.end()
        except Exception as e:
            tb = traceback.format_exc()
            if judge.get("layout") or judge.get("roundtrip"):
                res.violation(classify_exception(e, tb), f"encode raised {type(e).__name__}: {e}", {**w, "traceback": tb[-1500:]})
            continue
        exp = ref.encode(m, v)
        if judge.get("layout"):
            res.count("encode_compared")
            if data != exp:
                first = next((k for k in range(min(len(data), len(exp))) if data[k] != exp[k]), min(len(data), len(exp)))
                res.violation("py-encode-bytes", f"{m.name}: encode() differs from the specified layout at byte {first} "
                              f"(len {len(data)} vs {len(exp)})", {**w, "got": data.hex(), "expected": exp.hex()})
            for p in problems:
                res.violation("py-trace:" + p.split(":")[0], f"{m.name}: {p}", w)
            gp = py_trace.check_gap_free(calls, N)
            if gp:
                res.violation("py-trace:gap", f"{m.name}: {gp}", w)
            lp = py_trace.check_layout(calls, items)
            if lp:
                res.violation("py-trace:layout", f"{m.name}: {lp}", w)
            res.count("trace_encodes_checked")
        # ---- decode own output and the reference bytes ---------------------
        rt_ok = False
        if judge.get("roundtrip"):
            rt_ok = True
            want = ref.normalise(m, v)
            for src_name, src in (("own", data), ("ref", exp)):
                if src_name == "ref" and exp == data:
                    continue
                fresh = None
                try:
                    fresh = mods.new(m)
                    tr.begin()
                    try:
                        fresh.decode(bytearray(src))
                    finally:
                        dcalls, dproblems = tr.end()
                    got = mods.read(m, fresh)
                except Exception as e:
                    tb = traceback.format_exc()
                    rt_ok = False
                    key = classify_roundtrip_failure(mods, m, fresh, want, e, tb)
                    res.violation(key, f"{m.name}: decode({src_name} bytes) raised {type(e).__name__}: {e}",
                                  {**w, "bytes": src.hex(), "traceback": tb[-1500:]})
                    continue
                res.count("roundtrips_compared")
                lp = py_trace.check_layout(dcalls, items)
                if got != want or lp or dproblems:
                    rt_ok = False
                    key = "py-roundtrip"
                    if lp:
                        key = "py-decode-layout"
                    elif not dproblems and enum_default_or_explains(m, got, want):
                        key = "py-enum-default-or"
                    res.violation(key, f"{m.name}: decode({src_name} bytes) != value" + (f"; {lp}" if lp else "") +
                                  ("; " + "; ".join(dproblems) if dproblems else ""),
                                  {**w, "bytes": src.hex(), "decoded": got, "expected": want})
                    continue
                try:
                    again = bytes(fresh.encode())
                except Exception as e:
                    res.violation("py-reencode-exception", f"{m.name}: re-encode raised {type(e).__name__}: {e}", w)
                    continue
                res.count("reencodes_compared")
                if again != data:
                    res.violation("py-reencode", f"{m.name}: re-encoding the decoded message gives different bytes",
                                  {**w, "first": data.hex(), "second": again.hex()})
        # ---- history independence -------------------------------------------
        # encode/decode are functions of (schema, value/bytes): what the same process decoded or encoded before - a peer's buffer
        # with other prefixes, zeros, garbage - must leave no trace in later calls (processors, accessors and indexers are per call)
        if (judge.get("layout") or judge.get("roundtrip")) and (vi % 3 == 1 or (vi < 2 and any(it.kind.endswith("prefix") for it in items))):
            for hname, hbuf in foreign_buffers(items, exp, rng):
                res.count("history_foreign_decodes")
                res.observe("history_kinds", hname)
                try:
                    mods.new(m).decode(bytearray(hbuf))
                except Exception:
                    res.count("history_foreign_decodes_raised_not_judged")
            res.count("history_checks")
            if judge.get("layout") and data == exp:
                try:
                    data2 = bytes(mods.build(m, v).encode())
                except Exception as e:
                    res.violation("py-encode-depends-on-history", f"{m.name}: encoding the same value raised {type(e).__name__}: {e} after the process decoded "
                                  f"other buffers", {**w, "traceback": traceback.format_exc()[-1500:]})
                    continue
                if data2 != exp:
                    res.violation("py-encode-depends-on-history", f"{m.name}: the same value encodes differently after the process decoded other buffers "
                                  f"(a peer's prefixes, zeros, ones)", {**w, "before": data.hex(), "after": data2.hex()})
            if judge.get("roundtrip") and rt_ok:
                # only when the plain round trip of this value held: its failures are classified above (known finding py-enum-default-or)
                try:
                    fresh2 = mods.new(m)
                    fresh2.decode(bytearray(exp))
                    got2 = mods.read(m, fresh2)
                except Exception as e:
                    res.violation("py-decode-depends-on-history", f"{m.name}: decoding the specified bytes raised {type(e).__name__}: {e} after the process decoded "
                                  f"other buffers", {**w, "bytes": exp.hex(), "traceback": traceback.format_exc()[-1500:]})
                    continue
                if got2 != ref.normalise(m, v):
                    res.violation("py-decode-depends-on-history", f"{m.name}: the specified bytes decode differently after the process decoded other buffers",
                                  {**w, "bytes": exp.hex(), "decoded": got2, "expected": ref.normalise(m, v)})
        # ---- JSON ----------------------------------------------------------
        if judge.get("json"):
            judge_json(ctx, mods, m, obj, v, w)


def foreign_buffers(items, exp: bytes, rng) -> List[Any]:
    """Buffers a peer with another schema version (or a broken link) could send: other size/capacity prefixes, zeros, ones."""
    out = [("zeros", bytes(len(exp))), ("ones", b"\xff" * len(exp))]
    pref = [it for it in items if it.kind.endswith("prefix")]
    if pref:
        for mode in ("prefix+8", "prefix-small", "prefix-random"):
            bits = [(exp[k // 8] >> (k % 8)) & 1 for k in range(len(exp) * 8)]
            for it in pref:
                cur = sum(bits[it.offset + j] << j for j in range(16))
                new = {"prefix+8": (cur + 8) & 0xFFFF, "prefix-small": max(0, cur // 2), "prefix-random": rng.randrange(0, 1 << 12)}[mode]
                for j in range(16):
                    bits[it.offset + j] = (new >> j) & 1
            out.append((mode, bytes(sum(bits[b * 8 + j] << j for j in range(8)) for b in range(len(exp)))))
    return out


def judge_json(ctx: Ctx, mods: sut_py.PyModules, m: Message, obj: Any, v: Any, w: Dict[str, Any]) -> None:
    res = ctx.res
    want = ref.json_value(m, v)
    try:
        text = obj.to_json()
    except Exception as e:
        tb = traceback.format_exc()
        key = "py-json-exception"
        if isinstance(e, TypeError) and "bytearray" in str(e):
            key = "py-json-bytearray"
        res.violation(key, f"{m.name}: to_json() raised {type(e).__name__}: {e}", {**w, "traceback": tb[-1200:]})
        text = None
    if text is not None:
        res.count("json_texts_parsed")
        try:
            got = json.loads(text, object_pairs_hook=list)
        except Exception as e:
            res.violation("py-json-invalid", f"{m.name}: to_json() is not valid JSON: {e}", {**w, "text": text[:500]})
            got = None
        if got is not None and not strict_eq(got, want):
            res.violation("py-json-value", f"{m.name}: to_json() states different values", {**w, "json": text[:800], "expected": want})
    try:
        dct = obj.to_dict()
    except Exception as e:
        res.violation("py-dict-exception", f"{m.name}: to_dict() raised {type(e).__name__}: {e}", w)
        return
    res.count("dicts_compared")
    if not strict_eq(dict_to_pairs(dct), want):
        res.violation("py-dict-value", f"{m.name}: to_dict() states different values", {**w, "dict": repr(dct)[:800], "expected": want})


def dict_to_pairs(x: Any) -> Any:
    if isinstance(x, dict):
        return [(k, dict_to_pairs(v)) for k, v in x.items()]
    if isinstance(x, (list, bytearray, bytes, tuple)):
        return [dict_to_pairs(v) for v in x]
    if isinstance(x, bool):
        return x
    if isinstance(x, int):
        return int(x)
    return x


def strict_eq(a: Any, b: Any) -> bool:
    """Equality that distinguishes true/false from 1/0 (Python's == does not)."""
    if isinstance(a, bool) or isinstance(b, bool):
        return isinstance(a, bool) and isinstance(b, bool) and a == b
    if isinstance(a, (list, tuple)) and isinstance(b, (list, tuple)):
        return len(a) == len(b) and all(strict_eq(x, y) for x, y in zip(a, b))
    if isinstance(a, (list, tuple)) or isinstance(b, (list, tuple)):
        return False
    return type(a) is type(b) and a == b


# ----------------------------------------------------------------------------
# C02 grids: shapes the runtime treats specially
# ----------------------------------------------------------------------------
def _compile_single(ctx: Ctx, root: File, tag: str):
    d = ctx.casedir(tag)
    comp = sut_compiler.compile_schema(root, d, ["py"])
    mods = sut_py.PyModules(d, root)
    return d, comp, mods


def run_grids(ctx: Ctx) -> None:
    """Deterministic grids, split across shards by index."""
    from vlib.model import Base, Field
    import bitprotolib.bp as bp

    res = ctx.res
    tr = py_trace.PyTrace(bp)
    tr.install()
    rng = ctx.rng("grids")
    jobs = []
    # (a) enum member sets at every bit offset, widths incl. > 8 bits
    enum_shapes = [(3, [0, 3, 5]), (2, [1, 2]), (12, [0, 257, 4095]), (8, [0, 128, 255]), (9, [256, 1, 511]),
                   (16, [0x8000, 0x00FF, 0xFF00]), (33, [0, 1 << 32, (1 << 33) - 1]), (64, [0, 1 << 63, (1 << 64) - 1]),
                   (1, [1]), (7, [64, 65]), (24, [0x010203, 0x800000])]
    for (w, members) in enum_shapes:
        for off in range(8):
            jobs.append(("enum", w, members, off))
    # (b) every signed width at offsets 0,3,7
    for w in range(1, 65):
        for off in (0, 3, 7):
            jobs.append(("signed", w, None, off))
    # (c) extensible arrays around cap^2 = 16 + cap*elem
    for elem in (1, 2, 3, 5, 8, 12, 16):
        for cap in (1, 2, 3, 4, 5, 6, 7, 9, 12, 17, 20, 21, 30):
            jobs.append(("extarr", elem, cap, (elem + cap) % 8))
    for idx, job in enumerate(jobs):
        if idx % ctx.nshards != ctx.shard:
            continue
        kind = job[0]
        f = File(f"grid{idx}")
        m = Message("Probe")
        if kind == "enum":
            _, w, members, off = job
            e = f.add(Enum("Kind", w, [(f"KIND_V{n}", v) for n, v in enumerate(members)]))
            if off:
                m.add(Field("pad", Base("uint", off), 1))
            m.add(Field("e", Ref(e), 2))
            m.add(Field("arr", Arr(Ref(e), 3), 3))
            m.add(Field("tail", Base("uint", 5), 4))
            res.count("grid_enum_cases")
        elif kind == "signed":
            _, w, _, off = job
            if off:
                m.add(Field("pad", Base("uint", off), 1))
            m.add(Field("x", Base("int", w), 2))
            m.add(Field("arr", Arr(Base("int", w), 2), 3))
            m.add(Field("tail", Base("bool"), 4))
            res.count("grid_signed_cases")
        else:
            _, elem, cap, off = job
            if off:
                m.add(Field("pad", Base("uint", off), 1))
            m.add(Field("arr", Arr(Base("uint", elem), cap, ext=True), 2))
            m.add(Field("tail", Base("uint", 11), 3))
            res.count("grid_extarray_cases")
        f.add(m)
        wit = {"grid": job}
        try:
            d, comp, mods = _compile_single(ctx, f, f"grid{idx}")
        except Exception as e:
            res.violation("grid-compile", f"grid schema {job} failed to compile/import: {type(e).__name__}: {e}", wit)
            continue
        try:
            wit["schema"] = describe(f, comp["paths"])
            res.case(True, wit["schema"])
            vals = []
            if kind == "enum":
                for a in job[2]:
                    for b in job[2]:
                        v = {2: a, 3: [b, a, b], 4: 21}
                        if job[3]:
                            v[1] = (1 << job[3]) - 1
                        vals.append(v)
            elif kind == "signed":
                w = job[1]
                lo, hi = -(1 << (w - 1)), (1 << (w - 1)) - 1
                for a in sorted({lo, -1, hi, 0, lo + 1 if w > 1 else lo, ref.to_signed(0x80 << (8 * ((w - 1) // 8)), w)}):
                    v = {2: a, 3: [hi, a], 4: 1}
                    if job[3]:
                        v[1] = 0
                    vals.append(v)
            else:
                elem, cap = job[1], job[2]
                for mode in ("ones", "zero", "mix"):
                    v = gen.gen_value(rng, m, mode)
                    vals.append(v)
            for v in vals:
                judge_value_roundtrip(ctx, mods, tr, m, v, wit)
        finally:
            mods.close()
            shutil.rmtree(d, ignore_errors=True)
    tr.uninstall()


def judge_value_roundtrip(ctx: Ctx, mods, tr, m: Message, v: Any, wit: Dict[str, Any]) -> None:
    res = ctx.res
    items = ref.flatten(m)
    w = {**wit, "message": m.name, "value": v}
    res.count("values")
    try:
        obj = mods.build(m, v)
        data = bytes(obj.encode())
    except Exception as e:
        tb = traceback.format_exc()
        res.violation(classify_exception(e, tb), f"encode raised {type(e).__name__}: {e}", {**w, "traceback": tb[-1500:]})
        return
    exp = ref.encode(m, v)
    if data != exp:
        res.violation("py-encode-bytes", f"{m.name}: encode() differs from the specified layout", {**w, "got": data.hex(), "expected": exp.hex()})
    want = ref.normalise(m, v)
    fresh = None
    try:
        fresh = mods.new(m)
        tr.begin()
        try:
            fresh.decode(bytearray(data))
        finally:
            dcalls, dproblems = tr.end()
        got = mods.read(m, fresh)
    except Exception as e:
        tb = traceback.format_exc()
        key = classify_roundtrip_failure(mods, m, fresh, want, e, tb)
        res.violation(key, f"{m.name}: decode raised {type(e).__name__}: {e}", {**w, "bytes": data.hex(), "traceback": tb[-1500:]})
        return
    res.count("roundtrips_compared")
    lp = py_trace.check_layout(dcalls, items)
    if got != want or lp or dproblems:
        key = "py-decode-layout" if lp else ("py-enum-default-or" if enum_default_or_explains(m, got, want) else "py-roundtrip")
        res.violation(key, f"{m.name}: decode != value" + (f"; {lp}" if lp else ""), {**w, "bytes": data.hex(), "decoded": got, "expected": want})
        return
    again = bytes(fresh.encode())
    res.count("reencodes_compared")
    if again != data:
        res.violation("py-reencode", f"{m.name}: re-encoding gives different bytes", {**w, "first": data.hex(), "second": again.hex()})


def classify_roundtrip_failure(mods, m: Message, fresh: Any, want: Any, e: BaseException, tb: str) -> str:
    if isinstance(e, ValueError) and "is not a valid" in str(e) and fresh is not None and "decode" not in tb.split("mods.read")[-1]:
        try:
            raw = mods.read(m, fresh, raw_enum=True)
        except Exception:
            return classify_exception(e, tb)
        if enum_default_or_explains(m, raw, want):
            return "py-enum-default-or"
    return classify_exception(e, tb)
