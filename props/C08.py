"""C08 - A schema is accepted if and only if it satisfies the documented constraints."""
import os
import shutil

from vlib import gen, harness, sut_compiler, violations
from vlib.emit import Printer
from vlib.gen import GenCfg
from vlib.model import File
from vlib.monitors import contracts
from props import pycommon

NAMES = sorted(violations.CATALOGUE)


def acceptable_lines(inj, printers):
    """{(filename, line)} an acceptable diagnostic may cite."""
    ok = set()
    p = printers[inj.file.basename]
    for it in inj.items:
        key = ("ef#", id(it[1]), it[2]) if isinstance(it, tuple) else id(it)
        if key in p.pos:
            ok.add((inj.file.filename, p.pos[key][0]))
        else:
            for g, pp in printers.items():
                if key in pp.pos:
                    ok.add((pp.f.filename, pp.pos[key][0]))
    if inj.span is not None and id(inj.span) in p.pos:
        a, b = p.pos[id(inj.span)][0], p.close_line.get(id(inj.span), p.pos[id(inj.span)][0])
        for ln in range(a, b + 1):
            ok.add((inj.file.filename, ln))
    return ok


def worker(ctx):
    res = ctx.res
    contracts.install()
    parse, _, render, _, errors = sut_compiler.bitproto_api()
    if ctx.quick:
        n_cases, cli_every = ctx.per_shard(1824), 8
        ctx.set_budget(240)
    else:
        n_cases, cli_every = ctx.per_shard(45600), 12
        ctx.set_budget(3300)
    for k in range(n_cases):
        if ctx.out_of_time():
            break
        case_id = ctx.shard + k * ctx.nshards
        rng = ctx.rng("case", case_id)
        if ctx.replay is not None:
            case_id = ctx.replay["witness"]["case"]
            rng = __import__("random").Random(f"{ctx.replay['seed']}:C08:{ctx.replay['witness']['shard']}:case:{case_id}")
        cfg = GenCfg(msg_bits=300, max_fields=5, n_top=(1, 4), max_depth=3, p_nested=0.5)
        cfg.n_imports = ((2, 2) if case_id % 9 == 0 else (1, 1)) if case_id % 3 == 0 else (0, 0)
        cfg.p_import_chain = 0.7  # second-level imports: the violation may sit in a file imported by an imported file
        cfg.allow_empty_enum = True
        root = gen.gen_schema(rng, cfg)
        entry = NAMES[(case_id // 2) % len(NAMES)] if case_id % 6 != 5 else None  # every sixth case: the untouched valid schema
        inj = None
        if entry is not None:
            try:
                inj = violations.CATALOGUE[entry](root, rng)
            except Exception as e:
                res.inconclusive.append(f"injection {entry} failed: {type(e).__name__}: {e}")
                continue
            if inj is None:
                res.count("injection_not_applicable")
                continue
        d = ctx.casedir(case_id)
        wit = {"case": case_id, "shard": ctx.shard, "entry": entry}
        try:
            printers, texts = {}, {}
            try:
                files = root.all_files()
                for g in files:
                    p = Printer(g, rng=rng, comments=0.2, blanks=0.2, semi=0.3, typedef=0.0)
                    texts[g.filename] = p.render()
                    printers[g.basename] = p
            except Exception as e:
                res.inconclusive.append(f"printing case {entry} failed: {type(e).__name__}: {e}")
                continue
            if inj is None or inj.accept:
                # the same schema as a text editor may leave it: no documented constraint speaks about the file's last line or its line terminators
                for fn in list(texts):
                    v = rng.randrange(8)
                    if v == 0:
                        texts[fn] = texts[fn].rstrip("\n")
                        res.count("layout:no_final_newline")
                    elif v == 1:
                        texts[fn] = texts[fn].rstrip("\n") + rng.choice([" // trailing", "\n// last line", "\n\n    // last line"])
                        res.count("layout:comment_on_last_line_without_newline")
                    elif v == 2:
                        texts[fn] = texts[fn].replace("\n", "\r\n")
                        res.count("layout:crlf")
                    elif v == 3:
                        texts[fn] = rng.choice(["\n\n", "// header comment\n", "   \n\t\n"]) + texts[fn]
                        res.count("layout:lines_before_proto")
            subdirs = {g.filename: g.subdir for g in files}
            os.makedirs(os.path.join(d, "sub"), exist_ok=True)   # (`sub/../x.bitproto` spellings need the directory to exist)
            for fn, t in texts.items():
                os.makedirs(os.path.join(d, subdirs.get(fn, "")), exist_ok=True)
                with open(os.path.join(d, subdirs.get(fn, ""), fn), "w", newline="") as fh:
                    fh.write(t)
            with open(os.path.join(d, "okimport.bitproto"), "w") as fh:
                fh.write("proto okimport\nmessage OkImported { bool a = 1 }\n")
            wit["schema"] = texts
            main = os.path.join(d, root.filename)
            expect_accept = inj is None or inj.accept
            kind = "valid-base" if inj is None else inj.kind
            res.observe("kinds_exercised", kind)
            res.case(True, texts)
            if len(res.samples) < 3 and inj is not None and case_id % 7 == 0:
                res.sample({"entry": kind, "must_accept": expect_accept, "schema": texts}, 3)
            # ---- in-process: class, file, line -------------------------------------------
            err = None
            try:
                with sut_compiler.quiet_stderr():
                    parse(main)
            except errors.ParserError as e:
                err = e
            except Exception as e:
                res.violation(f"reject-internal-exception:{type(e).__name__}", f"[{kind}] parse escaped with {type(e).__name__}: {e} (must be a parser error)",
                              {**wit, "kind": kind})
                continue
            res.count("accept_direction_checked" if expect_accept else "reject_direction_checked")
            if expect_accept and err is not None:
                res.violation(f"valid-rejected:{kind.split(':')[0]}", f"[{kind}] satisfies every documented constraint but is rejected: {type(err).__name__}: {str(err)[:200]}",
                              {**wit, "kind": kind})
                continue
            if not expect_accept and err is None:
                res.violation(f"invalid-accepted:{kind.split(':')[0]}", f"[{kind}] violates a documented constraint but is accepted", {**wit, "kind": kind})
                continue
            if err is not None:
                res.observe("error_classes", type(err).__name__)
                ok_lines = acceptable_lines(inj, printers)
                cited = (os.path.basename(err.filepath or ""), err.lineno)
                okf = {g.filename for g in inj.files_ok}
                res.count("diagnostics_checked")
                if cited[0] not in okf:
                    res.violation(f"diagnostic-wrong-file:{kind.split(':')[0]}", f"[{kind}] {type(err).__name__} cites file {cited[0]!r}, the offending construct is in {sorted(okf)}",
                                  {**wit, "kind": kind, "cited": cited, "acceptable": sorted(ok_lines)})
                elif ok_lines and cited not in ok_lines:
                    res.violation(f"diagnostic-wrong-line:{kind.split(':')[0]}", f"[{kind}] {type(err).__name__} cites {cited[0]}:L{cited[1]}, acceptable lines: {sorted(ok_lines)[:6]}",
                                  {**wit, "kind": kind, "cited": cited, "acceptable": sorted(ok_lines)})
                text = str(err)
                if cited[0] and cited[0] not in text:
                    res.violation("diagnostic-without-file", f"[{kind}] message does not name the file: {text[:200]}", {**wit, "kind": kind})
            # ---- the real command line: exit status, stderr, files -------------------------
            if case_id % cli_every == 0:
                out = os.path.join(d, "out")
                os.makedirs(out)
                lang = ["c", "py", "go"][(case_id // cli_every) % 3]
                rc, so, se = sut_compiler.cli([lang, main, out])
                made = sorted(os.listdir(out))
                res.count("cli_runs")
                if expect_accept:
                    if rc != 0 or not made:
                        res.violation(f"cli-valid-rejected:{kind.split(':')[0]}", f"[{kind}] bitproto {lang} exits {rc}, files {made}: {se[:200]}", {**wit, "kind": kind})
                else:
                    if rc == 0 or made or "error" not in se or "Traceback" in se:
                        res.violation(f"cli-reject-contract:{kind.split(':')[0]}", f"[{kind}] bitproto {lang}: exit {rc}, files written {made}, stderr {se[-200:]!r}",
                                      {**wit, "kind": kind, "stderr": se[-600:]})
        finally:
            shutil.rmtree(d, ignore_errors=True)
        if ctx.replay is not None:
            break


def extra(res):
    seen = {k.split("#")[0] for k in res.sets.get("kinds_exercised", set())}
    return {"catalogue_entries": len(NAMES), "kinds_exercised_count": len(seen)}


if __name__ == "__main__":
    harness.main(
        "C08", "props.C08", worker,
        rule=(f"case = generated valid schema (0-1 imported files, nesting depth <= 3) plus ONE construct from a {len(NAMES)}-entry catalogue injected at a random scope "
              "(file scope or a message at any depth, main or imported file) and position: violations of every constraint in the statement and their "
              "valid twins on the other side of each numeric limit (widths 0/1/64/65, capacities 0/1/65535/65536 literal and via constant, field numbers "
              "0/1/255/256, enum value 2^w-1/2^w, messages of 65535/65536 bits with and without the prefix, max_bytes = nbytes/nbytes-1, alignment 8/9, "
              "duplicates, forbidden declarations per scope, options, use before declaration, kind errors, import cycles 1-3, duplicate/diamond imports); "
              "every sixth case is the untouched valid schema; judged: accepted iff it must be, ParserError class, cited file and line within the offending "
              "construct (set of acceptable lines), and on a sample the real CLI's exit status, stderr and absence/presence of output files"),
        assumptions=["the catalogue and the generator's validity are my reading of the statement; only constraints the statement lists are generated",
                     "line oracle is a set: any line of the offending construct (for duplicates either occurrence)"],
        required_counters=["accept_direction_checked", "reject_direction_checked", "diagnostics_checked", "cli_runs"],
        extra_coverage=extra,
    )
