"""C12 - The wire format depends only on field numbers and resolved types."""
import os
import shutil
import traceback

from vlib import gen, harness, ref, rewrite, sut_c, sut_compiler, sut_py
from vlib.gen import GenCfg
from vlib.model import messages_of
from vlib.monitors import contracts
from props import ccommon, pycommon


def worker(ctx):
    res = ctx.res
    bp, tr = pycommon.setup_monitors()
    tr.uninstall()
    if ctx.quick:
        n_cases, n_values, c_every = ctx.per_shard(400), 8, 5
        ctx.set_budget(240)
    else:
        n_cases, n_values, c_every = ctx.per_shard(6400), 20, 5
        ctx.set_budget(3300)
    for k in range(n_cases):
        if ctx.out_of_time():
            break
        case_id = ctx.shard + k * ctx.nshards
        rng = ctx.rng("case", case_id)
        if ctx.replay is not None:
            case_id = ctx.replay["witness"]["case"]
            rng = __import__("random").Random(f"{ctx.replay['seed']}:C12:{ctx.replay['witness']['shard']}:case:{case_id}")
        cfg = pycommon.cfg_for_case(rng, case_id)
        cfg.msg_bits = min(cfg.msg_bits, 1200)
        cfg.big_caps = False
        if case_id % 4 == 3:
            # shadowing-rich base schema (the same four type names reused in nested scopes and imported files, see C11):
            # renames/moves then change WHICH spelling denotes a definition, never what it denotes
            from props.C11 import ShadowGen
            sg = ShadowGen(rng, res)
            imports = []
            for j in range(rng.choice([0, 1])):
                g, _ = sg.gen_file(f"lib{j}", [])
                imports.append((g, rng.choice([None, f"ns{j}"])))
            S, _ = sg.gen_file("shadowmain", imports)
            for (fl, text, target) in sg.refs:
                t = fl.type.elem if hasattr(fl.type, "elem") else fl.type
                t.forced_path = None  # let the printer choose any spelling that denotes the same definition
            if not rewrite.printable(S):
                res.count("shadow_base_not_printable")
                continue
            res.count("shadowing_base_schemas")
        else:
            S = gen.gen_schema(rng, cfg)
            if case_id % c_every == 0:
                ccommon.add_special_shapes(S, rng)  # the cases that also run generated C carry the shapes C runtimes special-case
        S2, mapping, done = rewrite.apply_rewrites(S, rng, rng.randint(1, 6))
        if not done:
            res.count("cases_without_applicable_rewrite")
            continue
        top = ctx.casedir(case_id)
        wit = {"case": case_id, "shard": ctx.shard, "rewrites": done}
        try:
            da, db = os.path.join(top, "a"), os.path.join(top, "b")
            os.makedirs(da), os.makedirs(db)
            use_c = case_id % c_every == 0
            langs = ["py", "c"] if use_c else ["py"]
            try:
                ca = sut_compiler.compile_schema(S, da, langs, rng=rng, emit_kw=dict(semi=0.2, comments=0.1))
            except Exception as e:
                harness.compile_failed(res, e, wit)
                continue
            wit["original"] = pycommon.describe(S, ca["paths"])
            try:
                # the rewritten schema is printed with different comment / blank line / semicolon noise
                cb = sut_compiler.compile_schema(S2, db, langs, rng=rng, emit_kw=dict(semi=0.8, comments=0.6, blanks=0.5, path_style="random", compact=0.3))
            except Exception as e:
                texts = {}
                for g in S2.all_files():
                    p = os.path.join(db, g.filename)
                    if os.path.exists(p):
                        texts[g.filename] = open(p).read()
                res.violation("rewrite-rejected", f"rewritten schema is rejected: {type(e).__name__}: {str(e)[:300]}", {**wit, "rewritten": texts})
                continue
            wit["rewritten"] = pycommon.describe(S2, cb["paths"])
            res.case(gen.is_nontrivial(gen.schema_signature(S)), wit["original"], wit["rewritten"])
            res.sample({"original": wit["original"], "rewrites": done, "rewritten": wit["rewritten"]}, 2)
            for d in done:
                res.count("rewrites:" + d.split(":")[0])
            # values and bytes of the original
            pairs = []
            ma = sut_py.PyModules(da, S)
            try:
                for g in S.all_files():
                    for m in messages_of(g):
                        for v in gen.gen_values(rng, m, n_values):
                            try:
                                pairs.append((m, v, bytes(ma.build(m, v).encode())))
                            except Exception as e:
                                res.count("original_side_exceptions")
            finally:
                ma.close()
            mb = sut_py.PyModules(db, S2)
            try:
                for (m, v, b1) in pairs:
                    m2 = mapping[id(m)]
                    v2 = rewrite.map_value(m, v, mapping)
                    try:
                        b2 = bytes(mb.build(m2, v2).encode())
                    except Exception as e:
                        res.violation("rewrite-py-exception", f"{m.name} -> {m2.name}: encode in the rewritten schema raised {type(e).__name__}: {e}",
                                      {**wit, "message": m.name, "value": v, "traceback": traceback.format_exc()[-1000:]})
                        continue
                    res.count("py_pairs_compared")
                    if b1 != b2:
                        r1, r2 = ref.encode(m, v), ref.encode(m2, v2)
                        side = "original" if b1 != r1 else ("rewritten" if b2 != r2 else "neither (reference agrees with both?)")
                        res.violation("rewrite-changes-bytes:" + "+".join(sorted({d.split(":")[0] for d in done})),
                                      f"{m.name} -> {m2.name}: encoded bytes differ after {done}; side deviating from the reference: {side}",
                                      {**wit, "message": m.name, "value": v, "original_bytes": b1.hex(), "rewritten_bytes": b2.hex(), "reference": r1.hex()})
            finally:
                mb.close()
            if use_c and pairs:
                try:
                    ea = sut_c.build(da, S, "gcc-O0-sep")
                    eb = sut_c.build(db, S2, "gcc-O0-sep")
                except sut_c.BuildError as e:
                    res.count("skipped_build_error")
                    res.observe("build_error_classes", ccommon.classify_build_error(e.log))
                    continue
                ra = ccommon.CSession(ea, sut_c.DriverGen(S), "gcc-O0-sep", "std").run([("E", m, ref.leaf_values(m, v)) for (m, v, _) in pairs])
                rb = ccommon.CSession(eb, sut_c.DriverGen(S2), "gcc-O0-sep", "std").run(
                    [("E", mapping[id(m)], ref.leaf_values(mapping[id(m)], rewrite.map_value(m, v, mapping))) for (m, v, _) in pairs])
                for (m, v, b1), x, y in zip(pairs, ra, rb):
                    if x.status == "OK" and y.status == "OK":
                        res.count("c_pairs_compared")
                        if x.payload(1) != y.payload(1):
                            res.violation("rewrite-changes-bytes-c", f"{m.name}: C encoders of original and rewritten schema differ after {done}",
                                          {**wit, "message": m.name, "value": v, "original_bytes": x.payload(1), "rewritten_bytes": y.payload(1)})
        finally:
            shutil.rmtree(top, ignore_errors=True)
        if ctx.replay is not None:
            break


if __name__ == "__main__":
    harness.main(
        "C12", "props.C12", worker,
        rule=("case = generated valid schema S and S' obtained by 1-6 random rewrites from the statement's list (rename, reorder fields, reorder "
              "independent definitions, introduce/inline alias, nest/un-nest, move definitions into an imported file, literal -> constant "
              "expression, order-preserving renumbering; comment/blank-line/semicolon noise always differs), each kept only if S' is still "
              "printable under the scoping rule; every message value (keyed by field number, mapped through the rewrite) is encoded by the "
              "generated Python code of S and of S' and the bytes compared; every 5th case (which also carries the special array shapes of C03) also through generated C; both sides are the real "
              "system, the reference only names the deviating side; distinct by sha256 of both schema texts"),
        assumptions=["the rewrite implementations in vlib/rewrite.py preserve resolved types and field-number order"],
        required_counters=["py_pairs_compared", "c_pairs_compared", "rewrites:rename", "rewrites:reorder-fields", "rewrites:reorder-definitions",
                           "rewrites:introduce-alias", "rewrites:inline-alias", "rewrites:un-nest", "rewrites:nest", "rewrites:move-to-import",
                           "rewrites:literal-to-constant", "rewrites:renumber", "shadowing_base_schemas"],
    )
