"""C15 - Generated API names follow the documented scheme."""
import copy
import os
import re
import shutil
import subprocess

from vlib import env, gen, harness, ref, refnames, sut_c, sut_compiler, sut_gotext as G, sut_py
from vlib.emit import write_schema
from vlib.gen import GenCfg
from vlib.model import Alias, Const, Enum, File, Message, Option, is_extensible_anywhere, iter_defs, messages_of, qualified_path
from vlib.monitors import contracts
from vlib.names import pascal_of_snake
from vlib.sut_c import c_prefix, c_type_name, pascal_prefix
from props import ccommon, pycommon
from props.C10 import layout_source

# infrastructure names (include guard, mode macro, library-style internals: bitproto.h reserves the Bp prefix): only required to exist/compile
INFRA_C = re.compile(r"^(__BITPROTO__\w*|BITPROTO_\w+|Bp[A-Z]\w*|BP_\w+)$")
PY_INFRA = {"json", "dataclass", "field", "ClassVar", "Dict", "List", "Union", "IntEnum", "unique", "bp"}


def h_names(text):
    out = {"struct": set(), "typedef": set(), "macro": set(), "function": set()}
    for line in text.split("\n"):
        m = re.match(r"struct (\w+) \{", line)
        if m:
            out["struct"].add(m.group(1))
        m = re.match(r"typedef .*?(\w+)(?:\[\d+\])?; ", line + " ")
        if m and line.startswith("typedef"):
            out["typedef"].add(m.group(1))
        m = re.match(r"#define (\w+)", line)
        if m:
            out["macro"].add(m.group(1))
        m = re.match(r"(?:int|void) (\w+)\(", line)
        if m:
            out["function"].add(m.group(1))
    return out


def struct_fields(text):
    """{struct name: [field names]} from the header text."""
    out, cur = {}, None
    for line in text.split("\n"):
        m = re.match(r"struct (\w+) \{", line)
        if m:
            cur = m.group(1)
            out[cur] = []
            continue
        if cur is not None:
            if line.startswith("}"):
                cur = None
                continue
            m = re.match(r"\s+(?!//)(?:struct )?[\w ]+?\b(\w+)(?:\[\d+\])*; //", line)
            if m:
                out[cur].append(m.group(1))
    return out


def cfg_for(rng, k):
    c = GenCfg(msg_bits=400, max_fields=6, n_top=(3, 7), max_depth=4, p_nested=0.6)
    c.n_imports = (1, 1) if k % 3 == 0 else (0, 0)
    c.name_prefix = 0.6
    c.digit_fields = 0.3
    c.basename_differs = 0.3
    c.extensible = k % 2 == 0
    if k % 6 == 5:
        c.n_imports, c.p_odd_basename = (1, 2), 1.0   # imported files named my-shared.bitproto, defs-v2.bitproto: output files carry the base name verbatim
    if k % 4 == 3:
        c.digit_names = 0.4   # Cage2, Axle9: how a digit is split off in UPPER_SNAKE is the compiler's business, the prefix twin must agree with it
    return c


def has_odd_names(root) -> bool:
    """Type names with digits: how UPPER_SNAKE splits a digit off (`VALE_5`, `VEC3_AXIS_X`) is not fixed by the documentation, so constants
    derived from them are compared case/underscore-normalised and no driver is written against a predicted spelling; the prefix twin
    relation (prefix + the very name the un-prefixed twin declares) still holds exactly."""
    return any(ch.isdigit() for g in root.all_files() for d in iter_defs(g) if isinstance(d, (Message, Enum, Alias)) for ch in d.name)


ODD = [False]


def without_prefix(root):
    twin = copy.deepcopy(root)
    for g in twin.all_files():
        g.items = [it for it in g.items if not (isinstance(it, Option) and it.name == "c.name_prefix")]
    return twin


def worker(ctx):
    res = ctx.res
    contracts.install()
    if ctx.quick:
        n_cases = ctx.per_shard(160)
        ctx.set_budget(240)
    else:
        n_cases = ctx.per_shard(2560)
        ctx.set_budget(3300)
    for k in range(n_cases):
        if ctx.out_of_time():
            break
        case_id = ctx.shard + k * ctx.nshards
        rng = ctx.rng("case", case_id)
        if ctx.replay is not None:
            case_id = ctx.replay["witness"]["case"]
            rng = __import__("random").Random(f"{ctx.replay['seed']}:C15:{ctx.replay['witness']['shard']}:case:{case_id}")
        cfg = cfg_for(rng, case_id)
        if case_id % 4 == 2:
            cfg.p_same_short_name = 0.6
        cfg.keyword_field = 0.15   # `type`: a keyword of the schema language that the grammar allows as a field name
        root = gen.gen_schema(rng, cfg)
        if case_id % 5 == 2:
            # `match`: a soft keyword of Python, an ordinary identifier in C and Go - a field name like any other
            for mm in [mm for g_ in root.all_files() for mm in messages_of(g_)]:
                if mm.fields and "match" not in {f.name for f in mm.fields} and rng.random() < 0.5:
                    rng.choice(mm.fields).name = "match"
                    res.count("fields_named_match")
        if case_id % 6 == 1:
            gen.add_same_name_shapes(root, rng, ext_ok=cfg.extensible)
        top = ctx.casedir(case_id)
        wit = {"case": case_id, "shard": ctx.shard}
        try:
            src = os.path.join(top, "src")
            os.makedirs(src)
            # printed without random layout noise so that the un-prefixed twin differs in the option line only
            paths = write_schema(root, src, path_style="long" if case_id % 2 else "short")
            wit["schema"] = pycommon.describe(root, paths)
            files = root.all_files()
            trad = not is_extensible_anywhere(root)
            od = os.path.join(top, "out")
            try:
                sut_compiler.compile_schema(root, src, ["c", "go", "py"], outdir=od, paths=paths)
                odo = None
                if trad:
                    odo = os.path.join(top, "opt")
                    sut_compiler.compile_schema(root, src, ["c", "go"], outdir=odo, optimize=True, paths=paths)
            except Exception as e:
                harness.compile_failed(res, e, wit)
                continue
            res.case(gen.is_nontrivial(gen.schema_signature(root)), wit["schema"])
            res.sample({"schema": wit["schema"]}, 1)
            ODD[0] = has_odd_names(root)
            if ODD[0]:
                res.count("cases_with_digit_bearing_type_names")
            if any(c_prefix(g) for g in files):
                res.count("cases_with_prefix")
            # ---- files ---------------------------------------------------------------------------------
            want_files = sorted(f"{g.basename}_bp{ext}" for g in files for ext in (".h", ".c", ".go", ".py"))
            res.count("file_sets_checked")
            if sorted(os.listdir(od)) != want_files:
                res.violation("file-names", f"written files {sorted(os.listdir(od))}, expected {want_files}", wit)
                continue
            for g in files:
                for (mode, d) in (("std", od), ("opt", odo)):
                    if d is None:
                        continue
                    judge_c(ctx, g, d, mode, wit)
                judge_go(ctx, g, od, wit)
            if all(g.basename.isidentifier() for g in files):
                judge_py(ctx, root, od, wit)
            else:
                res.count("cases_with_file_names_that_are_no_identifiers")   # (Python cannot import such a module: C10 known finding; names of files, C and Go are judged)
            # ---- prefix changes nothing else ----------------------------------------------------------------
            if any(c_prefix(g) for g in files):
                twin = without_prefix(root)
                tsrc, tod = os.path.join(top, "twin-src"), os.path.join(top, "twin-out")
                os.makedirs(tsrc)
                sut_compiler.compile_schema(twin, tsrc, ["c", "go", "py"], outdir=tod, emit_kw=dict(path_style="long" if case_id % 2 else "short"))
                res.count("prefix_twins_compared")
                for g in files:
                    for ext in (".go", ".py"):
                        a, b = open(os.path.join(od, f"{g.basename}_bp{ext}")).read(), open(os.path.join(tod, f"{g.basename}_bp{ext}")).read()
                        if a != b:
                            res.violation("prefix-changes-other-language", f"c.name_prefix changes {g.basename}_bp{ext}", wit)
                    P = pascal_prefix(c_prefix(g))
                    fa = struct_fields(open(os.path.join(od, f"{g.basename}_bp.h")).read())
                    fb = struct_fields(open(os.path.join(tod, f"{g.basename}_bp.h")).read())
                    if {k[len(P):] if k.startswith(P) else k: v for k, v in fa.items()} != fb:
                        res.violation("prefix-changes-fields", f"struct members differ with/without prefix in {g.basename}_bp.h", {**wit, "with": fa, "without": fb})
                    # the prefix goes IN FRONT and changes nothing else: every name of the prefixed header is the prefix plus the name the
                    # un-prefixed twin declares - whatever the spelling rules for digits and capitals in the name part are
                    if c_prefix(g):
                        UPg = refnames.upper_prefix(g)
                        na, nb = h_names(open(os.path.join(od, f"{g.basename}_bp.h")).read()), h_names(open(os.path.join(tod, f"{g.basename}_bp.h")).read())
                        for kind in ("struct", "typedef"):
                            exp = {P + n for n in nb[kind]}
                            res.count("prefix_twin_name_sets_compared")
                            if na[kind] != exp:
                                res.violation("prefix-respells-name:" + kind, f"{g.basename}_bp.h: with c.name_prefix {c_prefix(g)!r} the {kind} names are not prefix + un-prefixed name: "
                                              f"{sorted(na[kind] ^ exp)[:6]}", {**wit, "with": sorted(na[kind]), "without": sorted(nb[kind])})
                        fexp = {re.sub(r"^(Encode|Decode|Json)", lambda mm: mm.group(1) + P, n) for n in nb["function"] if not INFRA_C.match(n)}
                        fgot = {n for n in na["function"] if not INFRA_C.match(n)}
                        res.count("prefix_twin_name_sets_compared")
                        if fgot != fexp:
                            res.violation("prefix-respells-name:function", f"{g.basename}_bp.h: function names with prefix are not <Verb> + prefix + un-prefixed name: {sorted(fgot ^ fexp)[:6]}",
                                          {**wit, "with": sorted(fgot), "without": sorted(nb["function"])})
                        # (whether an underscore joins prefix and name is not fixed by the documentation: `DRONEUNSET` for a constant and
                        #  `DRONE_COLOR_RED` for an enum member both carry the upper-case prefix in front; the NAME part must be untouched)
                        mwithout = {n for n in nb["macro"] if not INFRA_C.match(n)}
                        mgot = {n for n in na["macro"] if not INFRA_C.match(n)}
                        unmatched = set(mgot)
                        missing = []
                        for n in sorted(mwithout):
                            head, rest = ("BYTES_LENGTH_", n[len("BYTES_LENGTH_"):]) if n.startswith("BYTES_LENGTH_") else ("", n)
                            cands = {head + UPg + rest, head + UPg + "_" + rest, head + UPg.rstrip("_") + "_" + rest}
                            hit = cands & unmatched
                            if hit:
                                unmatched -= hit
                            else:
                                missing.append(n)
                        res.count("prefix_twin_name_sets_compared")
                        if missing or unmatched:
                            res.violation("prefix-respells-name:macro", f"{g.basename}_bp.h: with c.name_prefix {c_prefix(g)!r} these macros are not the upper-case prefix in front of the "
                                          f"un-prefixed macro name: un-prefixed {missing[:5]} have no counterpart, prefixed {sorted(unmatched)[:5]} have no origin",
                                          {**wit, "with": sorted(mgot), "without": sorted(mwithout)})
                if ODD[0]:
                    continue   # the programs below are written against predicted macro spellings
                # layout and bytes through real builds
                mh = f"{root.basename}_bp.h"
                outs = []
                for (r, d) in ((root, od), (twin, tod)):
                    with open(os.path.join(d, "layout.c"), "w") as fh:
                        fh.write(layout_source(r, mh))
                    p = subprocess.run(["gcc", "-std=gnu99", "-w", "-I", d, "-I", env.CLIB_DIR, "layout.c", "-o", "layout"], cwd=d, capture_output=True, text=True)
                    if p.returncode:
                        res.violation("prefix-layout-build", f"layout program does not build against the documented names: {p.stderr[-300:]}", wit)
                        outs = None
                        break
                    outs.append(subprocess.run([os.path.join(d, "layout")], capture_output=True, text=True).stdout.splitlines())
                if outs:
                    strip = lambda lines, r: [re.sub(r"^\w+", lambda m: m.group(0)[len(pascal_prefix(c_prefix(r))):] if False else m.group(0), l) for l in lines]
                    nums_a = [l.split()[-1] for l in outs[0]]
                    nums_b = [l.split()[-1] for l in outs[1]]
                    if nums_a != nums_b:
                        res.violation("prefix-changes-layout", "sizeof/offsetof differ with and without c.name_prefix", {**wit, "with": outs[0][:10], "without": outs[1][:10]})
                try:
                    ea = sut_c.build(od, root, "gcc-O0-sep")
                    eb = sut_c.build(tod, twin, "gcc-O0-sep")
                    dga, dgb = sut_c.DriverGen(root), sut_c.DriverGen(twin)
                    reqs_a, reqs_b, exps = [], [], []
                    for ma, mb in zip(dga.messages, dgb.messages):
                        for v in gen.gen_values(rng, ma, 4):
                            reqs_a.append(("E", ma, ref.leaf_values(ma, v)))
                            reqs_b.append(("E", mb, ref.leaf_values(mb, v)))
                            exps.append(ref.encode(ma, v).hex())
                    ra = ccommon.CSession(ea, dga, "gcc-O0-sep", "std").run(reqs_a)
                    rb = ccommon.CSession(eb, dgb, "gcc-O0-sep", "std").run(reqs_b)
                    for x, y, e in zip(ra, rb, exps):
                        res.count("prefix_bytes_compared")
                        if x.status != "OK" or y.status != "OK" or x.payload(1) != y.payload(1) or x.payload(1) != e:
                            res.violation("prefix-changes-bytes", "encoded bytes differ with and without c.name_prefix", wit)
                            break
                except sut_c.BuildError as e:
                    res.violation("prefix-driver-build", f"driver written against the documented prefixed names does not build: {ccommon.classify_build_error(e.log)}", {**wit, "log": e.log[-800:]})
        finally:
            shutil.rmtree(top, ignore_errors=True)
        if ctx.replay is not None:
            break


def judge_c(ctx, g, d, mode, wit):
    res = ctx.res
    w = {**wit, "file": g.basename, "mode": mode}
    text = open(os.path.join(d, f"{g.basename}_bp.h")).read()
    got = h_names(text)
    want = refnames.c_names(g, optimize=(mode == "opt"))
    P, UP = pascal_prefix(c_prefix(g)), refnames.upper_prefix(g)
    res.count("c_headers_checked")
    for kind in ("struct", "typedef"):
        if got[kind] != want[kind]:
            res.violation(f"c-names:{kind}", f"{g.basename}_bp.h ({mode}): {kind} names {sorted(got[kind] ^ want[kind])[:6]} differ from the documented scheme "
                          f"(prefix {c_prefix(g)!r})", {**w, "declared": sorted(got[kind]), "expected": sorted(want[kind])})
    funcs = {f for f in got["function"] if not INFRA_C.match(f)}
    if funcs != want["function"]:
        res.violation("c-names:function", f"{g.basename}_bp.h ({mode}): functions {sorted(funcs ^ want['function'])[:6]} differ from Encode/Decode/Json<Name>", {**w, "declared": sorted(funcs)})
    macros = {m for m in got["macro"] if not INFRA_C.match(m)}
    if UP:
        bad = [m for m in macros if not (m.startswith(UP) or m.startswith("BYTES_LENGTH_" + UP))]
        if bad:
            res.violation("c-names:macro-without-prefix", f"{g.basename}_bp.h ({mode}): macros without the upper-case prefix {UP}: {bad[:5]}", w)
        if {refnames.norm(m) for m in macros} != want["macro_norm"]:
            res.violation("c-names:macro", f"{g.basename}_bp.h ({mode}): macros {sorted(macros)[:8]} differ from the documented scheme", {**w, "expected_normalised": sorted(want["macro_norm"])[:20]})
    elif ODD[0]:
        if {refnames.norm(m) for m in macros} != want["macro_norm"]:
            res.violation("c-names:macro", f"{g.basename}_bp.h ({mode}): macros {sorted(macros)[:8]} differ from the documented scheme (normalised)", {**w, "expected_normalised": sorted(want["macro_norm"])[:20]})
    elif macros != want["macro"]:
        res.violation("c-names:macro", f"{g.basename}_bp.h ({mode}): macros {sorted(macros ^ want['macro'])[:6]} differ from the documented scheme", {**w, "declared": sorted(macros), "expected": sorted(want["macro"])})
    # exported symbols of the compiled object
    p = subprocess.run(["gcc", "-std=gnu99", "-w", "-c", "-I", d, "-I", env.CLIB_DIR, f"{g.basename}_bp.c", "-o", f"{g.basename}_names.o"], cwd=d, capture_output=True, text=True)
    if p.returncode:
        res.count("c_object_unavailable")
        return
    syms = {l.split()[-1] for l in subprocess.run(["nm", "--defined-only", "-g", f"{g.basename}_names.o"], cwd=d, capture_output=True, text=True).stdout.splitlines() if l.strip()}
    api = {s for s in syms if not INFRA_C.match(s)}
    res.count("c_symbol_tables_checked")
    if api != want["function"]:
        res.violation("c-symbols", f"{g.basename}_bp.o ({mode}) exports {sorted(api ^ want['function'])[:6]} beyond/short of Encode/Decode/Json<Name>", {**w, "exported": sorted(api)})


def judge_go(ctx, g, d, wit):
    res = ctx.res
    w = {**wit, "file": g.basename}
    try:
        gf = G.parse_file(open(os.path.join(d, f"{g.basename}_bp.go")).read())
    except G.GoParseError as e:
        res.violation("go-syntax", str(e), w)
        return
    want = refnames.go_names(g)
    res.count("go_files_checked")
    structs = {n for n, t in gf.types.items() if t.kind == "struct"}
    want_structs = {"".join(qualified_path(m)) for m in messages_of(g)}
    if structs != want_structs:
        res.violation("go-names:struct", f"{g.basename}_bp.go: structs {sorted(structs ^ want_structs)[:6]} differ from the documented scheme", w)
    others = {n for n, t in gf.types.items() if t.kind != "struct"}
    if {refnames.norm(n) for n in others} != want["type_norm"]:
        res.violation("go-names:type", f"{g.basename}_bp.go: enum/alias types {sorted(others)[:8]} differ from the documented scheme", {**w, "expected_normalised": sorted(want["type_norm"])})
    top_level = {d_.name for d_ in iter_defs(g) if isinstance(d_, (Enum, Alias)) and len(qualified_path(d_)) == 1}
    if not top_level <= others:
        res.violation("go-names:top-level-type", f"{g.basename}_bp.go: top-level enum/alias names must appear verbatim, missing {sorted(top_level - others)}", w)
    consts = {c.name for c in gf.consts}
    if ODD[0]:
        if {refnames.norm(c) for c in consts} != {refnames.norm(c) for c in want["const"] | want["size_const"]}:
            res.violation("go-names:const", f"{g.basename}_bp.go: constants {sorted(consts)[:8]} differ from the documented scheme (normalised)", w)
    elif consts != want["const"] | want["size_const"]:
        res.violation("go-names:const", f"{g.basename}_bp.go: constants {sorted(consts ^ (want['const'] | want['size_const']))[:6]} differ from the documented scheme", w)
    for m in messages_of(g):
        tn = "".join(qualified_path(m))
        if tn not in gf.types:
            continue
        fields = [(f.name, f.tag) for f in gf.types[tn].fields]
        if fields != [(pascal_of_snake(f.name), f.name) for f in m.sorted_fields]:
            res.violation("go-names:field", f"{tn}: fields {fields} are not PascalCase with the schema name as JSON tag", w)
        for meth in ("Encode", "Decode", "Size"):
            if gf.func(meth, tn) is None:
                res.violation("go-names:method", f"{tn}: method {meth} missing", w)


def judge_py(ctx, root, d, wit):
    res = ctx.res
    try:
        mods = sut_py.PyModules(d, root)
    except Exception as e:
        res.violation(f"python-import:{type(e).__name__}", f"{type(e).__name__}: {str(e)[:200]}", wit)
        return
    try:
        for g in root.all_files():
            mod = mods.mods[g.basename]
            want = refnames.py_names(g)
            import types
            public = {n for n, v in vars(mod).items() if not n.startswith("_") and not n.startswith("bp_") and n not in PY_INFRA and not isinstance(v, types.ModuleType)}
            expected = want["class"] | want["enum"] | want["alias"] | want["constant"] | want["enum_member"]
            res.count("python_modules_checked")
            if public != expected:
                res.violation("py-names:module", f"{g.basename}_bp.py: public names {sorted(public ^ expected)[:8]} differ from the documented scheme",
                              {**wit, "file": g.basename, "declared": sorted(public), "expected": sorted(expected)})
            for dd in iter_defs(g):
                if isinstance(dd, Const):
                    if getattr(mod, dd.name, None) != dd.value:
                        res.violation("py-names:constant-value", f"{dd.name} = {getattr(mod, dd.name, None)!r}, declared {dd.value!r}", wit)
                if isinstance(dd, Enum):
                    cls = getattr(mod, "_".join(qualified_path(dd)), None)
                    encl = [refnames.upper_snake(m.name) for m in __import__("vlib.model", fromlist=["enclosing_messages"]).enclosing_messages(dd)]
                    for mn, mv in dd.members:
                        full = "_".join(encl + [mn])
                        if cls is None or getattr(cls, full, None) != mv or getattr(mod, full, None) != mv:
                            res.violation("py-names:enum-member", f"enum member {full} of {dd.name} not available as class member and module constant with value {mv}", wit)
                if isinstance(dd, Message):
                    cls = getattr(mod, "_".join(qualified_path(dd)), None)
                    if cls is None:
                        continue
                    obj = cls()
                    missing = [a for a in ["encode", "decode", "to_json", "to_dict", "BYTES_LENGTH"] + [f.name for f in dd.fields] if not hasattr(obj, a)]
                    res.count("python_classes_checked")
                    if missing:
                        res.violation("py-names:attribute", f"{cls.__name__}: attributes {missing} missing", wit)
    finally:
        mods.close()


if __name__ == "__main__":
    harness.main(
        "C15", "props.C15", worker,
        rule=("case = generated style-guide-named schema (plain PascalCase/snake_case/UPPER_CASE words, nesting <= 4, every third case with an imported file, "
              "60% with c.name_prefix from {my_prefix_, Ab, xq_, Zz}, file names sometimes different from proto names) compiled for c, c -O (traditional), go, "
              "py; judged: written file names; the sets of struct/typedef/function/macro names declared in each .h and of exported symbols (nm) of each "
              "compiled .c equal exactly the predicted sets (infrastructure names - include guard, BITPROTO_OPTIMIZATION_MODE, BpXXX*/BpFieldDescriptorsInit* - "
              "excluded; with a prefix, macros are compared case/underscore-normalised and must start with the upper-case prefix); Go structs, consts, fields, "
              "tags, methods; Python public module names, enum members, class attributes; with a prefix: Go/Python outputs byte-identical to the un-prefixed "
              "twin, struct members, sizeof/offsetof and encoded bytes (real builds through drivers written against the documented names) unchanged"),
        assumptions=["vlib/refnames.py is my reading of docs/*-guide.rst and the statement; nested enum/alias names in Go are compared normalised (docs do not fix them)"],
        required_counters=["c_headers_checked", "c_symbol_tables_checked", "go_files_checked", "python_modules_checked", "python_classes_checked", "file_sets_checked",
                           "cases_with_prefix", "prefix_twins_compared", "prefix_bytes_compared", "prefix_twin_name_sets_compared", "cases_with_digit_bearing_type_names", "cases_with_file_names_that_are_no_identifiers"],
    )
