"""Executor child of C09: parses (and renders) one input per request, so that the parent can observe a hang from outside.

A Python-level signal handler cannot interrupt a single long C-level call (e.g. a catastrophically backtracking regular
expression inside the lexer), so the watchdog must live in another process.  Protocol: request = 8 hex digits length + payload
(first byte is a flag: 'R' UTF-8 text, render accepted inputs; 'P' UTF-8 text, parse only; 'F' raw BYTES written to a file that is parsed
through parse(path) and rendered; 'I' raw bytes written to a file that a valid main file imports); reply = one JSON line.
"""
import json
import os
import sys
import traceback


def classify(e, tb):
    frames = [l.strip() for l in tb.strip().splitlines() if l.strip().startswith("File ")]
    where = "?"
    for fr in reversed(frames):
        if "/bitproto/" in fr:
            where = fr.split(",")[-1].replace("in ", "").strip()
            break
    return f"{type(e).__name__}:{where}"


def main():
    workdir = sys.argv[1]
    from vlib import env
    env.assert_repo_imports()
    from vlib.monitors import contracts
    contracts.install()
    import bitproto.errors as errors
    from bitproto.parser import parse, parse_string
    from bitproto.renderer import render

    anchor = os.path.join(workdir, "fuzz.bitproto")
    outdir = os.path.join(workdir, "out")
    os.makedirs(outdir, exist_ok=True)
    inp, out = sys.stdin.buffer, sys.stdout
    sys.stderr = open(os.devnull, "w")
    while True:
        head = inp.read(8)
        if len(head) < 8:
            return
        raw = inp.read(int(head, 16))
        flag, body = chr(raw[0]), raw[1:]
        rep = {"status": "?", "problems": [], "renders": 0, "renders_opt": 0}
        if flag in "FI":
            bpath = os.path.join(workdir, "bytesmain.bitproto" if flag == "F" else "byteslib.bitproto")
            with open(bpath, "wb") as fh:
                fh.write(body)
            if flag == "I":
                bpath = os.path.join(workdir, "bytesimporter.bitproto")
                with open(bpath, "w") as fh:
                    fh.write('proto importer\nimport b "byteslib.bitproto"\nmessage M { bool a = 1 }\n')
            do_parse = lambda trad=False: parse(bpath, traditional_mode=trad)
            flag = "R"
        else:
            text = body.decode("utf-8", "surrogatepass")
            do_parse = lambda trad=False: parse_string(text, filepath=anchor, traditional_mode=trad)
        try:
            proto = do_parse()
            rep["status"] = "accepted"
        except errors.ParserError as e:
            rep["status"], rep["cls"] = "rejected", type(e).__name__
            proto = None
        except OSError:
            rep["status"] = "oserror"
            proto = None
        except BaseException as e:
            tb = traceback.format_exc()
            rep["status"] = "internal"
            rep["problems"].append({"key": "parse-internal:" + classify(e, tb), "what": f"parse escaped with {type(e).__name__}: {str(e)[:200]}", "traceback": tb[-1500:]})
            proto = None
        if proto is not None and flag == "R":
            for lang in ("c", "go", "py"):
                rep["renders"] += 1
                try:
                    render(proto, lang, outdir=outdir)
                except errors.RendererError:
                    pass
                except BaseException as e:
                    tb = traceback.format_exc()
                    rep["problems"].append({"key": f"render-internal:{lang}:" + classify(e, tb), "what": f"render {lang} of an accepted schema escaped with {type(e).__name__}: {str(e)[:200]}", "traceback": tb[-1500:]})
            try:
                tp = do_parse(True)
            except BaseException:
                tp = None
            if tp is not None:
                for lang in ("c", "go"):
                    rep["renders"] += 1
                    rep["renders_opt"] += 1
                    try:
                        render(tp, lang, outdir=outdir, optimization_mode=True)
                    except errors.RendererError:
                        pass
                    except BaseException as e:
                        tb = traceback.format_exc()
                        rep["problems"].append({"key": f"render-internal:{lang}-O:" + classify(e, tb), "what": f"render {lang} -O escaped with {type(e).__name__}: {str(e)[:200]}", "traceback": tb[-1500:]})
        out.write(json.dumps(rep) + "\n")
        out.flush()


if __name__ == "__main__":
    main()
