"""C09 - Compilation is total: any input text yields success or a parser error."""
import json
import os
import re
import shutil
import signal
import subprocess
import sys
import time
import traceback

from vlib import env, gen, harness, sut_compiler
from vlib.emit import Printer
from vlib.gen import GenCfg
from vlib.monitors import contracts
from props import pycommon

TOKEN_RE = re.compile(r'//[^\n]*|"(?:[^"\\\n]|\\.)*"|0x[0-9a-fA-F]+|[0-9]+|[A-Za-z_][A-Za-z0-9_]*|\n|[ \t]+|.', re.S)

VOCAB = ["proto", "import", "option", "type", "const", "enum", "message", "typedef", "bool", "byte", "uint1", "uint8", "uint64", "uint65", "uint0",
         "int1", "int64", "int65", "int0", "uint99999999999999999999", "0", "1", "7", "255", "256", "65535", "65536", "0x0", "0xff",
         "0xFFFFFFFFFFFFFFFFFFFFFFFF", "00", "123456789012345678901234567890", "true", "false", "yes", "no", '"str"', '""', '"a\\nb"', '"\\q"',
         '"\\\\"', '"it\'s"', '"unterminated', "+", "-", "*", "/", "(", ")", ":", ";", "{", "}", "[", "]", "=", "'", ".", ",", "\n", "\n", " ",
         "// c\n", "Name", "name", "NAME", "A.B", "A.B.C.D", "_", "__init__", "é", "\t", "\\", "max_bytes", "c.name_prefix", "lib", "lib.Thing",
         '"lib.bitproto"', '"missing.bitproto"', '"fuzz.bitproto"', '"li\x00b.bitproto"', '"\x00"', '"/"', '""', '"."', '"..///lib.bitproto"', "/", "0", "( 1 / 0 )", "1 / ( 2 - 2 )", "@", "#", "$", "\x0b", "\x00",
         '"10\u00a0EUR"', '"\ufeff"', '"a\u2028b"', '"\u200b\ue000\u3000"', '"\U0010ffff\u202e"', "\u00a0", "\ufeff", "\u2028", "// \u00a0\u200b\ufeff\n"]


class Timeout(Exception):
    pass


def _alarm(signum, frame):
    raise Timeout()


def mutate(rng, toks, other):
    toks = list(toks)
    n_ops = rng.choice([1, 1, 1, 2, 3, 5])
    for _ in range(n_ops):
        if not toks:
            toks = [rng.choice(VOCAB)]
        op = rng.random()
        i = rng.randrange(len(toks))
        if op < 0.2:
            del toks[i]
        elif op < 0.35:
            toks.insert(i, toks[i])
        elif op < 0.5 and len(toks) > 1:
            j = min(len(toks) - 1, i + 1)
            toks[i], toks[j] = toks[j], toks[i]
        elif op < 0.7:
            toks[i] = rng.choice(VOCAB)
        elif op < 0.85:
            toks.insert(i, rng.choice(VOCAB))
        elif op < 0.9:
            toks = toks[:i]
        elif op < 0.95 and other:
            j = rng.randrange(len(other))
            toks = toks[:i] + other[j:j + rng.randint(1, 30)] + toks[i:]
        else:
            k = rng.randint(1, 40)
            toks[i:i] = [rng.choice(VOCAB) for _ in range(k)]
    return "".join(toks)


def char_mutate(rng, text):
    s = list(text)
    for _ in range(rng.choice([1, 1, 2, 4, 8])):
        if not s:
            break
        i = rng.randrange(len(s))
        r = rng.random()
        if r < 0.3:
            del s[i]
        elif r < 0.6:
            s[i] = rng.choice("{}[]()'\";:=.+-*/\\\n\t 019azAZ_é\r")
        elif r < 0.8:
            s.insert(i, rng.choice("{}[]()'\";:=.+-*/\\\n\t 019azAZ_é"))
        else:
            s[i:i] = s[i:i + rng.randint(1, 20)]
    return "".join(s)


def byte_mutate(rng, text):
    """Byte-level damage to the UTF-8 file: stray high bytes, Latin-1 / UTF-16 encodings, BOMs, truncated sequences, NULs."""
    r = rng.randrange(7)
    if r == 0:
        return text.replace("//", "// caf\u00e9", 1).encode("latin-1", "replace")
    if r == 1:
        return text.encode(rng.choice(["utf-16", "utf-16-le", "utf-32"]))
    if r == 2:
        return rng.choice([b"\xef\xbb\xbf", b"\xff\xfe", b"\xfe\xff"]) + text.encode("utf-8")
    b = bytearray(text.encode("utf-8"))
    if r == 3:
        return bytes(b) + rng.choice([b"\xe4", b"\xe4\xb8", b"\xf0\x9f\x98", b"\xc3"])  # truncated multi-byte sequence at EOF
    for _ in range(rng.choice([1, 1, 2, 5])):
        i = rng.randrange(len(b) + 1)
        if r == 4:
            b[i:i] = bytes([rng.randrange(0x80, 0x100)])
        elif r == 5 and b:
            b[min(i, len(b) - 1)] = rng.choice([0x00, 0x80, 0xBF, 0xC0, 0xED, 0xFF, 0xA0])
        else:
            b[i:i] = rng.choice([b"\xed\xa0\x80", b"\xc0\x80", b"\xf4\x90\x80\x80", b"\x00", b"\xe2\x80\xa8"])
    return bytes(b)


def huge_number(rng):
    """Integer spellings around the limits of the host language's integer/string conversion."""
    return rng.choice(["9" * 30, "9" * 400, "9" * 4000, "9" * 5000, "0x" + "F" * 3500, "0x" + "f" * 4000, "0x" + "0" * 5000 + "1",
                       "9" * 4000 + " * " + "9" * 4000, "(" + "9" * 4299 + " + 1) * 10", "1 - 0x" + "F" * 3500 + " * 0x" + "F" * 3500,
                       "0x" + "F" * 3500 + " / 3", "9" * 4000 + " * 0", "7 - " + "9" * 4300])


def resource_limit_key(key, what, text):
    """Resource limits of the host interpreter, keyed by mechanism AND by the shape that is needed to reach them (known findings)."""
    depth, d = 0, 0
    for ch in text:
        d += ch == "{"
        d -= ch == "}"
        depth = max(depth, d)
    chained_aliases = len(re.findall(r"^\s*type \w+ = \w+\[", text, re.M))
    chained_messages = len(re.findall(r"^message R\d+ \{ R\d+ f = 1", text, re.M))
    if "RecursionError" in key and (depth >= 150 or chained_aliases >= 150 or chained_messages >= 150):
        return "recursion-limit"
    if "ValueError" in key and "Exceeds the limit" in what and chained_aliases >= 100 and "[65535]" in text:
        return "alias-size-beyond-print-limit"
    return key


def structured(rng):
    """Hostile shapes: long dotted names, deep nesting, long expressions, huge numbers."""
    r = rng.randrange(12)
    if r == 11:
        # a small DAG whose tree expansion is exponential: one leaf type reused with a wide fan-out on every level.  Parsing (sizes, validation)
        # must stay polynomial in the text; anything that walks the expansion without memoising - or whose memo forgets some results (0, empty
        # lists) - needs fan_out^depth steps.  Parse only: renderers that inline nested messages (-O) write the expansion by construction.
        fan, depth = rng.choice([(24, 10), (16, 12), (8, 20), (30, 8)])
        leaf = rng.choice(["message Z {}", "message Z {}", "message Z { bool b = 1 }", "enum Z : uint1 {}", "message Y {}\nmessage Z { Y y = 1; Y[3] ys = 2 }",
                           "type Z = bool[1]", "message Z' {}"])
        out = ["proto fanout", leaf]
        prev = "Z"
        for lv in range(1, depth + 1):
            out.append(f"message L{lv} {{ " + "; ".join(f"{prev}{'[2]' if rng.random() < 0.1 else ''} f{k} = {k}" for k in range(1, fan + 1)) + " }")
            prev = f"L{lv}"
            if leaf.startswith("message Z { bool") or leaf.startswith("type Z") or leaf.startswith("message Z'"):
                if fan ** lv * (17 if "'" in leaf else 1) > 60000:
                    break   # stay inside the 65535-bit message limit when the leaf has a size
        return "\n".join(out) + "\n"
    if r == 9:
        # beyond the interpreter's recursion limit (known finding recursion-limit) and just below it
        if rng.random() < 0.3:
            # nesting by reference: every message holds the previous one (brace depth 1; -O inlines the whole chain recursively)
            n = rng.choice([100, 250])  # (-O inlining is quadratic in the chain length and the contracts on nbits make it worse: 500 links, where the recursion limit is, cost more CPU in the executor than the hang criterion allows - the known finding is classified if a fuzzer gets there, not drawn)
            return "proto p\nmessage R0 { bool b = 1 }\n" + "".join(f"message R{k} {{ R{k - 1} f = 1; uint3 x = 2 }}\n" for k in range(1, n))
        if rng.random() < 0.5:
            # (rendering is quadratic in the depth: ~27 s of CPU for all five renders at 450 levels, which is slow, not a hang - the depths
            # stay clear of that region on both sides)
            depth = rng.choice([200, 600, 1200])
            return "proto p\n" + "".join(f"message M{k} {{\n" for k in range(depth)) + "bool a = 1\n" + "}\n" * depth
        n = rng.choice([150, 300, 420, 900])
        return "proto p\ntype T0 = bool[1]\n" + "".join(f"type T{k} = T{k - 1}[1]\n" for k in range(1, n)) + f"message M {{ T{n - 1} a = 1 }}\n"
    if r == 10:
        # sizes that only aliases can reach (a message is limited to 65535 bits, an alias is not)
        n = rng.choice([3, 40, 300, 950])
        return "proto p\ntype T0 = byte[65535]\n" + "".join(f"type T{k} = T{k - 1}[65535]\n" for k in range(1, n))
    if r == 8:
        # import paths the operating system (or Python's path functions) dislikes
        path = rng.choice(["li\x00b.bitproto", "\x00", "", ".", "/", "..", "lib.bitproto/", "/dev/null", "/proc/self/mem", "x" * rng.choice([300, 5000]),
                           "é中.bitproto", "fuzz.bitproto", "./fuzz.bitproto", "lib.bitproto", "//lib.bitproto", "lib.bitproto\t", " lib.bitproto"])
        name = rng.choice(["", "as_name ", "lib ", "p "])
        where = rng.choice(["top", "message", "enum", "twice"])
        stmt = f'import {name}"{path}"'
        if where == "top":
            return f"proto p\n{stmt}\nmessage M {{ bool a = 1 }}\n"
        if where == "twice":
            return f"proto p\n{stmt}\n{stmt}\n"
        if where == "message":
            return f"proto p\nmessage M {{\n    {stmt}\n    bool a = 1\n}}\n"
        return f"proto p\nenum E : uint3 {{\n    {stmt}\n}}\n"
    if r == 0:
        return "proto p\nmessage M { " + ".".join(["A"] * rng.choice([2, 50, 400])) + " f = 1 }\n"
    if r == 1:
        depth = rng.choice([5, 40, 120])
        return "proto p\n" + "".join(f"message M{k} {{\n" for k in range(depth)) + "bool a = 1\n" + "}\n" * depth
    if r == 2:
        depth = rng.choice([5, 100, 400])
        return "proto p\nconst A = " + "(" * depth + "1" + ")" * depth + "\n"
    if r == 3:
        n = rng.choice([10, 300, 2000])
        return "proto p\nconst A = " + rng.choice([" + ", " - ", " * ", " / "]).join(str(rng.randint(1, 9)) for _ in range(n)) + "\n"
    if r == 4:
        n = huge_number(rng)
        lit = n if not any(c in n for c in "+-*/") else "0x" + "F" * 3500  # positions that take a literal only
        return rng.choice([
            f"proto p\nconst A = {n}\nmessage M {{ byte[A] x = 1 }}\n",
            f"proto p\nconst A = {n}\n",
            f"proto p\nconst A = {n}\nconst B = A * A\nconst C = B / A\n",
            f"proto p\nmessage M {{ byte[{lit}] x = 1 }}\n",
            f"proto p\nmessage M {{ byte x = {lit} }}\n",
            f"proto p\nenum E : uint8 {{ V = {lit} }}\n",
            f"proto p\nconst A = {n}\nmessage M {{ option max_bytes = A; byte x = 1 }}\n",
            f"proto p\nconst A = {n}\noption c.struct_packing_alignment = A\n",
            f"proto p\nmessage M {{ uint{lit.replace('0x', '')[:4400].replace('F', '9').replace('f', '9')} x = 1 }}\n",
        ])
    if r == 5:
        n = rng.choice([10, 255, 300])
        return "proto p\nmessage M {\n" + "".join(f"  uint{1 + k % 64} f{k} = {1 + k}\n" for k in range(n)) + "}\n"
    if r == 6:
        return "proto p\nenum E : uint64 {\n" + "".join(f"  V{k} = {k}\n" for k in range(rng.choice([0, 1, 500]))) + "}\nmessage M { E e = 1; E[3] es = 2 }\n"
    return "proto p\n" + "".join(f"type T{k} = {'T%d' % (k - 1) if k else 'byte'}[2]\n" for k in range(rng.choice([3, 8, 14])))


def classify(e, tb):
    frames = [l.strip() for l in tb.strip().splitlines() if l.strip().startswith("File ")]
    where = "?"
    for fr in reversed(frames):
        if "/bitproto/" in fr:
            where = fr.split(",")[-1].replace("in ", "").strip()
            break
    return f"{type(e).__name__}:{where}"


def import_layouts(ctx, parse, errors):
    """Import graphs that need several files on disk (no single input text reaches them): cycles across directories, through dot
    segments, symbolic links and absolute paths; self imports; diamonds reached under different spellings; imports of directories and
    of files that vanish.  parse(main) must return or raise ParserError/OSError - a RecursionError is an internal exception."""
    res = ctx.res
    base = ctx.casedir("layouts")
    M = "message Own%d { bool a = 1 }\n"

    def layout(name, files, main, links=()):
        d = os.path.join(base, name)
        for rel, text in files.items():
            os.makedirs(os.path.dirname(os.path.join(d, rel)) or d, exist_ok=True)
            with open(os.path.join(d, rel), "w") as fh:
                fh.write(text.replace("@ABS@", os.path.abspath(d)))
        for src, dst in links:
            os.symlink(src, os.path.join(d, dst))
        return os.path.join(d, main)

    cases = [
        ("cycle-across-directory", {"root.bitproto": 'proto root\nimport "sub/b.bitproto"\n' + M % 1, "sub/b.bitproto": 'proto b\nimport "../root.bitproto"\n' + M % 2}, "root.bitproto", ()),
        ("self-import-dot", {"selfi.bitproto": 'proto selfi\nimport "./selfi.bitproto"\n' + M % 1}, "selfi.bitproto", ()),
        ("self-import-updown", {"selfu.bitproto": 'proto selfu\nimport "sub/../selfu.bitproto"\n' + M % 1, "sub/keep.bitproto": "proto keep\n"}, "selfu.bitproto", ()),
        ("cycle-three-files-two-directories", {"a.bitproto": 'proto a\nimport "x/b.bitproto"\n' + M % 1, "x/b.bitproto": 'proto b\nimport "./y/../c.bitproto"\n' + M % 2,
                                               "x/c.bitproto": 'proto c\nimport "../a.bitproto"\n' + M % 3, "x/y/keep.bitproto": "proto keep\n"}, "a.bitproto", ()),
        ("cycle-through-symlink", {"root.bitproto": 'proto root\nimport "link.bitproto"\n' + M % 1}, "root.bitproto", (("root.bitproto", "link.bitproto"),)),
        ("cycle-through-symlinked-directory", {"root.bitproto": 'proto root\nimport "loop/root.bitproto"\n' + M % 1}, "root.bitproto", ((".", "loop"),)),
        ("cycle-absolute-path", {"root.bitproto": 'proto root\nimport "@ABS@/b.bitproto"\n' + M % 1, "b.bitproto": 'proto b\nimport "@ABS@/./root.bitproto"\n' + M % 2}, "root.bitproto", ()),
        ("cycle-started-from-subdirectory-main", {"sub/main.bitproto": 'proto main\nimport "../top.bitproto"\n' + M % 1, "top.bitproto": 'proto top\nimport "sub/main.bitproto"\n' + M % 2}, "sub/main.bitproto", ()),
        ("diamond-two-spellings", {"root.bitproto": 'proto root\nimport l "left.bitproto"\nimport r "right.bitproto"\nmessage Own1 { l.Own2 a = 1; r.Own3 b = 2 }\n',
                                   "left.bitproto": 'proto left\nimport "./shared.bitproto"\nmessage Own2 { shared.Own4 s = 1 }\n',
                                   "right.bitproto": 'proto right\nimport "sub/../shared.bitproto"\nmessage Own3 { shared.Own4 s = 1 }\n',
                                   "shared.bitproto": "proto shared\n" + M % 4, "sub/keep.bitproto": "proto keep\n"}, "root.bitproto", ()),
        ("import-a-directory", {"root.bitproto": 'proto root\nimport "sub"\n' + M % 1, "sub/keep.bitproto": "proto keep\n"}, "root.bitproto", ()),
        ("import-dangling-symlink", {"root.bitproto": 'proto root\nimport "gone.bitproto"\n' + M % 1}, "root.bitproto", (("nowhere.bitproto", "gone.bitproto"),)),
    ]
    for name, files, main, links in cases:
        wit = {"part": "import-layouts", "layout": name, "files": files}
        try:
            path = layout(name, files, main, links)
        except OSError as e:
            res.inconclusive.append(f"could not create import layout {name}: {e}")
            continue
        for how in ("absolute", "relative"):
            res.count("import_layouts_parsed")
            cwd = os.getcwd()
            try:
                if how == "relative":
                    os.chdir(os.path.dirname(path))
                with sut_compiler.quiet_stderr():
                    parse(os.path.basename(path) if how == "relative" else path)
                res.observe("import_layout_outcomes", f"{name}: accepted")
            except errors.ParserError as e:
                res.observe("import_layout_outcomes", f"{name}: {type(e).__name__}")
            except OSError as e:
                res.observe("import_layout_outcomes", f"{name}: OSError")
            except BaseException as e:
                tb = traceback.format_exc()
                res.violation("parse-internal:" + classify(e, tb), f"import layout {name} ({how} main path): parse escaped with {type(e).__name__}: {str(e)[:160]}",
                              {**wit, "how": how, "traceback": tb[-1500:]})
            finally:
                os.chdir(cwd)
    shutil.rmtree(base, ignore_errors=True)


def worker(ctx):
    res = ctx.res
    contracts.install()
    parse, parse_string, render, lint, errors = sut_compiler.bitproto_api()
    if ctx.replay is None or ctx.replay.get("witness", {}).get("part") == "import-layouts":
        if ctx.shard == 0 or ctx.replay is not None:
            import_layouts(ctx, parse, errors)
        if ctx.replay is not None:
            return
    if ctx.quick:
        n_inputs = ctx.per_shard(48000)
        ctx.set_budget(170)
    else:
        n_inputs = ctx.per_shard(800000)
        ctx.set_budget(1800)
    workdir = ctx.casedir("fuzz")
    with open(os.path.join(workdir, "lib.bitproto"), "w") as fh:
        fh.write("proto lib\nconst N = 3\nenum Thing : uint3 { THING_A = 0 }\nmessage Mess { Thing t = 1 }\n")
    anchor = os.path.join(workdir, "fuzz.bitproto")
    open(anchor, "w").write("proto fuzz\n")
    outdir = os.path.join(workdir, "out")
    os.makedirs(outdir, exist_ok=True)

    class Executor:
        """The real parser/renderers run in a child process; the watchdog lives here, outside (see props/c09_exec.py)."""

        CPU_LIMIT = 40.0  # seconds of CPU the child may burn on ONE input (normal: 0.03 s; the slowest hostile shape, contracts on: ~15 s)

        def __init__(self):
            self.p = None
            self.start()

        def start(self):
            self.p = subprocess.Popen([env.PYTHON, "-m", "props.c09_exec", workdir], cwd=env.VERIF, env=env.child_env(),
                                      stdin=subprocess.PIPE, stdout=subprocess.PIPE, stderr=subprocess.DEVNULL)
            res.count("executor_processes_started")

        def cpu(self):
            try:
                f = open(f"/proc/{self.p.pid}/stat").read().rsplit(")", 1)[1].split()
                return (int(f[11]) + int(f[12])) / os.sysconf("SC_CLK_TCK")
            except Exception:
                return 0.0

        def ask(self, text, render):
            """Returns the reply dict, or None when the child burnt CPU_LIMIT on this input (it is killed and restarted)."""
            import select
            if isinstance(text, bytes):
                payload = (b"I" if render == "import" else b"F") + text
            else:
                payload = (("R" if render else "P") + text).encode("utf-8", "surrogatepass")
            c0 = self.cpu()
            try:
                self.p.stdin.write(b"%08x" % len(payload) + payload)
                self.p.stdin.flush()
            except BrokenPipeError:
                self.start()
                return {"status": "internal", "problems": [{"key": "parse-internal:process-died", "what": "executor process died", "traceback": ""}], "renders": 0, "renders_opt": 0}
            waited = 0.0
            while True:
                r, _, _ = select.select([self.p.stdout], [], [], 2.0)
                if r:
                    line = self.p.stdout.readline()
                    if not line:
                        rc = self.p.poll()
                        self.start()
                        return {"status": "internal", "renders": 0, "renders_opt": 0,
                                "problems": [{"key": "parse-internal:process-died", "what": f"executor process died (exit {rc}) on an input", "traceback": ""}]}
                    return json.loads(line)
                waited += 2.0
                if self.cpu() - c0 > self.CPU_LIMIT:
                    self.p.kill()
                    self.p.wait()
                    self.start()
                    return None
                if waited > 1800:  # starved machine: not a verdict
                    self.p.kill()
                    self.p.wait()
                    self.start()
                    res.inconclusive.append("executor made no progress for 30 min of wall-clock without using CPU")
                    return {"status": "oserror", "problems": [], "renders": 0, "renders_opt": 0}

        def close(self):
            try:
                self.p.stdin.close()
                self.p.wait(timeout=10)
            except Exception:
                self.p.kill()

    ex = Executor()
    seeds = []  # token lists of valid schemas

    def new_seed(k):
        rng = ctx.rng("seed", k)
        cfg = GenCfg(msg_bits=200, max_fields=4, n_top=(1, 4), n_imports=(0, 0), allow_empty_enum=True)
        root = gen.gen_schema(rng, cfg)
        text = Printer(root, rng=rng, semi=0.3, comments=0.3, blanks=0.2).render()
        if rng.random() < 0.3:
            text = text.replace("\n", '\nimport "lib.bitproto"\n', 1)
        return TOKEN_RE.findall(text)

    def run_one(text, origin, render):
        """Returns True when the input was accepted."""
        res.count("inputs")
        res.evaluations += 1
        res.count("inputs:" + origin)
        t0 = time.time()
        rep = ex.ask(text, render)
        if rep is None:
            rep = ex.ask(text, render)  # once more, alone in a fresh process, before a hang is reported
            if rep is None:
                res.violation("hang", f"parse/render did not return within {Executor.CPU_LIMIT:.0f} s of CPU time, twice, for a {len(text)}-character input from {origin}",
                              {"input": text[:4000] if isinstance(text, str) else {"bytes_hex": text[:4000].hex(), "as": "imported file" if render == "import" else "main file"}, "origin": origin})
                return False
        dt = time.time() - t0
        if dt * 1000 > res.counters.get("slowest_ms", 0):
            res.counters["slowest_ms"] = int(dt * 1000)
        st = rep["status"]
        res.count({"accepted": "accepted", "rejected": "rejected", "oserror": "os_errors"}.get(st, "internal_errors"))
        if st == "rejected":
            res.observe("parser_error_classes", rep["cls"])
        res.count("renders", rep["renders"])
        res.count("renders_optimisation_mode", rep["renders_opt"])
        for pr in rep["problems"]:
            if isinstance(text, str):
                pr["key"] = resource_limit_key(pr["key"], pr["what"], text)
            shown = text[:4000] if isinstance(text, str) else {"bytes_hex": text[:4000].hex(), "as": "imported file" if render == "import" else "main file"}
            res.violation(pr["key"], pr["what"] + f" (origin {origin})", {"input": shown, "origin": origin, "traceback": pr["traceback"]})
        return st == "accepted"

    if ctx.replay is not None:
        inp = ctx.replay["witness"]["input"]
        if isinstance(inp, dict):
            run_one(bytes.fromhex(inp["bytes_hex"]), "replay", "import" if inp["as"] == "imported file" else True)
        else:
            run_one(inp, "replay", True)
        ex.close()
        return
    k = 0
    rng = ctx.rng("fuzz")
    accepted_rendered = 0
    while k < n_inputs and not ctx.out_of_time():
        if k % 400 == 0:
            seeds.append(new_seed(ctx.shard * 100000 + k))
            if len(seeds) > 30:
                seeds.pop(0)
        k += 1
        r = rng.random()
        base = rng.choice(seeds)
        if r < 0.55:
            text, origin = mutate(rng, base, rng.choice(seeds)), "token-mutation"
        elif r < 0.7:
            text, origin = char_mutate(rng, "".join(base)), "char-mutation"
        elif r < 0.8:
            text, origin = "".join(rng.choice(VOCAB) + rng.choice(["", " ", " ", "\n"]) for _ in range(rng.randint(1, 60))), "random-tokens"
        elif r < 0.88:
            cut = rng.randrange(len(base) + 1)
            text, origin = "".join(base[:cut]), "truncation"
        elif r < 0.93:
            text, origin = structured(rng), "structured"
        elif r < 0.96:
            # the file as the operating system holds it: bytes that need not be UTF-8 text (main file or imported file)
            text, origin = byte_mutate(rng, "".join(base)), "byte-mutation"
            run_one(text, origin, "import" if rng.random() < 0.4 else True)
            continue
        else:
            text, origin = "".join(base), "valid"
        want_render = (origin != "valid" or rng.random() < 0.3) and accepted_rendered < n_inputs // 6
        if text.startswith("proto fanout"):
            want_render = False   # see structured(): only parsing is required to stay polynomial
            res.count("fanout_dag_inputs")
        if run_one(text, origin, want_render) and want_render:
            accepted_rendered += 1
    ex.close()
    if not ctx.quick:
        atheris_tier(ctx, workdir, seeds, 1200)
    # CLI: a traceback must never reach stderr (sample)
    samples = [("proto x\nconst A = 1 / 0\n", "div0"), ("proto x\nmessage M { import \"lib.bitproto\" }\n", "import-in-message"),
               ("proto x\nenum E : uint3 {}\nmessage M { E e = 1 }\n", "empty-enum-field"), ("message", "truncated"), ("", "empty")]
    for text, name in samples[ctx.shard % len(samples):][:2]:
        p = os.path.join(workdir, "cli.bitproto")
        open(p, "w").write(text)
        for lang in ("c", "py"):
            rc, so, se = sut_compiler.cli([lang, p, outdir])
            res.count("cli_runs")
            if "Traceback" in se:
                exc = [l for l in se.strip().splitlines() if l and not l.startswith(" ")][-1]
                where = [l.strip() for l in se.splitlines() if l.strip().startswith("File ") and "/bitproto/" in l]
                fn = where[-1].split(",")[-1].replace("in ", "").strip() if where else "?"
                key = ("render-internal:%s:" % lang if "renderer" in se else "parse-internal:") + exc.split(":")[0] + ":" + fn
                res.violation(key, f"CLI {lang} on {name}: Python traceback on stderr: {exc[:200]}", {"input": text, "stderr": se[-1500:]})


def atheris_tier(ctx, workdir, seeds, seconds):
    """Coverage-guided tier (thorough only): libFuzzer via atheris in a subprocess, corpus = printed valid schemas."""
    res = ctx.res
    corpus = os.path.join(workdir, "corpus")
    os.makedirs(corpus, exist_ok=True)
    for k, toks in enumerate(seeds):
        with open(os.path.join(corpus, f"seed{k}"), "w") as fh:
            fh.write("".join(toks))
    dictfile = os.path.join(workdir, "dict")
    with open(dictfile, "w") as fh:
        for t in sorted(set(VOCAB)):
            if t.strip() and all(32 <= ord(c) < 127 for c in t):
                fh.write('"' + t.replace("\\", "\\\\").replace('"', '\\"') + '"\n')
    findings = os.path.join(workdir, "atheris.json")
    art = os.path.join(workdir, "artifacts") + os.sep
    os.makedirs(art, exist_ok=True)
    cmd = [env.PYTHON, os.path.join(env.VERIF, "props", "c09_atheris.py"), workdir, findings, corpus, f"-max_total_time={int(seconds)}", "-timeout=25",
           f"-dict={dictfile}", "-max_len=2048", f"-artifact_prefix={art}", f"-seed={ctx.seed * 1000 + ctx.shard}", "-print_final_stats=1"]
    try:
        p = subprocess.run(cmd, capture_output=True, text=True, timeout=seconds + 300, env=env.child_env(), cwd=workdir)
    except subprocess.TimeoutExpired:
        res.inconclusive.append("atheris subprocess did not finish")
        return
    log = p.stderr[-3000:]
    m = re.search(r"stat::number_of_executed_units: (\d+)", p.stderr)
    if m:
        res.count("atheris_executions", int(m.group(1)))
    cov = re.findall(r"cov: (\d+)", p.stderr)
    if cov:
        res.counters["atheris_edge_coverage_max"] = max(res.counters.get("atheris_edge_coverage_max", 0), int(cov[-1]))
    if os.path.exists(findings):
        data = json.load(open(findings))
        res.count("atheris_accepted", data["stats"]["accepted"])
        for key, f in data["findings"].items():
            key = resource_limit_key(key, f["what"], f["input"])
            res.violation(key, f"[atheris] {f['what']}", {"input": f["input"], "traceback": f["traceback"], "origin": "atheris"})
    for name in os.listdir(art):
        if name.startswith("timeout-"):
            text = open(os.path.join(art, name), "rb").read().decode("utf-8", "replace")
            res.violation("hang", f"[atheris] libFuzzer reported a unit exceeding 25 s ({len(text)} characters)", {"input": text[:4000], "origin": "atheris"})
        elif name.startswith("crash-"):
            text = open(os.path.join(art, name), "rb").read().decode("utf-8", "replace")
            res.violation("parse-internal:process-crash", f"[atheris] the process crashed on an input: {log[-300:]}", {"input": text[:4000], "origin": "atheris"})


if __name__ == "__main__":
    harness.main(
        "C09", "props.C09", worker,
        rule=("inputs: token-level mutations (delete/duplicate/swap/replace/insert/splice) of printed valid schemas over the language's vocabulary incl. "
              "odd widths, huge numbers, bad escapes, unterminated strings, division by zero; character-level mutations of the same texts; byte-level "
              "damage of the UTF-8 file (Latin-1, UTF-16/32, BOMs, truncated sequences, stray high bytes, surrogates, NULs) written to a main file or to an "
              "imported file and parsed from disk; random token strings; truncation at every kind of token boundary; hostile structured shapes (400-component dotted "
              "names, 120-deep message nesting, 400-deep parentheses, 2000-term expressions, integers around the host's print limit (4000/5000-digit decimals, 3500/4000-digit hex, products, sums at the limit) in every position that takes an integer, 300-field messages, empty/500-member "
              "enums, alias chains); every accepted text is rendered for c, go, py and (when traditional) c -O, go -O; the parser runs in an executor child process watched from outside: 40 s of CPU time on one input, twice, is a hang; the real CLI is sampled for tracebacks; an evaluation = one input text; distinct_nontrivial counts accepted "
              "inputs that were rendered plus distinct parser error classes provoked"),
        assumptions=["an import of a missing file is an OSError and allowed",
                     "coverage-guided fuzzing (atheris) runs only in the thorough tier"],
        required_counters=["inputs", "accepted", "rejected", "renders", "renders_optimisation_mode", "cli_runs", "inputs:byte-mutation", "inputs:structured"],
        extra_coverage=lambda res: {"distinct_parser_error_classes": len(res.sets.get("parser_error_classes", set()))},
        finish=lambda res, ev: ev["coverage"].__setitem__("distinct_nontrivial", res.counters.get("renders", 0) // 3 + len(res.sets.get("parser_error_classes", set()))),
    )
