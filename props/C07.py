"""C07 - Encoding touches exactly its bytes, and each field exactly its bits."""
import os
import re
import shutil
import traceback

from vlib import gen, harness, ref, sut_c, sut_compiler, sut_py
from vlib.model import Base, Enum, messages_of
from props import ccommon, pycommon


def py_overdrive_values(width, signed, rng):
    out = [1 << width, (1 << width) + 1, -1 if not signed else (1 << (width - 1)), (1 << 64) + rng.getrandbits(8), -(1 << 70) + rng.getrandbits(16),
           rng.getrandbits(width + 7) | (1 << (width + 3))]
    if signed:
        out += [-(1 << (width - 1)) - 1, (1 << width) - 1]
    else:
        out += [-rng.getrandbits(width) - 1]
    return out


def python_and_constants(ctx, n_cases):
    """Python containment/bounds and the three byte-length constants."""
    res = ctx.res
    bp, tr = pycommon.setup_monitors()
    for k in range(n_cases):
        if ctx.out_of_time():
            break
        case_id = ctx.shard + k * ctx.nshards
        rng = ctx.rng("pycase", case_id)
        root = gen.gen_schema(rng, pycommon.cfg_for_case(rng, case_id))
        d = ctx.casedir(f"p{case_id}")
        wit = {"case": case_id, "shard": ctx.shard, "phase": "python"}
        try:
            try:
                comp = sut_compiler.compile_schema(root, d, ["py", "go", "c"], rng=rng)
                mods = sut_py.PyModules(d, root)
            except Exception as e:
                harness.compile_failed(res, e, wit)
                continue
            wit["schema"] = pycommon.describe(root, comp["paths"])
            res.case(gen.is_nontrivial(gen.schema_signature(root)), wit["schema"])
            try:
                for g in root.all_files():
                    go_text = open(os.path.join(d, f"{g.basename}_bp.go")).read()
                    h_text = open(os.path.join(d, f"{g.basename}_bp.h")).read()
                    for m in messages_of(g):
                        want = ref.nbytes(m)
                        macro = sut_c.c_size_macro(m)
                        gname = sut_c.c_type_name(m)  # Go uses the same concatenated PascalCase name (no prefix: generator has none here)
                        mh = re.search(r"^#define %s (\d+)\s*$" % re.escape(macro), h_text, re.M)
                        mg = re.search(r"^const %s uint32 = (\d+)\s*$" % re.escape(macro), go_text, re.M)
                        ms = re.search(r"^func \(m \*%s\) Size\(\) uint32 \{ return (\d+) \}" % re.escape(gname), go_text, re.M)
                        pyv = mods.cls(m).BYTES_LENGTH
                        vals = {"c": int(mh.group(1)) if mh else None, "go_const": int(mg.group(1)) if mg else None,
                                "go_size": int(ms.group(1)) if ms else None, "py": pyv}
                        res.count("constants_compared")
                        if any(v != want for v in vals.values()):
                            res.violation("bytes-length-constant", f"{m.name}: byte-length constants {vals}, ceil({ref.nbits(m)}/8) = {want}",
                                          {**wit, "message": m.name, "constants": vals})
                        # ---- python containment -------------------------------
                        items = ref.leaves(m)
                        v = gen.gen_value(rng, m, "mix")
                        for it in items:
                            t = it.etype
                            if not isinstance(t, Base) or t.kind not in ("uint", "int"):
                                continue
                            if len(items) > 40 and rng.random() > 40 / len(items):
                                continue
                            for bad in py_overdrive_values(it.width, it.signed, rng)[: (8 if len(items) < 20 else 3)]:
                                vb = ref.set_leaf(m, v, it.path, bad)
                                red = bad & ((1 << it.width) - 1)
                                vr = ref.set_leaf(m, v, it.path, ref.to_signed(red, it.width) if it.signed else red)
                                try:
                                    tr.begin()
                                    try:
                                        got = bytes(mods.build(m, vb).encode())
                                    finally:
                                        calls, problems = tr.end()
                                except Exception as e:
                                    res.violation("py-overdrive-exception", f"{m.name}: encode with out-of-range {bad} in leaf {list(it.path)} raised "
                                                  f"{type(e).__name__}: {e}", {**wit, "message": m.name, "leaf": list(it.path), "bad": bad})
                                    continue
                                res.count("py_overdrive_compared")
                                exp = ref.encode(m, vr)
                                if got != exp or problems or len(got) != ref.nbytes(m):
                                    res.violation("py-containment", f"{m.name}: out-of-range value {bad} in leaf {list(it.path)} (width {it.width}) "
                                                  f"changed bits outside the field" + ("; " + "; ".join(problems) if problems else ""),
                                                  {**wit, "message": m.name, "leaf": list(it.path), "bad": bad, "got": got.hex(), "expected": exp.hex()})
            finally:
                mods.close()
        finally:
            shutil.rmtree(d, ignore_errors=True)
    res.count("trace_single_byte_steps", tr.total_steps)


def worker(ctx):
    if ctx.replay is not None:
        ph = ctx.replay["witness"].get("phase")
        ctx.res.notes.append("replay re-runs the phase of the witness with the recorded seed")
    if ctx.quick:
        ctx.set_budget(100)
        ccommon.run_std_cases(ctx, ctx.per_shard(48), 8, {"bounds": True, "contain": True, "const": True})
        ctx.set_budget(70)
        ccommon.run_opt_cases(ctx, ctx.per_shard(16), 2, {"contain": True}, variants=[("little", []), ("big", [])])
        ctx.set_budget(60)
        python_and_constants(ctx, ctx.per_shard(160))
    else:
        ctx.set_budget(1200)
        ccommon.run_std_cases(ctx, ctx.per_shard(480), 20, {"bounds": True, "contain": True, "const": True})
        ctx.set_budget(1200)
        ccommon.run_opt_cases(ctx, ctx.per_shard(160), 6, {"contain": True})
        ctx.set_budget(900)
        python_and_constants(ctx, ctx.per_shard(4000))


if __name__ == "__main__":
    harness.main(
        "C07", "props.C07", worker,
        rule=("three workloads over generated valid schemas: (1) standard-mode C in guard-page and ASan+UBSan builds: every Encode/Decode "
              "runs on exact-fit wire buffer and struct (end-aligned and start-aligned), canaries verified, and each integer leaf's "
              "storage is overdriven with out-of-range bit patterns and the wire compared with the wire of the reduced value; "
              "(2) the same overdrive for -O code (traditional schemas); (3) Python: out-of-range ints (too large, negative, > 2^64) per "
              "integer leaf under the trace monitor, and the byte-length constant parsed from .h/.go/.py compared with ceil(N/8); "
              "non-trivial/distinct as in C01"),
        assumptions=["guard pages see only the outer objects; intra-struct overwrite is caught functionally (leaf comparison in C03)",
                     "alignment check of UBSan excluded", "x86-64 host"],
        required_counters=["c_bounds_observed_calls", "c_overdrive_compared", "opt_overdrive_compared", "py_overdrive_compared",
                           "constants_compared", "c_size_constants_checked", "builds:gcc-asan-ubsan"],
    )
