"""C04 - Optimization mode (-O) changes how, never what, is encoded (C and Go)."""
from vlib import harness
from props import ccommon


def worker(ctx):
    if ctx.quick:
        n_cases, n_random = ctx.per_shard(32), 6
        ctx.set_budget(150)
    else:
        n_cases, n_random = ctx.per_shard(400), 30
        ctx.set_budget(3300)
    if ctx.replay is not None:
        n_cases = 1
    ccommon.run_opt_cases(ctx, n_cases, n_random, {"same": True, "go": GO})


GO = True

if __name__ == "__main__":
    harness.main(
        "C04", "props.C04", worker,
        rule=("case = generated traditional schema compiled in standard mode and with -O under --endian little/big/both; each -O "
              "variant (both also with -DBP_BIG_ENDIAN) is built (gcc/clang, -O0/-O2/-O3, ASan+UBSan, guard pages) and run on a "
              "basis of values per message: zero, all-ones, every single leaf bit alone, min/max/-1 per signed leaf, random; "
              "bytes and decoded leaves compared with the standard-mode build and the reference; non-trivial/distinct as in C01"),
        assumptions=["basis sweep: complete for the statement shapes emitted today ((x>>a)&mask OR-ed together, plus sign extension), not a proof",
                     "x86-64 little-endian host"],
        required_counters=["opt_encode_compared", "opt_decode_compared", "opt_calls:little", "opt_calls:big", "opt_calls:both",
                           "opt_calls:both+BP_BIG_ENDIAN", "builds:std", "go_opt_encode_evaluated", "go_opt_decode_evaluated"],
    )
